#!/usr/bin/env python3
"""Rewrites the status table of DESIGN.md section 10.1 from evidence/*.json and mutants/*.json."""
import json, re, os
here = os.path.dirname(os.path.dirname(os.path.abspath(__file__)))
d = open(os.path.join(here, 'DESIGN.md')).read()
cut = d.index('### 10.1 Status')
head, d = d[:cut], d[cut:]
for i in range(1, 21):
    pid = 'C%02d' % i
    ev = json.load(open(os.path.join(here, 'evidence', pid + '.json')))
    mu = json.load(open(os.path.join(here, 'mutants', pid + '.json')))
    rules = ev['coverage']['rules']
    names = ''
    if pid == 'C01':
        names = ' (R01.K, K6, K11)'
    silent = len([m for m in mu if m.get('expect') == 'silent'])
    q = '≈ 30' if pid in ('C01', 'C02') else '5-6'
    row = '| %s | %d%s | %d | %d (%d) | %s |' % (pid, len(rules), names, ev['coverage']['evaluations'], len(mu), silent, q)
    d = re.sub(r'\| %s \| [^\n]*\|\n' % pid, row + '\n', d, count=1)
open(os.path.join(here, 'DESIGN.md'), 'w').write(head + d)
