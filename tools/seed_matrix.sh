#!/bin/bash
# Applies every kept seeded change to /repo in turn, runs the check of its property (quick tier, self-test off),
# records which rule instances fire, and reverts. Output: seeded/MATRIX.md
cd /verif
git -C /repo diff --quiet || { echo "/repo not clean"; exit 2; }
out=seeded/MATRIX.md
echo "| seeded change | property | caught | rules that fire (construct) |" > $out
echo "|---|---|---|---|" >> $out
for d in seeded/*/; do
  n=$(basename $d); p=$(jq -r .property $d/meta.json)
  git -C /repo apply /verif/${d}patch.diff || { echo "| $n | $p | PATCH DOES NOT APPLY | |" >> $out; continue; }
  res=$(VERIF_NO_SELFTEST=1 ./check.sh $p quick 2>&1)
  git -C /repo checkout -- .
  hits=$(echo "$res" | grep -E '^\s+(VIOLATED|UNDECIDED) R' | sed -E 's/^\s+(VIOLATED|UNDECIDED) (R[0-9.a-zK]+) (\S+).*/\2 \3/' | sort -u | head -4 | tr '\n' ';' | sed 's/;$//; s/;/; /g; s/|/\\|/g')
  if echo "$res" | grep -q '^VIOLATION property='; then c=yes; else c=NO; fi
  echo "| $n | $p | $c | $hits |" >> $out
  echo "$n $p $c"
done
git -C /repo status --short | head -3
