#!/usr/bin/env python3
"""usage: seed_to_mutant.py <seed name> <expect rule> <expect construct substring>
Adds the seeded change seeded/<name>/patch.diff to mutants/<property>.json as an in-memory overlay mutant (one edit per
hunk), so that the self-test of the property keeps asserting that the named rule reports it."""
import json, sys, re
name, rule, construct = sys.argv[1:4]
d = f'/verif/seeded/{name}'
prop = json.load(open(d + '/meta.json'))['property']
edits, cur = [], None
f = None
for l in open(d + '/patch.diff').read().split('\n'):
    if l.startswith('+++ b/'):
        f = l[6:]
    elif l.startswith('@@'):
        cur = {'file': f, 'old': '', 'new': ''}
        edits.append(cur)
    elif cur is not None and not l.startswith(('diff ', 'index ', '--- ', '+++ ', '\\')):
        if l.startswith('-'):
            cur['old'] += l[1:] + '\n'
        elif l.startswith('+'):
            cur['new'] += l[1:] + '\n'
        elif l.startswith(' ') or l == '':
            if l == '' and cur['old'] == '' and cur['new'] == '':
                continue
            cur['old'] += l[1:] + '\n'
            cur['new'] += l[1:] + '\n'
    elif l.startswith('diff '):
        cur = None
# a trailing empty split element adds one '\n' too many to the last hunk
for e in edits:
    pass
if edits and edits[-1]['old'].endswith('\n\n') and edits[-1]['new'].endswith('\n\n'):
    edits[-1]['old'] = edits[-1]['old'][:-1]
    edits[-1]['new'] = edits[-1]['new'][:-1]
m = {'name': 'seed-' + name.split('-', 1)[1], 'file': edits[0]['file'], 'old': edits[0]['old'], 'new': edits[0]['new']}
if len(edits) > 1:
    m['more'] = edits[1:]
m['expect_rule'] = rule
m['expect_construct'] = construct
p = f'/verif/mutants/{prop}.json'
ms = json.load(open(p))
ms = [x for x in ms if x['name'] != m['name']] + [m]
json.dump(ms, open(p, 'w'), indent=1)
print('added', m['name'], 'to', p, len(edits), 'edit(s)')
