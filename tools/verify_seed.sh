#!/bin/bash
# usage: verify_seed.sh <patch.diff> <demo_test.go> <pkgdir relative to repo> [test run regex]
# Confirms in a scratch worktree: patch applies, builds, existing suite passes, demo fails with / passes without.
export GOFLAGS=-mod=mod GOPROXY=off GOSUMDB=off GOTOOLCHAIN=local GOWORK=off
patch=$(readlink -f "$1"); demo=$(readlink -f "$2"); pkg="$3"; run="${4:-.}"; extra="$5"
wt=/tmp/vseed.$$
git -C /repo worktree add -q --detach $wt HEAD || exit 2
trap 'git -C /repo worktree remove --force $wt' EXIT
cd $wt
git apply "$patch" || { echo "RESULT: patch does not apply"; exit 1; }
go build ./... || { echo "RESULT: does not build"; exit 1; }
if go test -vet=off -count=1 $(go list ./... | grep -v '/vflow/vflow$') >/tmp/vseed.$$.suite 2>&1; then echo "suite with change: PASS"; else echo "suite with change: FAIL"; tail -20 /tmp/vseed.$$.suite; fi
rm -f /tmp/vseed.$$.suite
cp "$demo" "$pkg/zz_seed_demo_test.go"
if go test -vet=off -count=1 $extra -run "$run" "./$pkg/" >/tmp/vseed.$$.w 2>&1; then echo "demo with change: PASS (unexpected)"; else echo "demo with change: FAIL (expected)"; grep -E '^\s+.*(Error|error|want|got|panic|FAIL|DATA RACE)' /tmp/vseed.$$.w | head -5; fi
git apply -R "$patch"
if go test -vet=off -count=1 $extra -run "$run" "./$pkg/" >/tmp/vseed.$$.wo 2>&1; then echo "demo without change: PASS (expected)"; else echo "demo without change: FAIL (unexpected)"; tail -5 /tmp/vseed.$$.wo; fi
rm -f /tmp/vseed.$$.w /tmp/vseed.$$.wo
