#!/bin/sh
# Runs the repository's pinned baseline suite (hooks: none; guard tag `verif` is unused and OFF).
export GOFLAGS=-mod=mod GOPROXY=off GOSUMDB=off GOTOOLCHAIN=local GOWORK=off
cd "${1:-/repo}" && go build ./... && go test -vet=off -count=1 -timeout 25m $(go list ./... | grep -v '/vflow/vflow$') 2>&1
