#!/bin/sh
# validates MANIFEST.json and every evidence file against the given schemas
python3-vt - <<'PY'
import json,jsonschema,glob
jsonschema.validate(json.load(open('/verif/MANIFEST.json')),json.load(open('/root/.vp/MANIFEST.schema.json')))
s=json.load(open('/root/.vp/EVIDENCE.schema.json'))
for f in sorted(glob.glob('/verif/evidence/C*.json')):
    jsonschema.validate(json.load(open(f)),s)
print('manifest and', len(glob.glob('/verif/evidence/C*.json')), 'evidence files valid')
PY
