#!/bin/bash
# Runs all 20 checks on every kept refactoring (scratch copies, ${RPAR:-3} refactorings at a time, ${PAR:-4} checks each).
# Prints one block per refactoring; an empty block means every check stayed silent.
cd /verif
tmp=$(mktemp -d)
ls -d refactors/*/ | xargs -P ${RPAR:-3} -I{} sh -c 'n=$(basename {}); tools/try_refactor_scratch.sh {}patch.diff > '"$tmp"'/$n.out 2>&1'
for f in $(ls $tmp | sort); do echo "######## ${f%.out}"; grep -v "^ *rule " $tmp/$f | cut -c1-400; done
rm -rf $tmp
echo DONE
