#!/bin/bash
# usage: try_refactor_scratch.sh <patch.diff>   like try_refactor.sh but on a scratch copy of /repo (leaves /repo alone)
patch=$(readlink -f "$1")
scr=$(mktemp -d /tmp/scrXXXXXX)
rsync -a --exclude=.git /repo/ $scr/repo/
( cd $scr/repo && patch -s -p1 < "$patch" ) || { rm -rf $scr; exit 2; }
mkdir -p $scr/verif/evidence $scr/verif/bin
cp /verif/known_findings.txt /verif/properties.jsonl $scr/verif/ 2>/dev/null
cp ${BIN:-/verif/bin/vfcheck} $scr/verif/bin/vfcheck
export GOFLAGS=-mod=mod GOPROXY=off GOSUMDB=off GOTOOLCHAIN=local GOWORK=off CGO_ENABLED=0
cd $scr/verif
(if [ -n "$CHECKS" ]; then echo $CHECKS; else bin/vfcheck -list; fi) | tr " " "\n" | grep -v "^$" | xargs -P ${PAR:-4} -I{} sh -c 'VERIF_NO_SELFTEST=1 bin/vfcheck -prop {} -tier quick -repo '"$scr"'/repo -verif '"$scr"'/verif > '"$scr"'/{}.out 2>&1; echo $? > '"$scr"'/{}.rc'
for p in $(if [ -n "$CHECKS" ]; then echo $CHECKS; else bin/vfcheck -list; fi); do
  rc=$(cat $scr/$p.rc)
  if [ "$rc" != "0" ]; then echo "== $p rc=$rc"; grep -E '^\s+(VIOLATED|UNDECIDED)|no verdict|panic|error' $scr/$p.out | cut -c1-400 | head -8; fi
done
cd /; rm -rf $scr
