#!/bin/bash
# For every kept seeded change: all 20 checks on a scratch copy with the change applied; lists which properties' checks
# report it (own property first). Output: seeded/CROSS.md   (RPAR seeds at a time, PAR checks each; ONLY_NEW=1 keeps the
# existing rows and runs only the changes that have none)
cd /verif
tmp=$(mktemp -d)
one() {
  d=$(readlink -f "$1"); n=$(basename $d); p=$(jq -r .property $d/meta.json)
  scr=$(mktemp -d /tmp/scrXXXXXX)
  rsync -a --exclude=.git /repo/ $scr/repo/
  ( cd $scr/repo && patch -s -p1 < "$d/patch.diff" ) || { rm -rf $scr; echo "$n $p PATCH-FAILS" ; return; }
  mkdir -p $scr/verif/evidence; cp /verif/known_findings.txt /verif/properties.jsonl $scr/verif/
  export GOFLAGS=-mod=mod GOPROXY=off GOSUMDB=off GOTOOLCHAIN=local GOWORK=off CGO_ENABLED=0
  /verif/bin/vfcheck -list | tr " " "\n" | grep -v "^$" | xargs -P ${PAR:-4} -I{} sh -c 'VERIF_NO_SELFTEST=1 /verif/bin/vfcheck -prop {} -tier quick -repo '"$scr"'/repo -verif '"$scr"'/verif > '"$scr"'/{}.out 2>&1; echo $? > '"$scr"'/{}.rc'
  hits=""
  for q in $(/verif/bin/vfcheck -list); do
    if grep -q '^VIOLATION property=' $scr/$q.out; then hits="$hits $q"; elif [ "$(cat $scr/$q.rc)" != "0" ]; then hits="$hits $q(no-verdict)"; fi
  done
  echo "$n $p$hits"
  rm -rf $scr
}
export -f one
out=seeded/CROSS.md
if [ -n "$ONLY_NEW" ] && [ -f $out ]; then
  # keep the rows already there, run only the changes that have none yet
  grep '^| C' $out | sed -E 's/^\| ([^ ]+) \| ([^ ]+) \| ?(.*) \|$/\1 \2 \3/' > $tmp/old
  ls -d seeded/*/ | while read d; do n=$(basename $d); grep -q "^$n " $tmp/old || echo $d; done | xargs -P ${RPAR:-3} -I{} bash -c 'one {}' > $tmp/out 2>&1
  cat $tmp/old >> $tmp/out
else
  ls -d seeded/*/ | xargs -P ${RPAR:-3} -I{} bash -c 'one {}' > $tmp/out 2>&1
fi
echo "| seeded change | property | checks that report it |" > $out
echo "|---|---|---|" >> $out
sort $tmp/out | while read n p hits; do echo "| $n | $p | $hits |" >> $out; done
cat $tmp/out | sort
rm -rf $tmp
echo DONE
