#!/bin/bash
# usage: import_seed.sh <seed name> <src out dir> <property> <demo pkg dir> <run regex> <needs...>
name=$1; src=$2; prop=$3; pkg=$4; run=$5; shift 5
d=/verif/seeded/$name; mkdir -p $d
cp $src/patch.diff $d/patch.diff; cp $src/zz_seed_demo_test.go $d/; [ -f $src/notes.md ] && cp $src/notes.md $d/notes.md
python3 - "$d" "$prop" "$pkg" "$run" "$*" <<'PY'
import json,sys,subprocess
d,prop,pkg,run,needs=sys.argv[1:6]
base=subprocess.run(['git','-C','/repo','rev-parse','--short','HEAD'],capture_output=True,text=True).stdout.strip()
json.dump({"property":prop,"base_commit":base,"demo":{"file":"zz_seed_demo_test.go","package_dir":pkg,"command":f"go test -vet=off -count=1 -run '{run}' ./{pkg}/"},
 "needs_to_manifest":needs,
 "confirmed":"tools/verify_seed.sh: patch applies to a fresh worktree, go build ./... ok, existing suite passes with the change, demo fails with the change and passes after reverse-applying it",
 "source":"independent sub-agent given only the property text and a scratch worktree"},open(d+'/meta.json','w'),indent=1)
PY
echo imported $d
