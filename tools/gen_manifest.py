#!/usr/bin/env python3
"""Generates /verif/MANIFEST.json from props.json (per-property claim texts) and the list of
properties the built checker has a check for (bin/vfcheck -list)."""
import json, os, subprocess, sys

here = os.path.dirname(os.path.dirname(os.path.abspath(__file__)))
props = json.load(open(os.path.join(here, "tools", "props.json")))
have = subprocess.run([os.path.join(here, "bin", "vfcheck"), "-list"], capture_output=True, text=True).stdout.split()
hooks_commits = []
ENV = "export GOFLAGS=-mod=mod GOPROXY=off GOSUMDB=off GOTOOLCHAIN=local GOWORK=off CGO_ENABLED=0"
man = {
    "version": 1,
    "setup_cmd": ENV + " && cd /verif && go build -o bin/vfcheck ./cmd/vfcheck",
    "hooks": {
        "guard": "verif",
        "enable": "none needed: static analysis reads /repo's source; no instrumentation exists, the build tag `verif` is reserved and unused",
        "baseline_off_cmd": "cd /repo && GOFLAGS=-mod=mod GOPROXY=off GOSUMDB=off GOWORK=off go test -json -vet=off -count=1 -timeout 25m ./...",
        "source_commits": hooks_commits,
        "add_only": True,
    },
    "engines": [
        {"name": "vfcheck", "path": "cmd/vfcheck", "serves_properties": sorted(have),
         "kind_free_text": "repository-specific static analyser over go/packages + go/types + go/ssa (x/tools v0.29.0): table extraction, CFG path/event rules, def-use/provenance slices, lockset, wire-layout extraction, interval/difference abstract interpretation for panic obligations; self-tested on every run by overlay mutants"}
    ],
    "checks": [],
    "not_applicable": [],
    "notes": "Technique family: static analysis only. Every check re-loads /repo's working tree (parse, type-check, SSA) and runs no vflow code. Exit 0 = all rule instances discharged (KNOWN-FINDING lines allowed), 1 = VIOLATION lines, 2 = no verdict (load/type error or self-test canary not flagged). See DESIGN.md.",
}
for pid in sorted(props):
    p = props[pid]
    if pid in have and p.get("claim", True):
        man["checks"].append({
            "property_id": pid,
            "quick_cmd": "./check.sh %s quick" % pid,
            "thorough_cmd": "./check.sh %s thorough" % pid,
            "evidence_file": "evidence/%s.json" % pid,
            "replay_cmd_template": "bin/vfcheck -replay {path}",
            "engine": "vfcheck",
            "level_claimed": {"category": "other", "text": p["text"], "design_ref": "DESIGN.md section 5, " + pid},
            "level_note": p["note"],
            "technique": p["technique"],
        })
    else:
        man["not_applicable"].append({"property_id": pid, "reason": p.get("na_reason", "check not built yet; see DESIGN.md section 5 for the planned static rules")})
json.dump(man, open(os.path.join(here, "MANIFEST.json"), "w"), indent=1)
print("checks:", [c["property_id"] for c in man["checks"]])
print("not_applicable:", [c["property_id"] for c in man["not_applicable"]])
