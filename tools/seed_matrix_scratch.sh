#!/bin/bash
# Like seed_matrix.sh but on scratch copies of /repo, several at a time (PAR, default 5). Output: seeded/MATRIX.md
cd /verif
out=seeded/MATRIX.md
tmp=$(mktemp)
ls -d seeded/*/ | xargs -P ${PAR:-5} -I{} tools/try_seed_scratch.sh {} > $tmp 2>&1
echo "| seeded change | property | caught | rules that fire (construct) |" > $out
echo "|---|---|---|---|" >> $out
sort $tmp | while read n p c hits; do
  h=$(echo "$hits" | sed 's/;$//; s/;/; /g; s/|/\\|/g')
  echo "| $n | $p | $c | $h |" >> $out
  echo "$n $p $c"
done
rm -f $tmp
