#!/usr/bin/env python3
"""Prompt for a behaviour-preserving refactoring agent (used to test the checks for false alarms)."""
import json, sys
pid, focus, root = sys.argv[1], int(sys.argv[2]), sys.argv[3]
style = sys.argv[4] if len(sys.argv) > 4 else "any"
area = sys.argv[5] if len(sys.argv) > 5 else ""
for l in open('/verif/properties.jsonl'):
    p = json.loads(l)
    if p['id'] == pid:
        break
mech = p['anchors']['mechanism']
mlist = "\n".join("    - %s (%s)" % (m['name'], m['where']) for m in mech)
f = mech[focus % len(mech)]
STYLE = ""
if style == "micro":
    STYLE = " This time do NOT extract new helper functions or methods: make several small in-place edits instead (renaming locals/parameters/receivers, inverting an if/else, merging or splitting nested ifs, `x := f(); if x ...` <-> `if x := f(); ...`, switch <-> if chain, reordering independent statements or declarations, named constants for literals, index loop <-> range, `var x T` <-> `x := T{}`, combining or splitting declarations, `if err != nil { return err }; return nil` <-> `return err`, De Morgan on conditions, early return <-> nested block)."
print(f"""You are helping test a verification effort for the open-source Go project VerizonDigital/vflow (an IPFIX / NetFlow v5/v9 / sFlow UDP collector). You have your own scratch git worktree of the repository at {root}/{pid}/wt (module path github.com/EdgeCast/vflow). Work ONLY inside {root}/{pid}/ . Never read or write /repo or /verif.

Every shell call needs: export GOFLAGS=-mod=mod GOPROXY=off GOSUMDB=off GOTOOLCHAIN=local GOWORK=off   (the sandbox has no network; nothing can be downloaded).

Here is a behavioural property the project satisfies today:

  Title: {p['title']}
  Statement: {p['statement']}
  Mechanisms in the code the property rests on (line numbers may have drifted a little):
{mlist}

Your task: produce ONE realistic, strictly BEHAVIOUR-PRESERVING refactoring of the code that implements this property, the kind of clean-up a maintainer would merge: for example rename local variables or parameters, extract a helper function or inline one, turn an if/else chain into a switch (or back), restructure early returns, change a loop's form (index loop <-> range), reorder statements that are independent of each other, introduce a named constant, hoist a repeated sub-expression into a local, split a long function, merge duplicated code into one helper, re-word log/error texts that nothing depends on. {('Work on this part of the code: ' + area + '.') if area else ('Prefer the code around this mechanism: "' + f['name'] + '" (' + f['where'] + ').')}{STYLE}

Hard requirements:
  1. For EVERY input, schedule and configuration the program must behave exactly as before (same outputs, same errors and error classes, same side effects, same concurrency discipline, same allocation/aliasing behaviour that the property could depend on). If you are not sure an edit preserves behaviour, do not make it. Do NOT fix bugs, do NOT add or remove checks, do NOT change constants' values, types of exported things, or the public API.
  2. `cd {root}/{pid}/wt && go build ./...` succeeds and `go test -vet=off -count=1 $(go list ./... | grep -v '/vflow/vflow$')` is all ok.
  3. Size: roughly 10-60 changed lines, in one or two files (non-test .go files only). Make it a real refactoring, not a whitespace or comment change.

Deliverables under {root}/{pid}/out/ :
  - patch.diff : output of `git -C {root}/{pid}/wt diff`. It must apply with `git apply` to a clean checkout of the same commit.
  - notes.md : what you changed and a short argument, edit by edit, why behaviour is unchanged.
In your final reply, summarise in a few lines what you changed and where.""")
