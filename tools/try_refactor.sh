#!/bin/bash
# usage: try_refactor.sh <patch.diff>   applies a behaviour-preserving change to /repo, runs all quick checks
# (self-test off), prints every alarm (these would be false alarms), reverts.
patch=$(readlink -f "$1")
git -C /repo diff --quiet || { echo "/repo not clean"; exit 2; }
git -C /repo apply "$patch" || exit 2
cd /verif
for p in $(bin/vfcheck -list); do
  out=$(VERIF_NO_SELFTEST=1 ./check.sh $p quick 2>&1); rc=$?
  if [ $rc -ne 0 ]; then echo "== $p rc=$rc"; echo "$out" | grep -E '^\s+(VIOLATED|UNDECIDED)|no verdict|panic|error' | cut -c1-400 | head -8; fi
done
git -C /repo checkout -- . ; git -C /repo status --short | head -3
