#!/bin/bash
# usage: try_refactor.sh <patch.diff>   applies a behaviour-preserving change to /repo, runs all quick checks
# (self-test off, 6 at a time), prints every alarm (these would be false alarms), reverts.
patch=$(readlink -f "$1")
git -C /repo diff --quiet || { echo "/repo not clean"; exit 2; }
git -C /repo apply "$patch" || exit 2
cd /verif
tmp=$(mktemp -d)
bin/vfcheck -list | tr " " "\n" | grep -v "^$" | xargs -P 6 -I{} sh -c 'VERIF_NO_SELFTEST=1 ./check.sh {} quick > '"$tmp"'/{}.out 2>&1; echo $? > '"$tmp"'/{}.rc'
for p in $(bin/vfcheck -list); do
  rc=$(cat $tmp/$p.rc)
  if [ "$rc" != "0" ]; then echo "== $p rc=$rc"; grep -E '^\s+(VIOLATED|UNDECIDED)|no verdict|panic|error' $tmp/$p.out | cut -c1-400 | head -8; fi
done
rm -rf $tmp
git -C /repo checkout -- . ; git -C /repo status --short | head -3
