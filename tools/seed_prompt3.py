#!/usr/bin/env python3
"""Round-5/6 seeding prompt: property text only plus a "where to look" twist (A indirect site, B two cooperating edits, C non-default configuration, D error or rare path, E other package, F declarations, G concurrency, I boundary, J error handling, K API misuse), so that changes differ from earlier rounds."""
import json, sys
pid, twist, root = sys.argv[1], sys.argv[2], sys.argv[3]
TW={'I':'prefer an off-by-one or boundary mistake: a comparison operator, a loop bound, a slice bound, a constant that is one too small or too large, a width or shift amount','J':'prefer an error-handling mistake: an error that is ignored, swallowed, overwritten, given the wrong class (fatal vs non-fatal), or an early return/continue that skips a step that must still happen','K':'prefer a misuse of a standard-library or third-party API that still compiles: a wrong flag or mode, swapped arguments of the same type, a function with subtly different semantics (Write vs WriteString, Read vs ReadFull, Split vs SplitN, LittleEndian vs BigEndian, Unix vs UnixNano, Lock vs RLock)','E':'prefer a change in a different package or file than the one the property most obviously lives in (for example packet/, reader/, mirror/, producer/, the wiring in vflow/, or the twin of an ipfix function in netflow/v9 or vice versa)','F':'prefer a change to a type, a constant, a struct tag, a zero value, a declaration or the initialisation order rather than to a statement on the main decode path','G':'prefer a concurrency change: a lock scope, an atomic access replaced by a plain one (or the reverse done half-way), a goroutine or channel operation moved, a buffered channel made unbuffered or the reverse, shared state introduced between workers','A':'prefer NOT the most obvious site for this property: a helper it calls, a sibling implementation (the project has parallel ipfix / netflow v9 / netflow v5 / sflow code paths and three producers), a shared utility, a constant or data table, or start-up/shutdown wiring the behaviour depends on indirectly','B':'prefer a breakage made of two cooperating edits at different sites, each of which looks harmless (or even like an improvement) on its own','C':'prefer a breakage that manifests only under a non-default configuration, option combination or deployment (e.g. a feature that is off by default, several workers, a particular producer)','D':'prefer a breakage on an error path, a rarely taken branch, or a boundary value (empty, maximum, wrap-around), leaving the common path untouched'}
for l in open('/verif/properties.jsonl'):
    p = json.loads(l)
    if p['id'] == pid:
        break
print(f"""You are helping test a verification effort for the open-source Go project VerizonDigital/vflow (an IPFIX / NetFlow v5/v9 / sFlow UDP collector). You have your own scratch git worktree of the repository at {root}/{pid}/wt (module path github.com/EdgeCast/vflow). Work ONLY inside {root}/{pid}/ . Never read or write /repo or /verif.

Every shell call needs: export GOFLAGS=-mod=mod GOPROXY=off GOSUMDB=off GOTOOLCHAIN=local GOWORK=off   (the sandbox has no network; nothing can be downloaded).

Here is a behavioural property the project is supposed to satisfy:

  Title: {p['title']}
  Statement: {p['statement']}
  Quantified over: {p['quantifier']['text']}

Your task: produce ONE realistic source change to the vflow code (non-test .go files, or shipped data files, in the worktree) that BREAKS this property, such that:
  1. the project still compiles: `cd {root}/{pid}/wt && go build ./...` succeeds;
  2. the existing test suite still passes: `cd {root}/{pid}/wt && go test -vet=off -count=1 $(go list ./... | grep -v '/vflow/vflow$')` is all ok (the package github.com/EdgeCast/vflow/vflow's own tests are excluded: they need raw sockets);
  3. the breakage is SUBTLE: it needs something specific to manifest (an unusual or adversarial input, a particular interleaving or timing, a multi-step sequence of operations, a crash/fault at a particular point, a particular configuration combination, or two cooperating sites that each look fine alone). Not something ordinary use or a casual code review would expose at once. It should look like a plausible regression a real developer could introduce (a refactor, an optimisation, an off-by-one, a reordered statement, a dropped check, a changed constant, a wrong variable), not sabotage with an obviously malicious look.
  4. keep it small (typically 1-15 changed lines), do not edit or delete existing tests, do not add build tags.
  5. if you can, {TW[twist]}. If that turns out not to be workable, any change meeting 1-4 is fine.

Then write a demonstration: a Go test file (or small Go program) that FAILS with your change applied and PASSES on the unchanged code. Put the demo test in the relevant package directory of the worktree to run it (name it zz_seed_demo_test.go), run it WITH your change (must fail) and, after `git stash` of only the source change or by applying the reverse patch, WITHOUT it (must pass). If the breakage is about scheduling/timing and cannot be shown by a deterministic test, make the demo as deterministic as you can (e.g. -race, explicit synchronisation, many iterations) and say so.

Deliverables, all under {root}/{pid}/out/ :
  - patch.diff : output of `git -C {root}/{pid}/wt diff` for the SOURCE change only (not including the demo test). It must apply with `git apply` to a clean checkout of the same commit.
  - the demo test file(s) (copy of zz_seed_demo_test.go, plus a line in notes.md saying which package directory it belongs in and the exact command to run it)
  - notes.md : what the change is, why it breaks the property, what specific conditions are needed for it to manifest, and the outputs you observed (demo failing with the change, passing without; build + existing tests passing with the change).
Leave the worktree with your source change applied and the demo test present. In your final reply, summarise in a few lines what you changed and where.""")
