#!/bin/bash
# usage: try_seed_scratch.sh <seed dir>   runs the check of the seed's own property on a scratch copy of /repo with the
# seeded change applied (leaves /repo alone); prints caught yes/NO and the rule instances that fire
d=$(readlink -f "$1"); n=$(basename $d); p=$(jq -r .property $d/meta.json)
scr=$(mktemp -d /tmp/scrXXXXXX)
rsync -a --exclude=.git /repo/ $scr/repo/
( cd $scr/repo && patch -s -p1 < "$d/patch.diff" ) || { rm -rf $scr; echo "$n $p PATCH DOES NOT APPLY"; exit 2; }
mkdir -p $scr/verif/evidence
cp /verif/known_findings.txt /verif/properties.jsonl $scr/verif/
export GOFLAGS=-mod=mod GOPROXY=off GOSUMDB=off GOTOOLCHAIN=local GOWORK=off CGO_ENABLED=0
res=$(VERIF_NO_SELFTEST=1 ${BIN:-/verif/bin/vfcheck} -prop $p -tier quick -repo $scr/repo -verif $scr/verif 2>&1)
hits=$(echo "$res" | grep -E '^\s+(VIOLATED|UNDECIDED) R' | sed -E 's/^\s+(VIOLATED|UNDECIDED) (R[0-9.a-zK]+) (\S+).*/\2 \3/' | sort -u | head -4 | tr '\n' ';')
if echo "$res" | grep -q '^VIOLATION property='; then c=yes; else c=NO; fi
echo "$n $p $c $hits"
cd /; rm -rf $scr
