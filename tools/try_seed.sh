#!/bin/bash
# usage: try_seed.sh <patch.diff> <prop> [more props...]   applies the patch to /repo, runs the checks, reverts.
patch=$(readlink -f "$1"); shift
git -C /repo diff --quiet || { echo "/repo not clean"; exit 2; }
git -C /repo apply "$patch" || exit 2
for p in "$@"; do
  echo "== $p"; (cd /verif && VERIF_NO_SELFTEST=1 ./check.sh $p quick | grep -E 'VIOLATED|UNDECIDED|VIOLATION|KNOWN|^property|no verdict' | cut -c1-300 | head -${SEED_LINES:-25})
done
git -C /repo checkout -- . ; git -C /repo status --short | head
