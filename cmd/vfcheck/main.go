// vfcheck decides the vflow properties C01..C20 by static analysis of /repo's current source.
package main

import (
	"encoding/json"
	"flag"
	"fmt"
	"os"
	"path/filepath"
	"runtime/debug"
	"runtime/pprof"
	"sort"
	"strconv"
	"strings"
	"time"

	"verif/internal/core"
	"verif/internal/rules"
)

func main() {
	var (
		prop    = flag.String("prop", "", "property id (C01..C20)")
		tier    = flag.String("tier", "quick", "quick|thorough")
		repo    = flag.String("repo", "/repo", "repository root")
		verif   = flag.String("verif", "", "verif dir (default: parent of the binary's dir)")
		replay  = flag.String("replay", "", "violation file to re-evaluate")
		mutant  = flag.String("mutant", "", "internal: JSON edit {file,old,new} applied as an in-memory overlay; prints instances, writes no evidence")
		goarch  = flag.String("goarch", "", "GOARCH for loading (default host)")
		list    = flag.Bool("list", false, "list properties with checks")
		selftst = flag.Bool("selftest", false, "run the canary/mutant corpus of -prop (all with -tier thorough, first canary with quick)")
	)
	flag.Parse()
	debug.SetGCPercent(600)
	if pf := os.Getenv("VERIF_CPUPROFILE"); pf != "" {
		f, _ := os.Create(pf)
		pprof.StartCPUProfile(f)
		defer pprof.StopCPUProfile()
		go func() {
			time.Sleep(60 * time.Second)
			pprof.StopCPUProfile()
			f.Close()
			os.Exit(9)
		}()
	}
	if *verif == "" {
		exe, _ := os.Executable()
		*verif = filepath.Dir(filepath.Dir(exe))
	}
	if *list {
		var ids []string
		for id := range rules.Registry {
			ids = append(ids, id)
		}
		sort.Strings(ids)
		fmt.Println(strings.Join(ids, " "))
		return
	}
	if *replay != "" {
		b, err := os.ReadFile(*replay)
		if err != nil {
			fmt.Println("cannot read replay file:", err)
			os.Exit(2)
		}
		var v struct{ Property, Rule, Construct, Tier string }
		json.Unmarshal(b, &v)
		*prop = v.Property
		if v.Tier != "" {
			*tier = v.Tier
		}
		fmt.Printf("replaying %s rule=%s construct=%s\n", v.Property, v.Rule, v.Construct)
	}
	if t := os.Getenv("VERIF_TIER"); t != "" && !isFlagSet("tier") {
		*tier = t
	}
	seed := int64(0)
	if s := os.Getenv("VERIF_SEED"); s != "" {
		seed, _ = strconv.ParseInt(s, 10, 64)
	}
	fn, ok := rules.Registry[*prop]
	if !ok {
		fmt.Printf("no check for property %q\n", *prop)
		os.Exit(2)
	}
	defer func() {
		if r := recover(); r != nil {
			fmt.Printf("checker panic (no verdict): %v\n%s\n", r, debug.Stack())
			os.Exit(2)
		}
	}()
	var overlay map[string][]byte
	if *mutant != "" {
		var err error
		overlay, err = rules.OverlayFor(*repo, *mutant)
		if err != nil {
			fmt.Println("MUTANT-NOT-APPLICABLE:", err)
			os.Exit(3)
		}
	}
	prog, err := core.Load(*repo, *goarch, overlay)
	if err != nil {
		fmt.Println("cannot load program (no verdict):", err)
		if *mutant != "" {
			os.Exit(4)
		}
		os.Exit(2)
	}
	rep := core.NewReport(*prop, *tier, seed, prog, *verif)
	if len(prog.InlineNotes) > 0 {
		rep.Extra["normalising_inliner"] = prog.InlineNotes
		if os.Getenv("VERIF_DEBUG_INLINE") != "" {
			for _, n := range prog.InlineNotes {
				fmt.Println("INLINE", n)
			}
		}
	}
	if *mutant != "" {
		rep.Quiet = true
		fn(rep)
		for _, in := range rep.Violations() {
			fmt.Printf("MUTANT-HIT rule=%s construct=%s pos=%s detail=%s\n", in.Rule, in.Construct, in.Pos, in.Detail)
		}
		return
	}
	_ = selftst
	st := rules.StartSelfTest(*prop, *tier, *repo, *verif)
	fn(rep)
	selfOK := st.Finish(rep)
	code := rep.Finish()
	if !selfOK && code == 0 {
		fmt.Println("SELFTEST-FAILED: a canary/mutant that applies to the current tree was not flagged (or a behaviour-preserving edit was): the checker cannot be trusted on this tree; no verdict")
		code = 2
	}
	os.Exit(code)
}

func isFlagSet(name string) bool {
	set := false
	flag.Visit(func(f *flag.Flag) {
		if f.Name == name {
			set = true
		}
	})
	return set
}
