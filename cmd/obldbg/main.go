package main

import (
	"fmt"
	"os"
	"strings"

	"verif/internal/core"
	"verif/internal/obl"
)

func main() {
	prog, err := core.Load(repoDir(), "", nil)
	if err != nil {
		panic(err)
	}
	an := obl.New(obl.Config{IsRepo: prog.IsRepoFunc})
	for _, fn := range prog.RepoFuncs() {
		if strings.Contains(fn.String(), os.Args[1]) {
			fmt.Println("root", fn)
			an.AnalyzeRoot(fn, obl.RootOpts{NonNilParams: true})
		}
	}
	fmt.Println("warnings:", an.Warnings)
	for _, o := range an.Obligations() {
		fmt.Printf("%s %s failed=%d/%d %s\n", o.Kind, o.Key(core.FuncName), o.Failed, o.Contexts, o.Why)
	}
}

func repoDir() string {
	if d := os.Getenv("VERIF_REPO"); d != "" {
		return d
	}
	return "/repo"
}
