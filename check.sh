#!/bin/sh
# usage: check.sh <property id> [quick|thorough]
# Static analysis of /repo's current working tree; runs no vflow code.
cd "$(dirname "$0")" || exit 2
export GOFLAGS=-mod=mod GOPROXY=off GOSUMDB=off GOTOOLCHAIN=local GOWORK=off CGO_ENABLED=0
unset GOWORK_FILE
GOWORK=off; export GOWORK
[ -x bin/vfcheck ] || go build -o bin/vfcheck ./cmd/vfcheck || exit 2
tier="${2:-${VERIF_TIER:-quick}}"
exec bin/vfcheck -prop "$1" -tier "$tier" -repo "${VERIF_REPO:-/repo}" -verif "$(pwd)"
