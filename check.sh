#!/bin/sh
# usage: check.sh <property id> [quick|thorough]
# Static analysis of /repo's current working tree; runs no vflow code.
cd "$(dirname "$0")" || exit 2
export GOFLAGS=-mod=mod GOPROXY=off GOSUMDB=off GOTOOLCHAIN=local GOWORK=off CGO_ENABLED=0
unset GOWORK_FILE
GOWORK=off; export GOWORK
# (re)build the checker when it is missing or older than its sources
if [ ! -x bin/vfcheck ] || [ -n "$(find cmd internal go.mod -newer bin/vfcheck \( -name '*.go' -o -name go.mod \) 2>/dev/null | head -1)" ]; then
	go build -o bin/vfcheck.tmp.$$ ./cmd/vfcheck && mv -f bin/vfcheck.tmp.$$ bin/vfcheck || { rm -f bin/vfcheck.tmp.$$; [ -x bin/vfcheck ] || exit 2; }
fi
tier="${2:-${VERIF_TIER:-quick}}"
exec bin/vfcheck -prop "$1" -tier "$tier" -repo "${VERIF_REPO:-/repo}" -verif "$(pwd)"
