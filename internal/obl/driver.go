package obl

import (
	"fmt"
	"go/token"
	"go/types"
	"os"
	"sort"
	"strings"

	"golang.org/x/tools/go/ssa"
)

type blockIn struct {
	parts  []*State
	visits int
}

var trace = os.Getenv("VERIF_OBL_TRACE") != ""

const maxPartitions = 4
const widenAfter = 3

// analyzeFunc runs the forward analysis of fn in frame f from state `in` to a fixpoint and returns one
// state per reachable return instruction. Obligations are recorded on every visit; the verdict of the
// last visit of an instruction in a frame (made with the stable, weakest entry state) is the one kept.
func (an *Analyzer) analyzeFunc(fn *ssa.Function, f *Frame, in *State, final bool) []retState {
	if len(fn.Blocks) == 0 {
		return nil
	}
	if c, ok := an.memo[f]; ok && equalStates(c.in, in) {
		an.memoHits++
		var out []retState
		for _, r := range c.rets {
			out = append(out, retState{st: r.st.clone(), results: r.results, ret: r.ret})
		}
		return out
	}
	inCopy := in.clone()
	defer func() {
		// filled below through the named slot
	}()
	an.stack = append(an.stack, fn)
	defer func() { an.stack = an.stack[:len(an.stack)-1] }()
	an.Reached[fn]++
	if trace {
		fmt.Fprintf(os.Stderr, "%senter %s (state: vals=%d ints=%d mem=%d iv=%d ub=%d)\n", strings.Repeat(" ", f.depth), fn.Name(), len(in.vals), len(in.ints), len(in.mem), len(in.iv), len(in.ub))
		if os.Getenv("VERIF_OBL_TRACE") == fn.Name() {
			for t, v := range in.iv {
				fmt.Fprintf(os.Stderr, "   iv %s = %v\n", t, v)
			}
			for t, c := range in.mem {
				fmt.Fprintf(os.Stderr, "   mem %s = %+v\n", t, c)
			}
		}
		defer func(d int) { fmt.Fprintf(os.Stderr, "%sleave %s\n", strings.Repeat(" ", d), fn.Name()) }(f.depth)
	}
	ins := make([]*blockIn, len(fn.Blocks))
	for i := range ins {
		ins[i] = &blockIn{}
	}
	ins[0].parts = []*State{in}
	// loop headers: blocks with an incoming back edge
	header := make([]bool, len(fn.Blocks))
	for _, b := range fn.Blocks {
		for _, sc := range b.Succs {
			if sc.Dominates(b) {
				header[sc.Index] = true
			}
		}
	}
	// per loop header: the addresses of the instructions and blocks of its natural loop (the header block itself
	// excluded: its merge terms are handled by the join). Terms whose key embeds one of them are (re)defined in every
	// iteration, so whatever the back-edge states know about them describes the previous iteration.
	loopMarks := map[int]map[uint64]bool{}
	loopBlocks := map[int]map[*ssa.BasicBlock]bool{}
	for _, b := range fn.Blocks {
		for _, sc := range b.Succs {
			if !sc.Dominates(b) {
				continue
			}
			blocks := loopBlocks[sc.Index]
			if blocks == nil {
				blocks = map[*ssa.BasicBlock]bool{sc: true}
				loopBlocks[sc.Index] = blocks
			}
			stack := []*ssa.BasicBlock{b}
			for len(stack) > 0 {
				x := stack[len(stack)-1]
				stack = stack[:len(stack)-1]
				if blocks[x] {
					continue
				}
				blocks[x] = true
				stack = append(stack, x.Preds...)
			}
		}
	}
	for h, blocks := range loopBlocks {
		marks := map[uint64]bool{}
		for blk := range blocks {
			if blk.Index != h {
				marks[ptrOf(blk)] = true
			}
			for _, ins := range blk.Instrs {
				if _, isPhi := ins.(*ssa.Phi); isPhi && blk.Index == h {
					continue // the header's phis are defined by the join itself
				}
				marks[ptrOf(ins)] = true
			}
		}
		loopMarks[h] = marks
	}
	type edgeKey struct{ from, to int }
	edges := map[edgeKey][]*State{}
	work := []*ssa.BasicBlock{fn.Blocks[0]}
	inWork := map[*ssa.BasicBlock]bool{fn.Blocks[0]: true}
	retOf := map[*ssa.BasicBlock][]retState{}
	iter := 0
	for len(work) > 0 {
		iter++
		an.steps++
		if trace && iter%50 == 0 {
			fmt.Fprintf(os.Stderr, "%s iter %d in %s work=%d\n", strings.Repeat(" ", f.depth), iter, fn.Name(), len(work))
		}
		if iter > 2000 {
			top := ""
			for _, bb := range fn.Blocks {
				if ins[bb.Index].visits > 20 {
					top += fmt.Sprintf(" b%d(%s)x%d/%dparts", bb.Index, bb.Comment, ins[bb.Index].visits, len(ins[bb.Index].parts))
				}
			}
			an.Warnings = append(an.Warnings, "fixpoint bound reached in "+fn.String()+":"+top)
			an.failAll = true
			break
		}
		bi := 0
		for i, b := range work {
			if b.Index < work[bi].Index {
				bi = i
			}
		}
		b := work[bi]
		work = append(work[:bi], work[bi+1:]...)
		inWork[b] = false
		bin := ins[b.Index]
		bin.visits++
		retOf[b] = nil
		outEdges := make([][]*State, len(b.Succs))
		for _, st := range bin.parts {
			out := st.clone()
			for _, instr := range b.Instrs {
				if out.dead {
					break
				}
				an.step(out, f, instr, true)
			}
			if out.dead {
				continue
			}
			if r, ok := b.Instrs[len(b.Instrs)-1].(*ssa.Return); ok {
				retOf[b] = append(retOf[b], an.mkRet(out, f, r))
				continue
			}
			for si, succ := range b.Succs {
				e := out
				if len(b.Succs) > 1 {
					e = out.clone()
				}
				if ifi, ok := b.Instrs[len(b.Instrs)-1].(*ssa.If); ok {
					an.assumeCond(e, f, ifi.Cond, si == 0)
				}
				if e.dead {
					continue
				}
				an.applyPhis(e, f, b, succ)
				outEdges[si] = append(outEdges[si], e)
			}
		}
		for si, succ := range b.Succs {
			edges[edgeKey{b.Index, succ.Index}] = outEdges[si]
			// recompute the entry state of succ from all its incoming edges
			var incoming []*State
			if header[succ.Index] {
				// values defined before the loop do not change inside it: back-edge states take their
				// bindings from the loop-entry states instead of merging stale copies
				var entry, back []*State
				for _, p := range succ.Preds {
					if succ.Dominates(p) {
						back = append(back, edges[edgeKey{p.Index, succ.Index}]...)
					} else {
						entry = append(entry, edges[edgeKey{p.Index, succ.Index}]...)
					}
				}
				if succ.Index == 0 {
					entry = append(entry, in)
				}
				ej := an.groupJoin(entry, fmt.Sprintf("%s:b%d@%p:entry", f.key, succ.Index, succ))
				for _, bs := range back {
					if bs == nil || bs.dead || len(ej) == 0 {
						continue
					}
					src := ej[0]
					for _, e := range ej {
						if e.partKey() == bs.partKey() {
							src = e
						}
					}
					fix := bs.clone()
					for k, v := range src.vals {
						if k.f == f && definedBefore(k.v, succ) {
							fix.vals[k] = v
						}
					}
					for k, v := range src.ints {
						if k.f == f && definedBefore(k.v, succ) {
							fix.ints[k] = v
						}
					}
					for k, v := range src.tuples {
						if k.f == f && definedBefore(k.v, succ) {
							fix.tuples[k] = v
						}
					}
					incoming = append(incoming, fix)
				}
				incoming = append(incoming, ej...)
			} else {
				for _, p := range succ.Preds {
					incoming = append(incoming, edges[edgeKey{p.Index, succ.Index}]...)
				}
				if succ.Index == 0 {
					incoming = append(incoming, in)
				}
			}
			sin := ins[succ.Index]
			np := an.groupJoin(incoming, fmt.Sprintf("%s:b%d@%p", f.key, succ.Index, succ))
			if header[succ.Index] && len(sin.parts) > 0 && sin.visits >= 3*widenAfter {
				// still moving: force monotone accumulation
				np = an.accumulate(sin.parts, np, fmt.Sprintf("%s:b%d@%p", f.key, succ.Index, succ), true)
			} else if header[succ.Index] && len(sin.parts) > 0 && sin.visits >= widenAfter {
				// loop header: widen against the previous entry state so that the iteration terminates
				for _, n := range np {
					for _, o := range sin.parts {
						if o.partKey() == n.partKey() {
							an.widen(o, n)
						}
					}
				}
			}
			if trace && os.Getenv("VERIF_OBL_TRACE") == fn.Name() && header[succ.Index] {
				for _, n := range np {
					for t, v := range n.iv {
						if t.kind == "len" && strings.Contains(t.String(), "mphi") {
							fmt.Fprintf(os.Stderr, "   header b%d visit %d: %s = %v (same=%v)\n", succ.Index, sin.visits, t, v, sameParts(sin.parts, np))
						}
					}
				}
			}
			if header[succ.Index] {
				for _, n := range np {
					an.purgeLoopLocal(n, f, loopMarks[succ.Index], loopBlocks[succ.Index])
				}
				// the purge can remove the very terms two partitions differed in: partitions that now carry the same
				// key are one partition (left apart they multiply until the partition bound folds everything, and the
				// header state oscillates instead of converging)
				dup := false
				seenKey := map[string]bool{}
				for _, n := range np {
					k := n.partKey()
					if seenKey[k] {
						dup = true
					}
					seenKey[k] = true
				}
				if dup && os.Getenv("VERIF_OBL_NOREGROUP") == "" {
					np = an.groupJoin(np, fmt.Sprintf("%s:b%d@%p", f.key, succ.Index, succ))
				}
			}
			if !sameParts(sin.parts, np) {
				if os.Getenv("VERIF_OBL_DIFF") != "" && sin.visits > 20 && len(sin.parts) != len(np) {
					var ks []string
					for _, n := range np {
						ks = append(ks, n.partKey())
					}
					fmt.Fprintf(os.Stderr, "DIFF %s b%d visit %d parts %d -> %d %q\n", fn.Name(), succ.Index, sin.visits, len(sin.parts), len(np), ks)
				}
				if os.Getenv("VERIF_OBL_DIFF") != "" && sin.visits > 20 && len(sin.parts) == len(np) {
					for i := range np {
						if !equalStates(sin.parts[i], np[i]) {
							fmt.Fprintf(os.Stderr, "DIFF %s b%d visit %d part %d: %s\n", fn.Name(), succ.Index, sin.visits, i, diffStates(sin.parts[i], np[i]))
						}
					}
				}
				sin.parts = np
				if !inWork[succ] {
					inWork[succ] = true
					work = append(work, succ)
				}
			}
		}
	}
	var rets []retState
	for _, b := range fn.Blocks {
		rets = append(rets, retOf[b]...)
	}
	var saved []retState
	for _, r := range rets {
		saved = append(saved, retState{st: r.st.clone(), results: r.results, ret: r.ret})
	}
	an.memo[f] = &memoEntry{in: inCopy, rets: saved}
	// the memo of deeper frames is only useful while this function iterates
	pre := f.key + "/"
	for fr := range an.memo {
		if strings.HasPrefix(fr.key, pre) {
			delete(an.memo, fr)
		}
	}
	return rets
}

type memoEntry struct {
	in   *State
	rets []retState
}

func (an *Analyzer) mkRet(st *State, f *Frame, r *ssa.Return) retState {
	rs := retState{st: st, ret: r}
	for _, v := range r.Results {
		rs.results = append(rs.results, an.cellOf(st, f, v))
	}
	// table summaries: `return <const>` under comparisons of an integer parameter — attach to the constant's cell
	if len(r.Results) == 1 && isIntType(r.Results[0].Type()) {
		if ts := an.tableFor(st, f); ts != nil && rs.results[0].int {
			if rs.results[0].lin.base == nil {
				// give the constant a term so the table can be attached by the caller (mergeReturns copies via tbl)
				t := an.tt.mk("tblres", f.key, nil, nil, r.Results[0].Type(), "tbl")
				st.iv[t] = itv{rs.results[0].lin.c, rs.results[0].lin.c}
				st.tbl[t] = ts
				rs.results[0] = cell{int: true, lin: Lin{t, 0}}
			}
		}
	}
	return rs
}

func (an *Analyzer) tableFor(st *State, f *Frame) *tableSummary {
	if ts, ok := an.tables[f]; ok {
		return ts
	}
	ts := an.tableOf(f)
	if ts != nil {
		l := an.linOf(st, f, f.fn.Params[0])
		if l.base == nil || l.c != 0 {
			ts = nil
		} else {
			ts.arg = l.base
		}
	}
	an.tables[f] = ts
	return ts
}

// tableOf recognises functions whose control flow only compares one integer parameter with constants and
// whose returns are constants; it folds them into a table keyed by the argument's term.
func (an *Analyzer) tableOf(f *Frame) *tableSummary {
	fn := f.fn
	var param *ssa.Parameter
	for _, p := range fn.Params {
		if isIntType(p.Type()) {
			if param != nil {
				return nil
			}
			param = p
		}
	}
	if param == nil || len(fn.Params) != 1 {
		return nil
	}
	consts := map[int64]bool{}
	for _, b := range fn.Blocks {
		for _, ins := range b.Instrs {
			switch x := ins.(type) {
			case *ssa.BinOp:
				if x.X != ssa.Value(param) {
					return nil
				}
				c, ok := constInt(x.Y)
				if !ok || x.Op != token.EQL {
					return nil
				}
				consts[c] = true
			case *ssa.If, *ssa.Jump, *ssa.DebugRef:
			case *ssa.Return:
				if len(x.Results) != 1 {
					return nil
				}
				if _, ok := constInt(x.Results[0]); !ok {
					return nil
				}
			default:
				return nil
			}
		}
	}
	ts := &tableSummary{table: map[int64]int64{}}
	eval := func(v int64) (int64, bool) {
		b := fn.Blocks[0]
		for steps := 0; steps < 1000; steps++ {
			switch t := b.Instrs[len(b.Instrs)-1].(type) {
			case *ssa.Return:
				c, _ := constInt(t.Results[0])
				return c, true
			case *ssa.Jump:
				b = b.Succs[0]
			case *ssa.If:
				be := t.Cond.(*ssa.BinOp)
				c, _ := constInt(be.Y)
				if v == c {
					b = b.Succs[0]
				} else {
					b = b.Succs[1]
				}
			default:
				return 0, false
			}
		}
		return 0, false
	}
	for c := range consts {
		if r, ok := eval(c); ok {
			ts.table[c] = r
		}
	}
	// default: a value different from all constants
	d := int64(1 << 40)
	if r, ok := eval(d); ok {
		ts.dflt, ts.has = r, true
	}
	return ts
}

// applyPhis evaluates the phis of succ for the edge pred->succ (on a private copy of the state).
func (an *Analyzer) applyPhis(e *State, f *Frame, pred, succ *ssa.BasicBlock) {
	pi := -1
	for i, p := range succ.Preds {
		if p == pred {
			pi = i
		}
	}
	if pi < 0 {
		return
	}
	type upd struct {
		phi *ssa.Phi
		c   cell
	}
	var ups []upd
	for _, ins := range succ.Instrs {
		phi, ok := ins.(*ssa.Phi)
		if !ok {
			break
		}
		ups = append(ups, upd{phi, an.cellOf(e, f, phi.Edges[pi])})
	}
	for _, u := range ups {
		an.bind(e, f, u.phi, u.c)
		// interface-valued phis with a known dynamic type drive state partitioning
		if !u.c.int && u.c.t != nil {
			if _, isIface := u.phi.Type().Underlying().(*types.Interface); isIface {
				pt := an.tt.mk("phi", f.key+"|"+fmt.Sprintf("%p", u.phi), nil, nil, u.phi.Type(), u.phi.Comment)
				if d, ok := e.dyn[u.c.t]; ok {
					e.part[pt] = d.String()
				} else {
					delete(e.part, pt)
				}
			}
		}
	}
}

// groupJoin joins the states partition-wise (same partition key => one state).
func (an *Analyzer) groupJoin(sts []*State, at string) []*State {
	var out []*State
	for _, e := range sts {
		if e == nil || e.dead {
			continue
		}
		key := e.partKey()
		placed := false
		for i, p := range out {
			if p.partKey() == key {
				out[i] = an.joinStates(p, e, at)
				placed = true
				break
			}
		}
		if !placed {
			if len(out) >= maxPartitions {
				j := an.joinStates(out[0], e, at)
				j.part = map[*Term]string{}
				out[0] = j
				continue
			}
			out = append(out, e)
		}
	}
	return out
}

// accumulate joins the new entry states of a loop header with the previous ones (and widens).
func (an *Analyzer) accumulate(old, nw []*State, at string, widenNow bool) []*State {
	var out []*State
	used := make([]bool, len(old))
	for _, e := range nw {
		key := e.partKey()
		merged := false
		for i, p := range old {
			if p.partKey() == key {
				j := an.joinStates(p, e, at)
				if widenNow {
					an.widen(p, j)
				}
				out = append(out, j)
				used[i] = true
				merged = true
				break
			}
		}
		if !merged {
			out = append(out, e)
		}
	}
	for i, p := range old {
		if !used[i] {
			out = append(out, p)
		}
	}
	if len(out) > maxPartitions {
		j := out[0]
		for _, x := range out[1:] {
			j = an.joinStates(j, x, at)
		}
		j.part = map[*Term]string{}
		out = []*State{j}
	}
	return out
}

func sameParts(a, b []*State) bool {
	if len(a) != len(b) {
		return false
	}
	for i := range a {
		if !equalStates(a[i], b[i]) {
			return false
		}
	}
	return true
}

// mergeInto merges edge state e into the block's entry partitions; reports whether anything changed.
func (an *Analyzer) mergeInto(b *blockIn, e *State, at string, visits int) bool {
	key := e.partKey()
	for i, p := range b.parts {
		if p.partKey() != key {
			continue
		}
		j := an.joinStates(p, e, at)
		if visits >= widenAfter {
			an.widen(p, j)
		}
		if equalStates(j, p) {
			return false
		}
		b.parts[i] = j
		return true
	}
	if len(b.parts) >= maxPartitions {
		// too many partitions: fold into the first
		j := an.joinStates(b.parts[0], e, at)
		j.part = map[*Term]string{}
		if equalStates(j, b.parts[0]) {
			return false
		}
		b.parts[0] = j
		return true
	}
	b.parts = append(b.parts, e)
	return true
}

// widen: bounds that keep moving are dropped.
func (an *Analyzer) widen(old, n *State) {
	for t, v := range n.iv {
		o, ok := old.iv[t]
		if !ok {
			continue
		}
		if v.lo < o.lo {
			v.lo = typeLo(t)
		}
		if v.hi > o.hi {
			v.hi = typeHi(t)
		}
		n.iv[t] = v
	}
	for x, m := range n.ub {
		for y, c := range m {
			if oc, ok := old.ub[x][y]; ok && c > oc {
				n.delUB(x, y)
			}
		}
	}
}

func typeLo(t *Term) int64 {
	if t.kind == "len" || t.kind == "cap" {
		return 0
	}
	if t.typ != nil && isIntType(t.typ) {
		return typeRange(t.typ).lo
	}
	return -inf
}

func typeHi(t *Term) int64 {
	if t.typ != nil && isIntType(t.typ) {
		return typeRange(t.typ).hi
	}
	return inf
}

// ---- obligations ----

type verdict struct {
	kind, expr string
	fn         *ssa.Function
	ins        ssa.Instruction
	proved     bool
	why        string
	assumed    string
}

func (an *Analyzer) record(f *Frame, ins ssa.Instruction, kind, expr string, proved bool, why string, s *State) {
	k := fmt.Sprintf("%s|%p|%s|%s", f.key, ins, kind, expr)
	if !proved {
		why = why + " [context: " + ctxString(f) + "]"
	}
	an.verdicts[k] = &verdict{kind: kind, expr: expr, fn: f.fn, ins: ins, proved: proved, why: why}
}

func (an *Analyzer) recordAssumed(f *Frame, ins ssa.Instruction, kind, expr, reason string) {
	k := fmt.Sprintf("%s|%p|%s|%s", f.key, ins, kind, expr)
	an.verdicts[k] = &verdict{kind: kind, expr: expr, fn: f.fn, ins: ins, proved: true, assumed: reason}
}

func ctxString(f *Frame) string {
	var names []string
	for x := f; x != nil; x = x.parent {
		names = append([]string{x.fn.Name()}, names...)
	}
	return strings.Join(names, " > ")
}

func (an *Analyzer) oblNonNil(s *State, f *Frame, ins ssa.Instruction, t *Term, what string, final bool) {
	if t == nil {
		return
	}
	ok := s.nn[t] || t.kind == "alloc" || t.kind == "global" || t.kind == "addr" || t.kind == "func" || t.kind == "iface"
	if final {
		// addresses computed from non-nil bases are not separate obligations
		if t.kind == "alloc" || t.kind == "global" || t.kind == "addr" || t.kind == "func" {
			s.nn[t] = true
			return
		}
		why := what + ": " + t.String() + " is not known to be non-nil"
		if s.isnil[t] {
			why = what + ": " + t.String() + " is nil on this path"
		}
		an.record(f, ins, "K2", "nonnil("+instrExpr(ins)+")", ok, why, s)
	}
	s.setNonNil(t)
}

func instrExpr(ins ssa.Instruction) string {
	switch x := ins.(type) {
	case *ssa.FieldAddr:
		return exprOf(x.X)
	case *ssa.UnOp:
		return exprOf(x.X)
	case *ssa.Store:
		return exprOf(x.Addr)
	case *ssa.IndexAddr:
		return exprOf(x.X)
	case *ssa.Slice:
		return exprOf(x.X)
	case *ssa.MapUpdate:
		return exprOf(x.Map)
	case *ssa.Call:
		return exprOf(x.Common().Value)
	}
	return ins.String()
}

func (an *Analyzer) oblIndex(s *State, f *Frame, ins ssa.Instruction, idx, n Lin, expr string, final bool) {
	if !final {
		return
	}
	okLo := s.proveLE(Lin{nil, 0}, idx, 0)
	okHi := s.proveLE(idx, n, -1)
	why := ""
	if !okLo {
		why = fmt.Sprintf("index %s may be negative (known range %s)", idx, itv{s.lo(idx), s.hi(idx)})
	} else if !okHi {
		why = fmt.Sprintf("index %s (range %s) not shown below length %s (range %s)", idx, itv{s.lo(idx), s.hi(idx)}, n, itv{s.lo(n), s.hi(n)})
	}
	an.record(f, ins, "K1", expr, okLo && okHi, why, s)
}

func (an *Analyzer) oblMake(s *State, f *Frame, i *ssa.MakeSlice, l, cp Lin, final bool) {
	if !final {
		return
	}
	expr := "make(" + exprOf(i.Len)
	if i.Cap != i.Len {
		expr += "," + exprOf(i.Cap)
	}
	expr += ")"
	nonneg := s.proveLE(Lin{nil, 0}, l, 0) && s.proveLE(l, cp, 0)
	cfgOnly := an.cfg.ConfigField != nil && onlyConfig(i.Cap, an.cfg.ConfigField, 0)
	// K5: the size is a valid one (a negative size or len > cap panics)
	switch {
	case nonneg:
		an.record(f, i, "K5", expr, true, "", s)
	case cfgOnly:
		an.recordAssumed(f, i, "K5", expr, "size derives only from configuration options and constants (assumption A-config: option values are sane)")
	default:
		an.record(f, i, "K5", expr, false, fmt.Sprintf("length %s (range %s) may be negative or exceed capacity", l, itv{s.lo(l), s.hi(l)}), s)
	}
	// K12: the amount allocated is bounded by a constant or by the length of a buffer that already exists
	hi := s.hi(cp)
	switch {
	case hi <= an.cfg.AllocBound:
		an.record(f, i, "K12", expr, true, fmt.Sprintf("at most %d elements", hi), s)
	case cfgOnly:
		an.recordAssumed(f, i, "K12", expr, "size derives only from configuration options and constants (assumption A-config: option values are sane)")
	default:
		if bt, c, ok := an.existingLenBound(s, cp); ok {
			an.record(f, i, "K12", expr, true, fmt.Sprintf("at most %s + %d: proportional to a buffer that already exists", bt, c), s)
			return
		}
		an.record(f, i, "K12", expr, false, fmt.Sprintf("allocation size %s has no upper bound that is a constant or the length of an existing buffer (range %s): a length or count field taken from the datagram sizes the allocation", cp, itv{s.lo(cp), s.hi(cp)}), s)
	}
}

// existingLenBound: cp <= len(x) + c or cap(x) + c for a slice/string x that already exists.
func (an *Analyzer) existingLenBound(s *State, cp Lin) (*Term, int64, bool) {
	if cp.base != nil && (cp.base.kind == "len" || cp.base.kind == "cap") {
		return cp.base, cp.c, true
	}
	if cp.base == nil {
		return nil, 0, false
	}
	var best *Term
	var bc int64
	for y, c := range s.ub[cp.base] {
		if y != nil && (y.kind == "len" || y.kind == "cap") && (best == nil || y.key < best.key) {
			best, bc = y, c+cp.c
		}
	}
	return best, bc, best != nil
}

// onlyConfig: the value is computed from configuration fields and constants only.
func onlyConfig(v ssa.Value, isCfg func(types.Type, *types.Var) bool, d int) bool {
	if d > 6 {
		return false
	}
	switch x := v.(type) {
	case *ssa.Const:
		return true
	case *ssa.BinOp:
		return onlyConfig(x.X, isCfg, d+1) && onlyConfig(x.Y, isCfg, d+1)
	case *ssa.Convert:
		return onlyConfig(x.X, isCfg, d+1)
	case *ssa.UnOp:
		if o, f := fieldOfLoad(x); f != nil {
			return isCfg(o, f)
		}
	}
	return false
}

// ---- public API ----

// RootOpts describes how a root is entered.
type RootOpts struct {
	NonNilParams bool // A-nil: pointer parameters / receiver of the exported API are non-nil
}

// AnalyzeRoot analyses one root function with unconstrained arguments.
func (an *Analyzer) AnalyzeRoot(fn *ssa.Function, opts RootOpts) {
	f := an.frame(nil, nil, fn)
	st := newState()
	for _, p := range fn.Params {
		if isIntType(p.Type()) {
			continue
		}
		t := an.valTerm(f, p)
		st.vals[vkey{f, p}] = t
		if opts.NonNilParams {
			switch p.Type().Underlying().(type) {
			case *types.Pointer:
				st.nn[t] = true
			}
		}
	}
	for _, fv := range fn.FreeVars {
		t := an.valTerm(f, fv)
		st.vals[vkey{f, fv}] = t
		st.nn[t] = true
	}
	an.analyzeFunc(fn, f, st, true)
}

// Obligations aggregates the per-context verdicts per instruction.
func (an *Analyzer) Obligations() []*Obligation {
	agg := map[string]*Obligation{}
	var keys []string
	for k := range an.verdicts {
		keys = append(keys, k)
	}
	sort.Strings(keys)
	for _, k := range keys {
		v := an.verdicts[k]
		ok := fmt.Sprintf("%p|%s|%s", v.ins, v.kind, v.expr)
		o := agg[ok]
		if o == nil {
			o = &Obligation{Kind: v.kind, Fn: v.fn, Instr: v.ins, Expr: v.expr, Pos: v.ins.Pos()}
			agg[ok] = o
		}
		o.Contexts++
		if !v.proved || an.failAll {
			o.Failed++
			if o.Why == "" {
				o.Why = v.why
				if an.failAll && v.proved {
					o.Why = "analysis did not reach a fixpoint: no verdict"
				}
			}
		}
		if v.assumed != "" {
			o.Assumed = v.assumed
		}
	}
	var out []*Obligation
	for _, o := range agg {
		out = append(out, o)
	}
	sort.Slice(out, func(i, j int) bool {
		a, b := out[i], out[j]
		if a.Fn.String() != b.Fn.String() {
			return a.Fn.String() < b.Fn.String()
		}
		if a.Kind != b.Kind {
			return a.Kind < b.Kind
		}
		if a.Expr != b.Expr {
			return a.Expr < b.Expr
		}
		return a.Pos < b.Pos
	})
	return out
}

// Key is the stable construct key of an obligation: function, kind and normalised expression.
func (o *Obligation) Key(fnName func(*ssa.Function) string) string {
	return fmt.Sprintf("%s:%s:%s", fnName(o.Fn), o.Kind, strings.ReplaceAll(o.Expr, " ", ""))
}

// definedBefore: v is a parameter/free variable, or an instruction whose block strictly dominates b.
func definedBefore(v ssa.Value, b *ssa.BasicBlock) bool {
	switch x := v.(type) {
	case *ssa.Parameter, *ssa.FreeVar:
		return true
	case ssa.Instruction:
		db := x.Block()
		return db != nil && db != b && db.Dominates(b)
	}
	return false
}

func ptrOf(x interface{}) uint64 {
	var v uint64
	fmt.Sscanf(fmt.Sprintf("%p", x), "0x%x", &v)
	return v
}

// purgeLoopLocal removes from a loop-header entry state everything it says about terms that the loop body defines
// anew in every iteration (values of the body's instructions, objects it allocates, results and frames of the calls
// it makes, merge points inside it, memory versions it creates). What flows into the next iteration does so through
// the header's merge terms, whose facts the join has copied from the incoming values.
func (an *Analyzer) purgeLoopLocal(s *State, f *Frame, marks map[uint64]bool, blocks map[*ssa.BasicBlock]bool) {
	if len(marks) == 0 || s == nil {
		return
	}
	local := func(t *Term) bool { return t != nil && t.touches(marks) }
	for addr, c := range s.mem {
		if local(addr) || (!c.int && local(c.t)) || (c.int && local(c.lin.base)) {
			delete(s.mem, addr)
		}
	}
	for t := range s.iv {
		if local(t) {
			delete(s.iv, t)
		}
	}
	for x, m := range s.ub {
		for y := range m {
			if local(x) || local(y) {
				s.delUB(x, y)
			}
		}
	}
	for t := range s.nn {
		if local(t) {
			delete(s.nn, t)
		}
	}
	for t := range s.isnil {
		if local(t) {
			delete(s.isnil, t)
		}
	}
	for t := range s.dyn {
		if local(t) {
			delete(s.dyn, t)
		}
	}
	for t := range s.tbl {
		if local(t) {
			delete(s.tbl, t)
		}
	}
	for t := range s.part {
		if local(t) {
			delete(s.part, t)
		}
	}
	var gs []guard
	for _, g := range s.guards {
		if !local(g.on) {
			gs = append(gs, g)
		}
	}
	s.guards = gs
	for c, e := range s.epoch {
		_ = c
		_ = e
	}
	// SSA bindings of the body's own instructions and of the frames below it
	inLoop := func(k vkey) bool {
		if k.f == f {
			if ins, ok := k.v.(ssa.Instruction); ok && ins.Block() != nil && blocks[ins.Block()] {
				if _, isPhi := k.v.(*ssa.Phi); isPhi && ins.Block().Index == headerIndex(blocks) {
					return false
				}
				return true
			}
			return false
		}
		// deeper frames entered from a call in the loop
		for fr := k.f; fr != nil; fr = fr.parent {
			if fr.parent == f {
				for _, p := range hexTokens(fr.key[len(f.key):]) {
					if marks[p] {
						return true
					}
				}
				return false
			}
		}
		return false
	}
	for k := range s.vals {
		if inLoop(k) {
			delete(s.vals, k)
		}
	}
	for k := range s.ints {
		if inLoop(k) {
			delete(s.ints, k)
		}
	}
	for k := range s.tuples {
		if inLoop(k) {
			delete(s.tuples, k)
		}
	}
}

func headerIndex(blocks map[*ssa.BasicBlock]bool) int {
	// the header dominates all blocks of its loop: it has the smallest dominator depth; go/ssa numbers it first
	best := -1
	for b := range blocks {
		dom := true
		for o := range blocks {
			if !b.Dominates(o) {
				dom = false
				break
			}
		}
		if dom {
			best = b.Index
		}
	}
	return best
}
