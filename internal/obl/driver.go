package obl

import (
	"fmt"
	"go/token"
	"go/types"
	"sort"
	"strings"

	"golang.org/x/tools/go/ssa"
)

type blockIn struct {
	parts  []*State
	visits int
}

const maxPartitions = 4
const widenAfter = 3

// analyzeFunc runs the forward analysis of fn in frame f from state `in`; it returns one state per
// reachable return instruction.
func (an *Analyzer) analyzeFunc(fn *ssa.Function, f *Frame, in *State, final bool) []retState {
	if len(fn.Blocks) == 0 {
		return nil
	}
	an.stack = append(an.stack, fn)
	defer func() { an.stack = an.stack[:len(an.stack)-1] }()
	if final {
		an.Reached[fn]++
	}
	// table summary: pure switch functions of one integer parameter returning constants
	// (used by the caller through mergeReturns: result term gets tbl entry)
	ins := make([]*blockIn, len(fn.Blocks))
	for i := range ins {
		ins[i] = &blockIn{}
	}
	ins[0].parts = []*State{in}
	work := []*ssa.BasicBlock{fn.Blocks[0]}
	inWork := map[*ssa.BasicBlock]bool{fn.Blocks[0]: true}
	iter := 0
	for len(work) > 0 {
		iter++
		an.steps++
		if iter > 4000 || an.steps > 4000000 {
			an.Warnings = append(an.Warnings, "fixpoint bound reached in "+fn.String())
			break
		}
		// pick the block with the smallest index (approximates reverse post-order)
		bi := 0
		for i, b := range work {
			if b.Index < work[bi].Index {
				bi = i
			}
		}
		b := work[bi]
		work = append(work[:bi], work[bi+1:]...)
		inWork[b] = false
		bin := ins[b.Index]
		bin.visits++
		for _, st := range bin.parts {
			out := st.clone()
			for _, instr := range b.Instrs {
				if out.dead {
					break
				}
				an.step(out, f, instr, false)
			}
			if out.dead {
				continue
			}
			for si, succ := range b.Succs {
				e := out.clone()
				if ifi, ok := b.Instrs[len(b.Instrs)-1].(*ssa.If); ok {
					an.assumeCond(e, f, ifi.Cond, si == 0)
				}
				if e.dead {
					continue
				}
				an.applyPhis(e, f, b, succ)
				if an.mergeInto(ins[succ.Index], e, fmt.Sprintf("%s:b%d", f.key, succ.Index), ins[succ.Index].visits) {
					if !inWork[succ] {
						inWork[succ] = true
						work = append(work, succ)
					}
				}
			}
		}
	}
	var rets []retState
	if !final {
		// collect return states from the stable solution
		for _, b := range fn.Blocks {
			for _, st := range ins[b.Index].parts {
				if r, ok := b.Instrs[len(b.Instrs)-1].(*ssa.Return); ok {
					out := st.clone()
					for _, instr := range b.Instrs {
						if out.dead {
							break
						}
						an.step(out, f, instr, false)
					}
					if !out.dead {
						rets = append(rets, an.mkRet(out, f, r))
					}
				}
			}
		}
		return rets
	}
	// final pass: record obligations with the stable block-entry states
	for _, b := range fn.Blocks {
		for _, st := range ins[b.Index].parts {
			out := st.clone()
			for _, instr := range b.Instrs {
				if out.dead {
					break
				}
				an.step(out, f, instr, true)
			}
			if out.dead {
				continue
			}
			if r, ok := b.Instrs[len(b.Instrs)-1].(*ssa.Return); ok {
				rets = append(rets, an.mkRet(out, f, r))
			}
		}
	}
	return rets
}

func (an *Analyzer) mkRet(st *State, f *Frame, r *ssa.Return) retState {
	rs := retState{st: st, ret: r}
	for _, v := range r.Results {
		rs.results = append(rs.results, an.cellOf(st, f, v))
	}
	// table summaries: `return <const>` under comparisons of an integer parameter — attach to the constant's cell
	if len(r.Results) == 1 && isIntType(r.Results[0].Type()) {
		if ts := an.tableFor(st, f); ts != nil && rs.results[0].int {
			if rs.results[0].lin.base == nil {
				// give the constant a term so the table can be attached by the caller (mergeReturns copies via tbl)
				t := an.tt.mk("tblres", f.key, nil, nil, r.Results[0].Type(), "tbl")
				st.iv[t] = itv{rs.results[0].lin.c, rs.results[0].lin.c}
				st.tbl[t] = ts
				rs.results[0] = cell{int: true, lin: Lin{t, 0}}
			}
		}
	}
	return rs
}

func (an *Analyzer) tableFor(st *State, f *Frame) *tableSummary {
	if ts, ok := an.tables[f]; ok {
		return ts
	}
	ts := an.tableOf(f)
	if ts != nil {
		l := an.linOf(st, f, f.fn.Params[0])
		if l.base == nil || l.c != 0 {
			ts = nil
		} else {
			ts.arg = l.base
		}
	}
	an.tables[f] = ts
	return ts
}

// tableOf recognises functions whose control flow only compares one integer parameter with constants and
// whose returns are constants; it folds them into a table keyed by the argument's term.
func (an *Analyzer) tableOf(f *Frame) *tableSummary {
	fn := f.fn
	var param *ssa.Parameter
	for _, p := range fn.Params {
		if isIntType(p.Type()) {
			if param != nil {
				return nil
			}
			param = p
		}
	}
	if param == nil || len(fn.Params) != 1 {
		return nil
	}
	consts := map[int64]bool{}
	for _, b := range fn.Blocks {
		for _, ins := range b.Instrs {
			switch x := ins.(type) {
			case *ssa.BinOp:
				if x.X != ssa.Value(param) {
					return nil
				}
				c, ok := constInt(x.Y)
				if !ok || x.Op != token.EQL {
					return nil
				}
				consts[c] = true
			case *ssa.If, *ssa.Jump, *ssa.DebugRef:
			case *ssa.Return:
				if len(x.Results) != 1 {
					return nil
				}
				if _, ok := constInt(x.Results[0]); !ok {
					return nil
				}
			default:
				return nil
			}
		}
	}
	ts := &tableSummary{table: map[int64]int64{}}
	eval := func(v int64) (int64, bool) {
		b := fn.Blocks[0]
		for steps := 0; steps < 1000; steps++ {
			switch t := b.Instrs[len(b.Instrs)-1].(type) {
			case *ssa.Return:
				c, _ := constInt(t.Results[0])
				return c, true
			case *ssa.Jump:
				b = b.Succs[0]
			case *ssa.If:
				be := t.Cond.(*ssa.BinOp)
				c, _ := constInt(be.Y)
				if v == c {
					b = b.Succs[0]
				} else {
					b = b.Succs[1]
				}
			default:
				return 0, false
			}
		}
		return 0, false
	}
	for c := range consts {
		if r, ok := eval(c); ok {
			ts.table[c] = r
		}
	}
	// default: a value different from all constants
	d := int64(1 << 40)
	if r, ok := eval(d); ok {
		ts.dflt, ts.has = r, true
	}
	return ts
}

// applyPhis evaluates the phis of succ for the edge pred->succ (on a private copy of the state).
func (an *Analyzer) applyPhis(e *State, f *Frame, pred, succ *ssa.BasicBlock) {
	pi := -1
	for i, p := range succ.Preds {
		if p == pred {
			pi = i
		}
	}
	if pi < 0 {
		return
	}
	type upd struct {
		phi *ssa.Phi
		c   cell
	}
	var ups []upd
	for _, ins := range succ.Instrs {
		phi, ok := ins.(*ssa.Phi)
		if !ok {
			break
		}
		ups = append(ups, upd{phi, an.cellOf(e, f, phi.Edges[pi])})
	}
	for _, u := range ups {
		an.bind(e, f, u.phi, u.c)
		// interface-valued phis with a known dynamic type drive state partitioning
		if !u.c.int && u.c.t != nil {
			if _, isIface := u.phi.Type().Underlying().(*types.Interface); isIface {
				pt := an.tt.mk("phi", f.key+"|"+fmt.Sprintf("%p", u.phi), nil, nil, u.phi.Type(), u.phi.Comment)
				if d, ok := e.dyn[u.c.t]; ok {
					e.part[pt] = d.String()
				} else {
					delete(e.part, pt)
				}
			}
		}
	}
}

// mergeInto merges edge state e into the block's entry partitions; reports whether anything changed.
func (an *Analyzer) mergeInto(b *blockIn, e *State, at string, visits int) bool {
	key := e.partKey()
	for i, p := range b.parts {
		if p.partKey() != key {
			continue
		}
		j := an.joinStates(p, e, at)
		if visits >= widenAfter {
			an.widen(p, j)
		}
		if equalStates(j, p) {
			return false
		}
		b.parts[i] = j
		return true
	}
	if len(b.parts) >= maxPartitions {
		// too many partitions: fold into the first
		j := an.joinStates(b.parts[0], e, at)
		j.part = map[*Term]string{}
		if equalStates(j, b.parts[0]) {
			return false
		}
		b.parts[0] = j
		return true
	}
	b.parts = append(b.parts, e)
	return true
}

// widen: bounds that keep moving are dropped.
func (an *Analyzer) widen(old, n *State) {
	for t, v := range n.iv {
		o, ok := old.iv[t]
		if !ok {
			continue
		}
		if v.lo < o.lo {
			v.lo = typeLo(t)
		}
		if v.hi > o.hi {
			v.hi = typeHi(t)
		}
		n.iv[t] = v
	}
	for x, m := range n.ub {
		for y, c := range m {
			if oc, ok := old.ub[x][y]; ok && c > oc {
				delete(m, y)
			}
		}
	}
}

func typeLo(t *Term) int64 {
	if t.kind == "len" || t.kind == "cap" {
		return 0
	}
	if t.typ != nil && isIntType(t.typ) {
		return typeRange(t.typ).lo
	}
	return -inf
}

func typeHi(t *Term) int64 {
	if t.typ != nil && isIntType(t.typ) {
		return typeRange(t.typ).hi
	}
	return inf
}

// ---- obligations ----

func (an *Analyzer) ob(f *Frame, ins ssa.Instruction, kind, expr string) *Obligation {
	m := an.obls[ins]
	if m == nil {
		m = map[string]*Obligation{}
		an.obls[ins] = m
	}
	o := m[kind+expr]
	if o == nil {
		o = &Obligation{Kind: kind, Fn: f.fn, Instr: ins, Expr: expr, Pos: ins.Pos()}
		m[kind+expr] = o
	}
	return o
}

func (an *Analyzer) record(f *Frame, ins ssa.Instruction, kind, expr string, proved bool, why string, s *State) {
	o := an.ob(f, ins, kind, expr)
	o.Contexts++
	if !proved {
		o.Failed++
		if o.Why == "" {
			o.Why = why + " [context: " + ctxString(f) + "]"
		}
	}
}

func (an *Analyzer) recordAssumed(f *Frame, ins ssa.Instruction, kind, expr, reason string) {
	o := an.ob(f, ins, kind, expr)
	o.Contexts++
	o.Assumed = reason
}

func ctxString(f *Frame) string {
	var names []string
	for x := f; x != nil; x = x.parent {
		names = append([]string{x.fn.Name()}, names...)
	}
	return strings.Join(names, " > ")
}

func (an *Analyzer) oblNonNil(s *State, f *Frame, ins ssa.Instruction, t *Term, what string, final bool) {
	if t == nil {
		return
	}
	ok := s.nn[t] || t.kind == "alloc" || t.kind == "global" || t.kind == "addr" || t.kind == "func" || t.kind == "iface"
	if final {
		// addresses computed from non-nil bases are not separate obligations
		if t.kind == "alloc" || t.kind == "global" || t.kind == "addr" || t.kind == "func" {
			s.nn[t] = true
			return
		}
		why := what + ": " + t.String() + " is not known to be non-nil"
		if s.isnil[t] {
			why = what + ": " + t.String() + " is nil on this path"
		}
		an.record(f, ins, "K2", "nonnil("+instrExpr(ins)+")", ok, why, s)
	}
	s.setNonNil(t)
}

func instrExpr(ins ssa.Instruction) string {
	switch x := ins.(type) {
	case *ssa.FieldAddr:
		return exprOf(x.X)
	case *ssa.UnOp:
		return exprOf(x.X)
	case *ssa.Store:
		return exprOf(x.Addr)
	case *ssa.IndexAddr:
		return exprOf(x.X)
	case *ssa.Slice:
		return exprOf(x.X)
	case *ssa.MapUpdate:
		return exprOf(x.Map)
	case *ssa.Call:
		return exprOf(x.Common().Value)
	}
	return ins.String()
}

func (an *Analyzer) oblIndex(s *State, f *Frame, ins ssa.Instruction, idx, n Lin, expr string, final bool) {
	if !final {
		return
	}
	okLo := s.proveLE(Lin{nil, 0}, idx, 0)
	okHi := s.proveLE(idx, n, -1)
	why := ""
	if !okLo {
		why = fmt.Sprintf("index %s may be negative (known range %s)", idx, itv{s.lo(idx), s.hi(idx)})
	} else if !okHi {
		why = fmt.Sprintf("index %s (range %s) not shown below length %s (range %s)", idx, itv{s.lo(idx), s.hi(idx)}, n, itv{s.lo(n), s.hi(n)})
	}
	an.record(f, ins, "K1", expr, okLo && okHi, why, s)
}

func (an *Analyzer) oblMake(s *State, f *Frame, i *ssa.MakeSlice, l, cp Lin, final bool) {
	if !final {
		return
	}
	expr := "make(" + exprOf(i.Len)
	if i.Cap != i.Len {
		expr += "," + exprOf(i.Cap)
	}
	expr += ")"
	nonneg := s.proveLE(Lin{nil, 0}, l, 0) && s.proveLE(l, cp, 0)
	bounded := s.hi(cp) <= an.cfg.AllocBound
	why := ""
	switch {
	case !nonneg:
		why = fmt.Sprintf("length %s (range %s) may be negative or exceed capacity", l, itv{s.lo(l), s.hi(l)})
	case !bounded:
		why = fmt.Sprintf("allocation size %s has no constant upper bound (range %s): a length field taken from the datagram sizes the allocation", cp, itv{s.lo(cp), s.hi(cp)})
	}
	if !bounded && nonneg && an.cfg.ConfigField != nil && onlyConfig(i.Cap, an.cfg.ConfigField, 0) {
		an.recordAssumed(f, i, "K5", expr, "size derives only from configuration options and constants (assumption A-config: option values are sane)")
		return
	}
	if !nonneg && an.cfg.ConfigField != nil && onlyConfig(i.Cap, an.cfg.ConfigField, 0) {
		an.recordAssumed(f, i, "K5", expr, "size derives only from configuration options and constants (assumption A-config: option values are sane)")
		return
	}
	an.record(f, i, "K5", expr, nonneg && bounded, why, s)
}

// onlyConfig: the value is computed from configuration fields and constants only.
func onlyConfig(v ssa.Value, isCfg func(types.Type, *types.Var) bool, d int) bool {
	if d > 6 {
		return false
	}
	switch x := v.(type) {
	case *ssa.Const:
		return true
	case *ssa.BinOp:
		return onlyConfig(x.X, isCfg, d+1) && onlyConfig(x.Y, isCfg, d+1)
	case *ssa.Convert:
		return onlyConfig(x.X, isCfg, d+1)
	case *ssa.UnOp:
		if o, f := fieldOfLoad(x); f != nil {
			return isCfg(o, f)
		}
	}
	return false
}

// ---- public API ----

// RootOpts describes how a root is entered.
type RootOpts struct {
	NonNilParams bool // A-nil: pointer parameters / receiver of the exported API are non-nil
}

// AnalyzeRoot analyses one root function with unconstrained arguments.
func (an *Analyzer) AnalyzeRoot(fn *ssa.Function, opts RootOpts) {
	f := an.frame(nil, nil, fn)
	st := newState()
	for _, p := range fn.Params {
		if isIntType(p.Type()) {
			continue
		}
		t := an.valTerm(f, p)
		st.vals[vkey{f, p}] = t
		if opts.NonNilParams {
			switch p.Type().Underlying().(type) {
			case *types.Pointer:
				st.nn[t] = true
			}
		}
	}
	for _, fv := range fn.FreeVars {
		t := an.valTerm(f, fv)
		st.vals[vkey{f, fv}] = t
		st.nn[t] = true
	}
	an.analyzeFunc(fn, f, st, true)
}

// Obligations returns all recorded obligations, sorted.
func (an *Analyzer) Obligations() []*Obligation {
	var out []*Obligation
	for _, m := range an.obls {
		for _, o := range m {
			out = append(out, o)
		}
	}
	sort.Slice(out, func(i, j int) bool {
		a, b := out[i], out[j]
		if a.Fn.String() != b.Fn.String() {
			return a.Fn.String() < b.Fn.String()
		}
		if a.Kind != b.Kind {
			return a.Kind < b.Kind
		}
		if a.Expr != b.Expr {
			return a.Expr < b.Expr
		}
		return a.Pos < b.Pos
	})
	return out
}

// Key is the stable construct key of an obligation: function, kind and normalised expression.
func (o *Obligation) Key(fnName func(*ssa.Function) string) string {
	return fmt.Sprintf("%s:%s:%s", fnName(o.Fn), o.Kind, strings.ReplaceAll(o.Expr, " ", ""))
}
