// Package obl enumerates the panic-capable instructions reachable from a set of root functions and
// discharges their safety conditions by abstract interpretation over go/ssa: intervals and difference
// bounds on integer terms, nil-ness and dynamic types on reference terms, and a memory model in which
// two loads of one location are equal while nothing may have written its alias class. Repository
// callees are analysed inline in the caller's abstract state (context-sensitive); error-returning
// callees additionally yield conditional summaries selected by the caller's `err == nil` test.
// Nothing is executed.
package obl

import (
	"fmt"
	"go/types"

	"golang.org/x/tools/go/ssa"
)

const inf = int64(1) << 60

// Frame identifies one inlined invocation: the chain of call sites from the root. Values of a callee
// are keyed by (frame, ssa.Value) so that two invocations never share facts.
type Frame struct {
	key    string
	fn     *ssa.Function
	parent *Frame
	depth  int
}

// Term is a hash-consed symbolic value.
type Term struct {
	id   int
	key  string
	kind string // "val", "len", "add", "addr", "init", "fld", "phi", "ret", "mphi", "misc"
	a, b *Term
	typ  types.Type
	show string
	ptrs []uint64 // instruction/block addresses embedded in the key (definition sites this term's meaning depends on)
}

func (t *Term) String() string {
	if t == nil {
		return "<nil>"
	}
	if t.show != "" {
		return t.show
	}
	return t.key
}

// Lin is base + c (base may be nil: a constant).
type Lin struct {
	base *Term
	c    int64
}

func (l Lin) String() string {
	if l.base == nil {
		return fmt.Sprint(l.c)
	}
	if l.c == 0 {
		return l.base.String()
	}
	return fmt.Sprintf("%s%+d", l.base, l.c)
}

func (l Lin) isConst() bool { return l.base == nil }

type itv struct{ lo, hi int64 }

func (i itv) String() string {
	lo, hi := fmt.Sprint(i.lo), fmt.Sprint(i.hi)
	if i.lo <= -inf {
		lo = "-inf"
	}
	if i.hi >= inf {
		hi = "+inf"
	}
	return "[" + lo + "," + hi + "]"
}

type termTable struct {
	byKey map[string]*Term
	n     int
}

func newTermTable() *termTable { return &termTable{byKey: map[string]*Term{}} }

func (tt *termTable) mk(kind, key string, a, b *Term, typ types.Type, show string) *Term {
	k := kind + "|" + key
	if t, ok := tt.byKey[k]; ok {
		return t
	}
	tt.n++
	t := &Term{id: tt.n, key: k, kind: kind, a: a, b: b, typ: typ, show: show, ptrs: hexTokens(k)}
	tt.byKey[k] = t
	return t
}

// hexTokens extracts the 0x... addresses embedded in a term key (sorted, unique).
func hexTokens(k string) []uint64 {
	var out []uint64
	for i := 0; i+2 < len(k); i++ {
		if k[i] != '0' || k[i+1] != 'x' {
			continue
		}
		j := i + 2
		var v uint64
		for j < len(k) {
			c := k[j]
			var d uint64
			switch {
			case c >= '0' && c <= '9':
				d = uint64(c - '0')
			case c >= 'a' && c <= 'f':
				d = uint64(c-'a') + 10
			default:
				d = 16
			}
			if d == 16 {
				break
			}
			v = v<<4 | d
			j++
		}
		if j > i+2 {
			dup := false
			for _, o := range out {
				if o == v {
					dup = true
				}
			}
			if !dup {
				out = append(out, v)
			}
		}
		i = j
	}
	return out
}

// touches: the term's key embeds one of the given addresses.
func (t *Term) touches(set map[uint64]bool) bool {
	if t == nil {
		return false
	}
	for _, p := range t.ptrs {
		if set[p] {
			return true
		}
	}
	return false
}

type vkey struct {
	f *Frame
	v ssa.Value
}

func min64(a, b int64) int64 {
	if a < b {
		return a
	}
	return b
}
func max64(a, b int64) int64 {
	if a > b {
		return a
	}
	return b
}

func addSat(a, b int64) int64 {
	if a >= inf || b >= inf {
		if a <= -inf || b <= -inf {
			return 0
		}
		return inf
	}
	if a <= -inf || b <= -inf {
		return -inf
	}
	s := a + b
	if s >= inf {
		return inf
	}
	if s <= -inf {
		return -inf
	}
	return s
}

func isIntType(t types.Type) bool {
	b, ok := t.Underlying().(*types.Basic)
	return ok && b.Info()&types.IsInteger != 0
}

func isUnsigned(t types.Type) bool {
	b, ok := t.Underlying().(*types.Basic)
	return ok && b.Info()&types.IsUnsigned != 0
}

// bitsOfInt returns the width of an integer type (int/uint/uintptr = 64: assumption A-int).
func bitsOfInt(t types.Type) int {
	b, ok := t.Underlying().(*types.Basic)
	if !ok {
		return 64
	}
	switch b.Kind() {
	case types.Int8, types.Uint8:
		return 8
	case types.Int16, types.Uint16:
		return 16
	case types.Int32, types.Uint32:
		return 32
	}
	return 64
}

// typeRange returns the value range of an integer type, clipped to ±inf.
func typeRange(t types.Type) itv {
	n := bitsOfInt(t)
	if isUnsigned(t) {
		if n >= 60 {
			return itv{0, inf}
		}
		return itv{0, (int64(1) << uint(n)) - 1}
	}
	if n >= 60 {
		return itv{-inf, inf}
	}
	return itv{-(int64(1) << uint(n-1)), (int64(1) << uint(n-1)) - 1}
}
