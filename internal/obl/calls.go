package obl

import (
	"fmt"
	"go/token"
	"go/types"
	"os"
	"strings"

	"golang.org/x/tools/go/ssa"
)

// effect classes of non-repository callees
const (
	effPure      = iota // reads only (or writes only its own receiver outside repo memory)
	effElems            // writes elements / pointed-to scalars of its pointer and slice arguments; slice headers survive
	effReachable        // may rewrite everything reachable from its pointer arguments
)

// purePkgs: packages whose functions never write memory of the repository's objects passed to them,
// except as listed in effTable.
var purePkgs = map[string]bool{"strconv": true, "fmt": true, "errors": true, "math": true, "math/bits": true, "net": true, "encoding/hex": true, "strings": true, "bytes": true,
	"time": true, "log": true, "hash/fnv": true, "hash": true, "sort": true, "unicode/utf8": true, "os": true, "path": true, "runtime": true, "sync": true, "unicode": true,
	"encoding/base64": true, "io/ioutil": true, "path/filepath": true, "syscall": true, "context": true, "reflect": true, "os/signal": true, "net/http": true}

var effTable = map[string]int{
	"encoding/binary.Read": effElems, "copy": effElems, "(*bytes.Reader).Read": effElems, "io.ReadFull": effElems, "io.ReadAtLeast": effElems,
	"(encoding/binary.bigEndian).PutUint16": effElems, "(encoding/binary.bigEndian).PutUint32": effElems, "(encoding/binary.bigEndian).PutUint64": effElems,
	"(*net.UDPConn).ReadFromUDP": effElems, "(*net.UDPConn).ReadFrom": effElems, "(*net.UDPConn).Read": effElems,
	"encoding/json.Unmarshal": effReachable, "gopkg.in/yaml.v2.Unmarshal": effReachable, "(*net/rpc.Client).Call": effReachable, "(*encoding/json.Decoder).Decode": effReachable,
	"encoding/json.Marshal": effPure, "encoding/json.MarshalIndent": effPure,
	"sync/atomic.AddUint64": effElems, "sync/atomic.AddInt32": effElems, "sync/atomic.AddInt64": effElems, "sync/atomic.AddUint32": effElems, "sync/atomic.StoreUint64": effElems, "sync/atomic.StoreInt32": effElems,
	"sync/atomic.LoadUint64": effPure, "sync/atomic.LoadInt32": effPure,
	"(encoding/binary.bigEndian).Uint16": effPure, "(encoding/binary.bigEndian).Uint32": effPure, "(encoding/binary.bigEndian).Uint64": effPure,
	"(encoding/binary.littleEndian).Uint16": effPure, "(encoding/binary.littleEndian).Uint32": effPure, "(encoding/binary.littleEndian).Uint64": effPure,
}

// preconditions of non-repository callees: minimal length of a slice argument
var lenPre = map[string][2]int{ // callee -> {arg index, min len}
	"(encoding/binary.bigEndian).Uint16": {1, 2}, "(encoding/binary.bigEndian).Uint32": {1, 4}, "(encoding/binary.bigEndian).Uint64": {1, 8},
	"(encoding/binary.bigEndian).PutUint16": {1, 2}, "(encoding/binary.bigEndian).PutUint32": {1, 4}, "(encoding/binary.bigEndian).PutUint64": {1, 8},
	"(encoding/binary.littleEndian).Uint16": {1, 2}, "(encoding/binary.littleEndian).Uint32": {1, 4}, "(encoding/binary.littleEndian).Uint64": {1, 8},
}

var exitFuncs = map[string]bool{"os.Exit": true, "log.Fatal": true, "log.Fatalf": true, "log.Fatalln": true, "log.Panic": true, "log.Panicf": true, "log.Panicln": true,
	"(*log.Logger).Fatal": true, "(*log.Logger).Fatalf": true, "(*log.Logger).Fatalln": true, "(*log.Logger).Panic": true, "(*log.Logger).Panicf": true, "(*log.Logger).Panicln": true,
	"runtime.Goexit": true, "syscall.Exit": true}

func (an *Analyzer) stepCall(s *State, f *Frame, call *ssa.Call, final bool) {
	com := call.Common()
	if b, ok := com.Value.(*ssa.Builtin); ok {
		an.stepBuiltin(s, f, call, b, final)
		return
	}
	// interface invocation: receiver must be non-nil
	var targets []*ssa.Function
	name := ""
	if com.IsInvoke() {
		recv := an.refOf(s, f, com.Value)
		an.oblNonNil(s, f, call, recv, "method call on interface "+exprOf(com.Value), final)
		name = com.Method.FullName()
		if dt, ok := s.dyn[recv]; ok {
			// known dynamic type: unique target
			if an.cfg.Resolve != nil {
				for _, t := range an.cfg.Resolve(call) {
					if rt := t.Signature.Recv(); rt != nil && (types.Identical(rt.Type(), dt) || types.Identical(rt.Type(), types.NewPointer(dt))) {
						targets = []*ssa.Function{t}
					}
					if rt := t.Signature.Recv(); rt != nil {
						if p, ok := dt.(*types.Pointer); ok && types.Identical(rt.Type(), p.Elem()) {
							targets = []*ssa.Function{t}
						}
					}
				}
			}
		} else if an.cfg.Resolve != nil {
			targets = an.cfg.Resolve(call)
		}
	} else if sc := com.StaticCallee(); sc != nil {
		name = sc.String()
		if an.cfg.IsRepo(sc) {
			targets = []*ssa.Function{sc}
		}
	} else {
		// call of a function value
		fv := an.refOf(s, f, com.Value)
		an.oblNonNil(s, f, call, fv, "call of function value "+exprOf(com.Value), final)
		if mc, ok := com.Value.(*ssa.MakeClosure); ok {
			targets = []*ssa.Function{mc.Fn.(*ssa.Function)}
		}
		name = "func-value:" + exprOf(com.Value)
	}
	if final && exitFuncs[name] {
		an.record(f, call, "K6", name, s.dead, "call terminates the process", s)
	}
	if len(targets) > 0 {
		an.callRepo(s, f, call, targets, final)
		return
	}
	an.callExternal(s, f, call, name, final)
}

func (an *Analyzer) stepBuiltin(s *State, f *Frame, call *ssa.Call, b *ssa.Builtin, final bool) {
	args := call.Common().Args
	switch b.Name() {
	case "len":
		if _, isMap := args[0].Type().Underlying().(*types.Map); isMap {
			t := an.valTerm(f, call)
			s.ints[vkey{f, call}] = Lin{t, 0}
			s.iv[t] = itv{0, inf}
			return
		}
		if _, isChan := args[0].Type().Underlying().(*types.Chan); isChan {
			t := an.valTerm(f, call)
			s.ints[vkey{f, call}] = Lin{t, 0}
			s.iv[t] = itv{0, inf}
			return
		}
		if p, ok := args[0].Type().Underlying().(*types.Pointer); ok {
			if arr, ok := p.Elem().Underlying().(*types.Array); ok {
				s.ints[vkey{f, call}] = Lin{nil, arr.Len()}
				return
			}
		}
		base := an.refOf(s, f, args[0])
		lt := an.lenTerm(base)
		if iv, ok := s.iv[lt]; ok && iv.lo == iv.hi {
			s.ints[vkey{f, call}] = Lin{nil, iv.lo}
		} else {
			s.ints[vkey{f, call}] = Lin{lt, 0}
		}
	case "cap":
		base := an.refOf(s, f, args[0])
		s.ints[vkey{f, call}] = Lin{an.capTerm(base), 0}
		s.addUB(an.lenTerm(base), an.capTerm(base), 0)
	case "append":
		t := an.valTerm(f, call)
		s.vals[vkey{f, call}] = t
		a0 := an.refOf(s, f, args[0])
		l0 := Lin{an.lenTerm(a0), 0}
		if iv, ok := s.iv[l0.base]; ok && iv.lo == iv.hi {
			l0 = Lin{nil, iv.lo}
		}
		lt := an.lenTerm(t)
		if len(args) > 1 {
			a1 := an.refOf(s, f, args[1])
			l1 := Lin{an.lenTerm(a1), 0}
			if iv, ok := s.iv[l1.base]; ok && iv.lo == iv.hi {
				l1 = Lin{nil, iv.lo}
			}
			switch {
			case l0.base == nil && l1.base == nil:
				s.iv[lt] = itv{l0.c + l1.c, l0.c + l1.c}
			case l0.base == nil:
				an.eqLin(s, lt, Lin{l1.base, l1.c + l0.c})
			case l1.base == nil:
				an.eqLin(s, lt, Lin{l0.base, l0.c + l1.c})
			default:
				s.iv[lt] = itv{addSat(s.lo(l0), s.lo(l1)), inf}
				s.addUB(l0.base, lt, 0)
				s.addUB(l1.base, lt, 0)
			}
			if s.lo(Lin{lt, 0}) > 0 {
				s.nn[t] = true
			}
			if trace {
				fmt.Fprintf(os.Stderr, "   append in %s: a0=%s len0=%v(%v) l1=%v -> %v\n", f.fn.Name(), a0, l0, s.getIv(an.lenTerm(a0)), l1, s.getIv(lt))
			}
		}
		// append may write into the backing array of its first argument
		if sl, ok := args[0].Type().Underlying().(*types.Slice); ok {
			an.kill(s, "E:"+sl.Elem().String(), fmt.Sprintf("append:%p@%s", call, f.key))
		}
	case "copy":
		if sl, ok := args[0].Type().Underlying().(*types.Slice); ok {
			an.kill(s, "E:"+sl.Elem().String(), fmt.Sprintf("copy:%p@%s", call, f.key))
		}
		t := an.valTerm(f, call)
		s.ints[vkey{f, call}] = Lin{t, 0}
		s.iv[t] = itv{0, inf}
	case "delete", "close", "print", "println", "recover", "panic", "clear", "min", "max":
		if v := ssa.Value(call); v.Type() != nil {
			an.fresh(s, f, call)
		}
		s.guards = nil
	default:
		an.fresh(s, f, call)
	}
}

func (an *Analyzer) callExternal(s *State, f *Frame, call *ssa.Call, name string, final bool) {
	com := call.Common()
	an.Externs[name]++
	if final {
		if pre, ok := lenPre[name]; ok && pre[0] < len(com.Args) {
			base := an.refOf(s, f, com.Args[pre[0]])
			ok := s.proveLE(Lin{nil, int64(pre[1])}, Lin{an.lenTerm(base), 0}, 0)
			an.record(f, call, "K7", fmt.Sprintf("%s(%s)", shortName(name), exprOf(com.Args[pre[0]])), ok, fmt.Sprintf("need len(%s) >= %d", exprOf(com.Args[pre[0]]), pre[1]), s)
		}
	}
	if pre, ok := lenPre[name]; ok && pre[0] < len(com.Args) {
		base := an.refOf(s, f, com.Args[pre[0]])
		s.meetIv(an.lenTerm(base), int64(pre[1]), inf)
	}
	eff, known := effTable[name]
	if !known {
		pkg := ""
		if sc := com.StaticCallee(); sc != nil && sc.Pkg != nil {
			pkg = sc.Pkg.Pkg.Path()
		} else if com.IsInvoke() && com.Method.Pkg() != nil {
			pkg = com.Method.Pkg().Path()
		}
		switch {
		case purePkgs[pkg]:
			eff = effPure
		case com.IsInvoke() && (com.Method.Name() == "Read" || com.Method.Name() == "ReadAt"):
			eff = effElems
		case com.IsInvoke() && (com.Method.Name() == "Seek" || com.Method.Name() == "Error" || com.Method.Name() == "String" || com.Method.Name() == "Write" || com.Method.Name() == "Close"):
			eff = effPure
		default:
			eff = effReachable
			an.Unknown[name]++
		}
	}
	by := fmt.Sprintf("ext:%p@%s", call, f.key)
	if eff != effPure {
		for _, a := range com.Args {
			switch a.Type().Underlying().(type) {
			case *types.Pointer, *types.Slice, *types.Interface, *types.Map:
				t := an.refOf(s, f, a)
				if b, ok := an.unbox(s, t); ok && !b.int {
					an.killReachable(s, b.t, by, eff == effElems, 0)
					// a pointer to a local scalar: its content is rewritten
					if b.t != nil && (b.t.kind == "alloc" || b.t.kind == "addr") {
						if c, bound := s.mem[b.t]; bound {
							if c.int || !isSliceTerm(c) || eff == effReachable {
								an.kill(s, addrClass(b.t), by)
							} else if c.t != nil {
								an.killReachable(s, c.t, by, true, 0)
							}
						} else {
							an.kill(s, addrClass(b.t), by)
						}
					}
					continue
				}
				an.killReachable(s, t, by, eff == effElems, 0)
				if eff == effElems {
					if t.kind == "alloc" || t.kind == "addr" {
						// pointer to a scalar or array: rewritten
						if p, ok := a.Type().Underlying().(*types.Pointer); ok {
							if _, isSl := p.Elem().Underlying().(*types.Slice); !isSl {
								an.kill(s, addrClass(t), by)
							}
						}
					}
				}
			}
		}
		s.guards = nil
	}
	an.fresh(s, f, call)
	// results of constructors are non-nil
	switch name {
	case "errors.New", "fmt.Errorf", "bytes.NewReader", "bytes.NewBuffer", "bytes.NewBufferString", "time.NewTimer", "time.NewTicker", "hash/fnv.New32", "hash/fnv.New32a", "hash/fnv.New64":
		t := an.valTerm(f, call)
		s.vals[vkey{f, call}] = t
		s.nn[t] = true
	case "(net.IP).To4":
		t := an.valTerm(f, call)
		s.vals[vkey{f, call}] = t
		s.iv[an.lenTerm(t)] = itv{0, 4}
	case "(net.IP).To16":
		t := an.valTerm(f, call)
		s.vals[vkey{f, call}] = t
		s.iv[an.lenTerm(t)] = itv{0, 16}
	}
}

func isSliceTerm(c cell) bool {
	if c.int || c.t == nil || c.t.typ == nil {
		return false
	}
	_, ok := c.t.typ.Underlying().(*types.Slice)
	return ok
}

func shortName(n string) string {
	n = strings.ReplaceAll(n, "(encoding/binary.bigEndian).", "BigEndian.")
	return n
}

// callRepo analyses the targets inline and merges their return states.
func (an *Analyzer) callRepo(s *State, f *Frame, call *ssa.Call, targets []*ssa.Function, final bool) {
	com := call.Common()
	var rets []retState
	// what the callees can reach: their arguments (and globals); the rest of the caller's knowledge is set aside
	var roots []cell
	for _, a := range com.Args {
		roots = append(roots, an.cellOf(s, f, a))
	}
	if com.IsInvoke() {
		recv := an.refOf(s, f, com.Value)
		roots = append(roots, cell{t: recv})
		if b, ok := an.unbox(s, recv); ok {
			roots = append(roots, b)
		}
	}
	if mc, ok := com.Value.(*ssa.MakeClosure); ok {
		for _, b := range mc.Bindings {
			roots = append(roots, an.cellOf(s, f, b))
		}
	}
	base, rest := an.splitForCallee(s, roots)
	for _, tgt := range targets {
		// recursion / depth
		rec := false
		for _, g := range an.stack {
			if g == tgt {
				rec = true
			}
		}
		if rec || f.depth >= an.cfg.MaxDepth {
			if final {
				why := "call chain deeper than the inlining bound"
				if rec {
					why = "recursive call: stack depth not bounded by the analysis"
				}
				an.record(f, call, "K11", "call:"+tgt.Name(), false, why, s)
			}
			an.callExternalHavoc(s, f, call)
			return
		}
		nf := an.frame(f, call, tgt)
		st := base.clone()
		// bind parameters
		args := com.Args
		params := tgt.Params
		if com.IsInvoke() {
			// receiver: the boxed value
			recv := an.refOf(s, f, com.Value)
			if len(params) > 0 {
				if b, ok := an.unbox(s, recv); ok {
					an.bind(st, nf, params[0], b)
				} else {
					t := an.valTerm(nf, params[0])
					st.vals[vkey{nf, params[0]}] = t
					if _, isPtr := params[0].Type().Underlying().(*types.Pointer); isPtr {
						st.nn[t] = true
					}
				}
				params = params[1:]
			}
		}
		for i, p := range params {
			if i < len(args) {
				an.bind(st, nf, p, an.cellOf(s, f, args[i]))
			}
		}
		// closures: free variables are the bindings captured at MakeClosure
		if mc, ok := com.Value.(*ssa.MakeClosure); ok {
			for i, fv := range tgt.FreeVars {
				if i < len(mc.Bindings) {
					an.bind(st, nf, fv, an.cellOf(s, f, mc.Bindings[i]))
				}
			}
		}
		an.callerRoots = append(an.callerRoots, s)
		rs := an.analyzeFunc(tgt, nf, st, final)
		an.callerRoots = an.callerRoots[:len(an.callerRoots)-1]
		rets = append(rets, rs...)
	}
	if len(rets) == 0 {
		// callee never returns (all paths panic/exit)
		s.dead = true
		an.fresh(s, f, call)
		return
	}
	an.mergeReturns(s, f, call, rets)
	s.reattach(rest)
}

func (an *Analyzer) callExternalHavoc(s *State, f *Frame, call *ssa.Call) {
	by := fmt.Sprintf("havoc:%p@%s", call, f.key)
	for c := range s.epoch {
		s.epoch[c] = by
	}
	s.mem = map[*Term]cell{}
	s.guards = nil
	an.fresh(s, f, call)
}

// mergeReturns joins the callee's return states into s and installs conditional summaries keyed on
// the nil-ness of the callee's error result.
func (an *Analyzer) mergeReturns(s *State, f *Frame, call *ssa.Call, rets []retState) {
	sig := call.Common().Signature()
	nres := sig.Results().Len()
	errIdx := -1
	if nres > 0 && types.Identical(sig.Results().At(nres-1).Type(), types.Universe.Lookup("error").Type()) {
		errIdx = nres - 1
	}
	at := fmt.Sprintf("ret:%p@%s", call, f.key)
	// result terms
	resCells := make([]cell, nres)
	for i := 0; i < nres; i++ {
		rt := sig.Results().At(i).Type()
		t := an.tt.mk("ret", fmt.Sprintf("%s#%d", at, i), nil, nil, rt, fmt.Sprintf("%s#%d", call.Name(), i))
		if isIntType(rt) {
			resCells[i] = cell{int: true, lin: Lin{t, 0}}
		} else {
			resCells[i] = cell{t: t}
		}
	}
	// copy each return's result facts onto the result terms
	prep := func(r retState) *State {
		st := r.st
		for i := 0; i < nres && i < len(r.results); i++ {
			rc := r.results[i]
			if resCells[i].int {
				if rc.int {
					an.eqLin(st, resCells[i].lin.base, rc.lin)
					if rc.lin.base != nil {
						for y, c := range st.ub[rc.lin.base] {
							st.addUB(resCells[i].lin.base, y, c+rc.lin.c)
						}
						if ts, ok := st.tbl[rc.lin.base]; ok && rc.lin.c == 0 {
							st.tbl[resCells[i].lin.base] = ts
						}
					}
				}
				continue
			}
			if rc.t == nil {
				continue
			}
			rt := resCells[i].t
			if st.nn[rc.t] {
				st.nn[rt] = true
			}
			if st.isnil[rc.t] {
				st.isnil[rt] = true
			}
			if d, ok := st.dyn[rc.t]; ok {
				st.dyn[rt] = d
			}
			if b, ok := an.unbox(st, rc.t); ok {
				an.box(st, rt, b)
			}
			an.eqLin(st, an.lenTerm(rt), Lin{an.lenTerm(rc.t), 0})
			if iv, ok := st.iv[an.lenTerm(rc.t)]; ok {
				st.iv[an.lenTerm(rt)] = iv
			}
			an.eqLin(st, an.capTerm(rt), Lin{an.capTerm(rc.t), 0})
			// fields of a returned struct value
			if stt, ok := rt.typ.Underlying().(*types.Struct); ok {
				for k := 0; k < stt.NumFields() && k < 64; k++ {
					if fc, ok := st.mem[an.svalAddr(rc.t, k)]; ok {
						st.mem[an.svalAddr(rt, k)] = fc
					}
				}
			}
			// memory reachable from a returned pointer: re-key field bindings of the returned object
			for addr, c := range st.mem {
				if addr.kind == "addr" && addr.a == rc.t && strings.HasPrefix(addr.key, "addr|F(") {
					idx := addr.key[strings.LastIndex(addr.key, ".")+1:]
					var n int
					fmt.Sscanf(idx, "%d", &n)
					if p, ok := rt.typ.Underlying().(*types.Pointer); ok {
						na := an.fieldAddr(rt, n, p.Elem(), addr.typ)
						st.mem[na] = c
					}
				}
			}
		}
		return st
	}
	var nilG, nonG, unkG []*State
	var all []*State
	for _, r := range rets {
		st := prep(r)
		all = append(all, st)
		if errIdx >= 0 && errIdx < len(r.results) {
			et := r.results[errIdx].t
			switch {
			case et != nil && st.isnil[et]:
				nilG = append(nilG, st)
			case et != nil && st.nn[et]:
				nonG = append(nonG, st)
			default:
				unkG = append(unkG, st)
			}
		}
	}
	joinAll := func(sts []*State, key string) *State {
		if len(sts) == 0 {
			return nil
		}
		out := sts[0]
		for _, x := range sts[1:] {
			out = an.joinStates(out, x, at+key)
		}
		return out
	}
	merged := joinAll(all, "|all")
	var gd *guard
	if errIdx >= 0 && (len(nilG) > 0 || len(nonG) > 0 || len(unkG) > 0) {
		// returns whose error nil-ness is unknown belong to both groups
		nilG = append(nilG, unkG...)
		nonG = append(nonG, unkG...)
		g := guard{on: resCells[errIdx].t}
		if jn := joinAll(nilG, "|nil"); jn != nil {
			g.whenNil = jn
		} else {
			g.whenNil = &State{dead: true}
		}
		if jn := joinAll(nonG, "|non"); jn != nil {
			g.whenNonNil = jn
		} else {
			g.whenNonNil = &State{dead: true}
		}
		gd = &g
	}
	// replace caller state by the merged callee state, re-attaching the caller's own SSA bindings
	// (they were not copied into the callee)
	saveVals, saveInts, saveTuples := s.vals, s.ints, s.tuples
	*s = *merged.clone()
	for k, v := range saveVals {
		if _, ok := s.vals[k]; !ok {
			s.vals[k] = v
		}
	}
	for k, v := range saveInts {
		if _, ok := s.ints[k]; !ok {
			s.ints[k] = v
		}
	}
	for k, v := range saveTuples {
		if _, ok := s.tuples[k]; !ok {
			s.tuples[k] = v
		}
	}
	if nres == 1 {
		an.bind(s, f, call, resCells[0])
	} else if nres > 1 {
		s.tuples[vkey{f, call}] = resCells
	}
	if gd != nil {
		s.guards = []guard{*gd}
	} else {
		s.guards = nil
	}
	an.pruneCallee(s, fmt.Sprintf("%s/%p", f.key, call), resCells)
}

// pruneCallee drops the callee's frame-local bindings and the facts on terms nothing refers to any more.
func (an *Analyzer) pruneCallee(s *State, prefix string, keep []cell) {
	local := func(fk string) bool { return strings.HasPrefix(fk, prefix) }
	for k := range s.vals {
		if k.f != nil && local(k.f.key) {
			delete(s.vals, k)
		}
	}
	for k := range s.ints {
		if k.f != nil && local(k.f.key) {
			delete(s.ints, k)
		}
	}
	for k := range s.tuples {
		if k.f != nil && local(k.f.key) {
			delete(s.tuples, k)
		}
	}
	// mark
	marked := map[*Term]bool{}
	var mark func(t *Term)
	mark = func(t *Term) {
		if t == nil || marked[t] {
			return
		}
		marked[t] = true
		mark(t.a)
		mark(t.b)
	}
	markCell := func(c cell) {
		if c.int {
			mark(c.lin.base)
		} else {
			mark(c.t)
		}
	}
	for _, rs := range append([]*State{s}, an.callerRoots...) {
		for _, t := range rs.vals {
			mark(t)
		}
		for _, l := range rs.ints {
			mark(l.base)
		}
		for _, tup := range rs.tuples {
			for _, c := range tup {
				markCell(c)
			}
		}
	}
	// memory is live only if reachable from live roots (fixpoint below)
	for _, c := range keep {
		markCell(c)
	}
	for t := range s.part {
		mark(t)
	}
	for _, g := range s.guards {
		mark(g.on)
	}
	for _, ts := range s.tbl {
		mark(ts.arg)
	}
	// memory reachable from the marked roots
	reach := func(addr *Term) bool {
		for x := addr; x != nil; x = x.a {
			if marked[x] || x.kind == "global" {
				return true
			}
			if x.kind != "addr" && x.kind != "boxaddr" && x.kind != "sval" {
				break
			}
		}
		return false
	}
	for changed := true; changed; {
		changed = false
		for addr, c := range s.mem {
			if !reach(addr) {
				continue
			}
			if !marked[addr] {
				mark(addr)
				changed = true
			}
			if c.int {
				if c.lin.base != nil && !marked[c.lin.base] {
					mark(c.lin.base)
					changed = true
				}
			} else if c.t != nil && !marked[c.t] {
				mark(c.t)
				changed = true
			}
		}
	}
	for addr := range s.mem {
		if !marked[addr] {
			delete(s.mem, addr)
		}
	}
	alive := func(t *Term) bool {
		if t == nil {
			return true
		}
		if marked[t] {
			return true
		}
		// facts about len/cap/add of live terms stay
		switch t.kind {
		case "len", "cap":
			return marked[t.a]
		case "add":
			return marked[t.a] && marked[t.b]
		}
		return false
	}
	for t := range s.iv {
		if !alive(t) {
			delete(s.iv, t)
		}
	}
	for x, m := range s.ub {
		for y := range m {
			if !alive(x) || !alive(y) {
				s.delUB(x, y)
			}
		}
		if len(m) == 0 {
			delete(s.ub, x)
		}
	}
	for y, m := range s.rub {
		if len(m) == 0 {
			delete(s.rub, y)
		}
	}
	for t := range s.nn {
		if !alive(t) {
			delete(s.nn, t)
		}
	}
	for t := range s.isnil {
		if !alive(t) {
			delete(s.isnil, t)
		}
	}
	for t := range s.dyn {
		if !alive(t) {
			delete(s.dyn, t)
		}
	}
	for t := range s.tbl {
		if !alive(t) {
			delete(s.tbl, t)
		}
	}
	for c := range s.epoch {
		// classes qualified by a local object that is no longer live
		i := strings.Index(c, "alloc|")
		if i < 0 {
			continue
		}
		live := false
		for t := range marked {
			if t.kind == "alloc" && strings.HasSuffix(c, t.key) {
				live = true
				break
			}
		}
		if !live {
			delete(s.epoch, c)
		}
	}
}

// assumeCond refines s with the truth of a branch condition.
func (an *Analyzer) assumeCond(s *State, f *Frame, cond ssa.Value, truth bool) {
	switch c := cond.(type) {
	case *ssa.BinOp:
		op := c.Op
		if !truth {
			op = map[token.Token]token.Token{token.LSS: token.GEQ, token.GEQ: token.LSS, token.GTR: token.LEQ, token.LEQ: token.GTR, token.EQL: token.NEQ, token.NEQ: token.EQL}[op]
		}
		if isIntType(c.X.Type()) {
			x, y := an.linOf(s, f, c.X), an.linOf(s, f, c.Y)
			switch op {
			case token.LSS:
				s.assumeLE(x, y, -1)
			case token.LEQ:
				s.assumeLE(x, y, 0)
			case token.GTR:
				s.assumeLE(y, x, -1)
			case token.GEQ:
				s.assumeLE(y, x, 0)
			case token.EQL:
				s.assumeLE(x, y, 0)
				s.assumeLE(y, x, 0)
				an.applyTables(s, x, y)
				an.applyTables(s, y, x)
			case token.NEQ:
				// exclude an endpoint
				if y.base == nil && x.base != nil {
					iv := s.getIv(x.base)
					v := y.c - x.c
					if iv.lo == v {
						s.meetIv(x.base, v+1, inf)
					}
					if iv.hi == v {
						s.meetIv(x.base, -inf, v-1)
					}
				}
			}
			return
		}
		// nil comparisons on references
		if op == token.EQL || op == token.NEQ {
			var v ssa.Value
			if isNilConst(c.Y) {
				v = c.X
			} else if isNilConst(c.X) {
				v = c.Y
			}
			if v != nil {
				t := an.refOf(s, f, v)
				if op == token.EQL {
					s.setNil(t)
					if _, isSl := v.Type().Underlying().(*types.Slice); isSl {
						s.meetIv(an.lenTerm(t), 0, 0)
					}
				} else {
					s.setNonNil(t)
				}
				an.applyGuards(s, t, op == token.EQL)
			}
		}
	case *ssa.UnOp:
		if c.Op == token.NOT {
			an.assumeCond(s, f, c.X, !truth)
		}
	case *ssa.Extract:
		// ok of a comma-ok type assertion
		if ta, isTA := c.Tuple.(*ssa.TypeAssert); isTA && c.Index == 1 && truth {
			x := an.refOf(s, f, ta.X)
			if _, isIface := ta.AssertedType.Underlying().(*types.Interface); !isIface {
				s.dyn[x] = ta.AssertedType
			}
			s.setNonNil(x)
			if tup, ok := s.tuples[vkey{f, ta}]; ok {
				if b, ok := an.unbox(s, x); ok {
					tup = append([]cell(nil), tup...)
					tup[0] = b
					s.tuples[vkey{f, ta}] = tup
					// rebinding of already extracted value
					for _, ref := range *ta.Referrers() {
						if ex, ok := ref.(*ssa.Extract); ok && ex.Index == 0 {
							an.bind(s, f, ex, b)
						}
					}
				}
			}
		}
	}
}

func isNilConst(v ssa.Value) bool {
	c, ok := v.(*ssa.Const)
	return ok && c.Value == nil
}

func (an *Analyzer) applyGuards(s *State, t *Term, isNil bool) {
	gs := s.guards
	for _, g := range gs {
		if g.on != t {
			continue
		}
		snap := g.whenNonNil
		if isNil {
			snap = g.whenNil
		}
		if snap == nil {
			continue
		}
		if snap.dead {
			s.dead = true
			return
		}
		s.meetWith(snap)
	}
}

// applyTables: on x == c, refine the results of table functions applied to x.
func (an *Analyzer) applyTables(s *State, x, y Lin) {
	if x.base == nil || y.base != nil {
		return
	}
	v := y.c - x.c
	for res, ts := range s.tbl {
		if ts.arg != x.base {
			continue
		}
		if r, ok := ts.table[v]; ok {
			s.meetIv(res, r, r)
		} else if ts.has {
			s.meetIv(res, ts.dflt, ts.dflt)
		}
	}
}
