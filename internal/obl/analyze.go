package obl

import (
	"fmt"
	"go/constant"
	"go/token"
	"go/types"
	"os"
	"sort"
	"strings"

	"golang.org/x/tools/go/ssa"
)

// Obligation is one panic-capable instruction with the verdict over all contexts it was analysed in.
type Obligation struct {
	Kind     string // K1 index/slice, K2 nil, K3 assert, K4 div, K5 make, K6 exit, K7 external precondition, K10 shift, K11 recursion
	Fn       *ssa.Function
	Instr    ssa.Instruction
	Expr     string // normalised expression (construct key part)
	Pos      token.Pos
	Contexts int
	Failed   int
	Why      string // first failure: missing fact and facts available
	Assumed  string // non-empty: discharged by a named assumption
}

// Config tunes the analysis for a property.
type Config struct {
	IsRepo func(*ssa.Function) bool
	// Trusted nil-ness: values of these kinds are assumed non-nil (documented assumptions)
	AssumeParamsNonNil bool
	// ConfigField reports whether a struct field load is a configuration value (options): sizes derived only
	// from those are accepted under assumption A-config.
	ConfigField func(owner types.Type, f *types.Var) bool
	// PoolElemOK: type assertions / re-slicing to capacity of values taken from a sync.Pool are discharged by the
	// pool-uniformity rule (R12.7), checked elsewhere; the callback says whether that rule holds for the pool global.
	PoolOK func(g *ssa.Global) bool
	// MaxDepth of inlining
	MaxDepth int
	// Resolve returns the repository targets of an interface invocation (CHA); nil = unknown.
	Resolve func(site ssa.CallInstruction) []*ssa.Function
	// AllocBound is the largest allocation size (elements) accepted as "bounded by a constant".
	AllocBound int64
	// GlobalNonNil: package-level variable whose value is provably never nil (e.g. error sentinels set once by errors.New).
	GlobalNonNil func(g *ssa.Global) bool
	// GlobalConst: package-level integer variable only written by its initialiser, with that value.
	GlobalConst func(g *ssa.Global) (int64, bool)
	// SliceInvariant: values of this (named slice) type always have exactly n non-nil elements (established by a
	// constructor-shape rule checked elsewhere).
	SliceInvariant func(t types.Type) (n int64, elemsNonNil bool, ok bool)
	// StrictLen: in these functions a slice expression must stay within the operand's length, not merely its capacity.
	StrictLen func(fn *ssa.Function) bool
	// FieldNonNil: loads of this struct field always yield a non-nil value (same provenance).
	FieldNonNil func(owner types.Type, idx int) bool
	// ExtraAssume lets a property accept named obligations (key -> reason).
	ExtraAssume map[string]string
}

// Analyzer runs the abstract interpretation.
type Analyzer struct {
	redef       map[*Term]bool // merge terms (re)defined by the join in progress
	cfg         Config
	tt          *termTable
	verdicts    map[string]*verdict
	failAll     bool
	frames      map[string]*Frame
	stack       []*ssa.Function
	Externs     map[string]int // external callees seen (name -> count)
	Unknown     map[string]int // external callees outside the reviewed effect table
	Reached     map[*ssa.Function]int
	steps       int
	Warnings    []string
	tables      map[*Frame]*tableSummary
	memo        map[*Frame]*memoEntry
	memoHits    int
	callerRoots []*State
}

func New(cfg Config) *Analyzer {
	if cfg.MaxDepth == 0 {
		cfg.MaxDepth = 10
	}
	if cfg.AllocBound == 0 {
		cfg.AllocBound = 1 << 20
	}
	return &Analyzer{cfg: cfg, tt: newTermTable(), verdicts: map[string]*verdict{}, frames: map[string]*Frame{},
		Externs: map[string]int{}, Unknown: map[string]int{}, Reached: map[*ssa.Function]int{}, tables: map[*Frame]*tableSummary{}, memo: map[*Frame]*memoEntry{}}
}

type retState struct {
	st      *State
	results []cell
	ret     *ssa.Return
}

func (an *Analyzer) frame(parent *Frame, site ssa.Instruction, fn *ssa.Function) *Frame {
	key := "root:" + fn.String()
	depth := 0
	if parent != nil {
		key = parent.key + "/" + fmt.Sprintf("%p", site)
		depth = parent.depth + 1
	}
	if f, ok := an.frames[key]; ok {
		return f
	}
	f := &Frame{key: key, fn: fn, parent: parent, depth: depth}
	an.frames[key] = f
	return f
}

// ---- terms for SSA values ----

func (an *Analyzer) valTerm(f *Frame, v ssa.Value) *Term {
	fk := ""
	if f != nil {
		fk = f.key
	}
	return an.tt.mk("val", fk+"|"+fmt.Sprintf("%p", v), nil, nil, v.Type(), v.Name())
}

func (an *Analyzer) lenTerm(t *Term) *Term {
	return an.tt.mk("len", t.key, t, nil, types.Typ[types.Int], "len("+t.String()+")")
}

func (an *Analyzer) capTerm(t *Term) *Term {
	return an.tt.mk("cap", t.key, t, nil, types.Typ[types.Int], "cap("+t.String()+")")
}

func (an *Analyzer) addTerm(a, b *Term, typ types.Type) *Term {
	if a.id > b.id {
		a, b = b, a
	}
	return an.tt.mk("add", a.key+"+"+b.key, a, b, typ, "("+a.String()+"+"+b.String()+")")
}

func (an *Analyzer) fieldAddr(base *Term, idx int, st types.Type, ftyp types.Type) *Term {
	return an.tt.mk("addr", fmt.Sprintf("F(%s).%d", base.key, idx), base, nil, ftyp, fmt.Sprintf("&%s.#%d", base, idx)).withClass(fmt.Sprintf("F:%s.%d", st.String(), idx))
}

func (an *Analyzer) elemAddr(base *Term, idx Lin, etyp types.Type) *Term {
	ik := idx.String()
	if idx.base != nil {
		ik = fmt.Sprintf("%s%+d", idx.base.key, idx.c)
	}
	return an.tt.mk("addr", fmt.Sprintf("E(%s)[%s]", base.key, ik), base, idx.base, etyp, fmt.Sprintf("&%s[%s]", base, idx)).withClass("E:" + etyp.String())
}

// classes of address terms are kept in a side table keyed by term
var addrClasses = map[*Term]string{}

func (t *Term) withClass(c string) *Term {
	if _, ok := addrClasses[t]; !ok {
		// distinct local objects get their own class
		root := t
		for root.kind == "addr" && root.a != nil {
			root = root.a
		}
		if root.kind == "alloc" {
			c += "@" + root.key
		}
		addrClasses[t] = c
	}
	return t
}

func addrClass(addr *Term) string {
	if c, ok := addrClasses[addr]; ok {
		return c
	}
	switch addr.kind {
	case "alloc":
		return "A:" + addr.key
	case "global":
		return "G:" + addr.key
	}
	if addr.typ != nil {
		if p, ok := addr.typ.Underlying().(*types.Pointer); ok {
			return "P:" + p.Elem().String()
		}
	}
	return "P:?"
}

func (an *Analyzer) allocTerm(f *Frame, a *ssa.Alloc) *Term {
	return an.tt.mk("alloc", f.key+"|"+fmt.Sprintf("%p", a), nil, nil, a.Type(), "&"+a.Comment+"@"+a.Name())
}

func (an *Analyzer) globalTerm(g *ssa.Global) *Term {
	return an.tt.mk("global", g.String(), nil, nil, g.Type(), g.Name())
}

// initCell is the (unknown but stable) content of an unbound location in the current memory epoch.
func (an *Analyzer) initCell(s *State, addr *Term) cell {
	cls := addrClass(addr)
	ep := effEpoch(s, cls)
	var elem types.Type
	if addr.typ != nil {
		if p, ok := addr.typ.Underlying().(*types.Pointer); ok {
			elem = p.Elem()
		} else {
			elem = addr.typ
		}
	}
	// content of a field/element of an immutable struct value bound at the root
	t := an.tt.mk("init", addr.key+"@"+ep, addr, nil, elem, "*"+addr.String())
	if elem != nil && isIntType(elem) {
		return cell{int: true, lin: Lin{t, 0}}
	}
	return cell{t: t}
}

func constInt(v ssa.Value) (int64, bool) {
	c, ok := v.(*ssa.Const)
	if !ok || c.Value == nil {
		return 0, false
	}
	if c.Value.Kind() != constant.Int {
		return 0, false
	}
	i, ok := constant.Int64Val(c.Value)
	if !ok {
		if u, ok2 := constant.Uint64Val(c.Value); ok2 && u > uint64(inf) {
			return inf, true
		}
	}
	return i, ok
}

func (an *Analyzer) linOf(s *State, f *Frame, v ssa.Value) Lin {
	if c, ok := constInt(v); ok {
		return Lin{nil, c}
	}
	if l, ok := s.ints[vkey{f, v}]; ok {
		return l
	}
	t := an.valTerm(f, v)
	return Lin{t, 0}
}

func (an *Analyzer) refOf(s *State, f *Frame, v ssa.Value) *Term {
	switch x := v.(type) {
	case *ssa.Const:
		t := an.tt.mk("const", fmt.Sprintf("%s:%v", x.Type(), x.Value), nil, nil, x.Type(), x.String())
		if x.Value == nil {
			switch x.Type().Underlying().(type) {
			case *types.Pointer, *types.Slice, *types.Map, *types.Interface, *types.Chan, *types.Signature:
				s.isnil[t] = true
				if _, isSlice := x.Type().Underlying().(*types.Slice); isSlice {
					s.iv[an.lenTerm(t)] = itv{0, 0}
				}
			}
		} else if x.Value.Kind() == constant.String {
			n := int64(len(constant.StringVal(x.Value)))
			s.iv[an.lenTerm(t)] = itv{n, n}
		}
		return t
	case *ssa.Global:
		t := an.globalTerm(x)
		s.nn[t] = true
		return t
	case *ssa.Function:
		t := an.tt.mk("func", x.String(), nil, nil, x.Type(), x.Name())
		s.nn[t] = true
		return t
	case *ssa.Alloc:
		t := an.allocTerm(f, x)
		s.nn[t] = true
		return t
	}
	if t, ok := s.vals[vkey{f, v}]; ok {
		return t
	}
	return an.valTerm(f, v)
}

// cellOf returns the abstract content of a value.
func (an *Analyzer) cellOf(s *State, f *Frame, v ssa.Value) cell {
	if isIntType(v.Type()) {
		return cell{int: true, lin: an.linOf(s, f, v)}
	}
	return cell{t: an.refOf(s, f, v)}
}

func (an *Analyzer) bind(s *State, f *Frame, v ssa.Value, c cell) {
	if c.int {
		s.ints[vkey{f, v}] = c.lin
	} else if c.t != nil {
		s.vals[vkey{f, v}] = c.t
	}
}

// ---- memory ----

func (an *Analyzer) load(s *State, addr *Term) cell {
	if c, ok := s.mem[addr]; ok {
		return c
	}
	// field of a struct value held in a local: derive from the struct term
	if addr.kind == "addr" && strings.HasPrefix(addr.key, "addr|F(") && addr.a != nil {
		if sc, ok := s.mem[addr.a]; ok && !sc.int && sc.t != nil && addr.a.kind == "alloc" {
			return an.fieldOfValueIn(s, sc.t, addr)
		}
	}
	return an.initCell(s, addr)
}

func (an *Analyzer) fieldOfValue(structTerm *Term, faddr *Term) cell {
	return an.fieldOfValueIn(nil, structTerm, faddr)
}

func (an *Analyzer) fieldOfValueIn(s *State, structTerm *Term, faddr *Term) cell {
	if s != nil {
		var n int
		fmt.Sscanf(faddr.key[strings.LastIndex(faddr.key, ".")+1:], "%d", &n)
		if fc, ok := s.mem[an.svalAddr(structTerm, n)]; ok {
			return fc
		}
	}
	var elem types.Type
	if p, ok := faddr.typ.Underlying().(*types.Pointer); ok {
		elem = p.Elem()
	} else {
		elem = faddr.typ
	}
	idx := faddr.key[strings.LastIndex(faddr.key, ".")+1:]
	t := an.tt.mk("fld", structTerm.key+"."+idx, structTerm, nil, elem, structTerm.String()+".#"+idx)
	if elem != nil && isIntType(elem) {
		return cell{int: true, lin: Lin{t, 0}}
	}
	return cell{t: t}
}

// kill forgets everything known about locations of the given class.
// Classes are "B" (address of unknown origin) or "B@o" (address rooted at the known local object o):
// a store to B@o cannot touch B@o' for another object o', but may be seen through pointers of unknown
// origin (B); a store through B may touch every B@*.
func (an *Analyzer) kill(s *State, cls string, by string) {
	if trace && os.Getenv("VERIF_OBL_TRACE") == "kills" {
		fmt.Fprintf(os.Stderr, "   kill %s by %s\n", cls, by)
	}
	base := cls
	qualified := false
	if i := strings.Index(cls, "@"); i >= 0 {
		base, qualified = cls[:i], true
	}
	for addr := range s.mem {
		c := addrClass(addr)
		cb := c
		if i := strings.Index(c, "@"); i >= 0 {
			cb = c[:i]
		}
		switch {
		case c == cls:
			delete(s.mem, addr)
		case !qualified && cb == base:
			delete(s.mem, addr)
		case qualified && c == base:
			delete(s.mem, addr)
		}
	}
	s.epoch[cls] = by
	if qualified {
		s.epoch["~"+base] = by
	}
	s.guards = nil
}

func effEpoch(s *State, cls string) string {
	if i := strings.Index(cls, "@"); i >= 0 {
		return s.epoch[cls] + "|" + s.epoch[cls[:i]] + "|" + s.epoch["obj:"+cls[i+1:]]
	}
	return s.epoch[cls] + "|" + s.epoch["~"+cls]
}

func (an *Analyzer) store(s *State, addr *Term, c cell, by string) {
	cls := addrClass(addr)
	an.kill(s, cls, by)
	s.mem[addr] = c
	// storing a whole struct into a local invalidates its field bindings
	if addr.kind == "alloc" {
		for a2 := range s.mem {
			if a2 != addr && a2.kind == "addr" && rootOf(a2) == addr {
				delete(s.mem, a2)
			}
		}
		s.epoch["obj:"+addr.key] = by
	}
}

func rootOf(t *Term) *Term {
	for t.kind == "addr" && t.a != nil {
		t = t.a
	}
	return t
}

// killReachable forgets memory reachable from a reference term (external callee may write through it).
// elemsOnly: only element contents (slice lengths and scalar/pointer fields survive).
func (an *Analyzer) killReachable(s *State, t *Term, by string, elemsOnly bool, depth int) {
	if t == nil || depth > 4 {
		return
	}
	classes := map[string]bool{}
	for addr, c := range s.mem {
		if derivedFrom(addr, t) {
			cls := addrClass(addr)
			if elemsOnly && !strings.HasPrefix(cls, "E:") {
				// follow slices stored in fields/locals
				if !c.int && c.t != nil {
					an.killReachable(s, c.t, by, elemsOnly, depth+1)
				}
				continue
			}
			classes[cls] = true
			if !c.int && c.t != nil {
				an.killReachable(s, c.t, by, elemsOnly, depth+1)
			}
		}
	}
	// the object itself
	if t.kind == "alloc" && !elemsOnly {
		classes[addrClass(t)] = true
	}
	if t.typ != nil {
		switch u := t.typ.Underlying().(type) {
		case *types.Slice:
			classes["E:"+u.Elem().String()] = true
		case *types.Pointer:
			if !elemsOnly {
				if st, ok := u.Elem().Underlying().(*types.Struct); ok {
					for i := 0; i < st.NumFields(); i++ {
						cl := fmt.Sprintf("F:%s.%d", u.Elem().String(), i)
						if rootOf(t).kind == "alloc" {
							cl += "@" + rootOf(t).key
						}
						classes[cl] = true
					}
				} else if t.kind != "alloc" {
					classes["P:"+u.Elem().String()] = true
				}
			}
			if arr, ok := u.Elem().Underlying().(*types.Array); ok {
				classes["E:"+arr.Elem().String()] = true
			}
			if sl, ok := u.Elem().Underlying().(*types.Slice); ok {
				classes["E:"+sl.Elem().String()] = true
				// the slice stored in the pointee
				if c, ok := s.mem[t]; ok && !c.int && c.t != nil && !elemsOnly {
					_ = c
				}
			}
		}
	}
	var cs []string
	for c := range classes {
		cs = append(cs, c)
	}
	sort.Strings(cs)
	for _, c := range cs {
		an.kill(s, c, by)
	}
}

func derivedFrom(addr, t *Term) bool {
	for x := addr; x != nil; x = x.a {
		if x == t {
			return true
		}
		if x.kind != "addr" {
			break
		}
	}
	return false
}
