package obl

import (
	"fmt"
	"go/types"
	"os"
	"sort"
	"strings"
)

// cell is the content of a memory location: a reference term or an integer linear form.
type cell struct {
	t   *Term
	lin Lin
	int bool
}

func (c cell) same(d cell) bool {
	if c.int != d.int {
		return false
	}
	if c.int {
		return c.lin == d.lin
	}
	return c.t == d.t
}

type tableSummary struct {
	arg   *Term
	table map[int64]int64
	dflt  int64
	has   bool // default known
}

// guard is a conditional summary: when `on` turns out nil (resp. non-nil) the facts of `whenNil`
// (resp. `whenNonNil`) hold in addition.
type guard struct {
	on         *Term
	whenNil    *State
	whenNonNil *State
}

// State is a conjunction of facts.
type State struct {
	vals   map[vkey]*Term
	ints   map[vkey]Lin
	tuples map[vkey][]cell
	mem    map[*Term]cell    // address term -> content
	epoch  map[string]string // alias class -> id of the last kill (memory SSA by class)
	iv     map[*Term]itv
	ub     map[*Term]map[*Term]int64 // x <= y + c
	rub    map[*Term]map[*Term]int64 // reverse index: rub[y][x] = c
	nn     map[*Term]bool            // non-nil
	isnil  map[*Term]bool
	dyn    map[*Term]types.Type // dynamic type of an interface term
	tbl    map[*Term]*tableSummary
	guards []guard
	part   map[*Term]string // partition key: dynamic types of interface-valued merge points
	dead   bool
}

func newState() *State {
	return &State{vals: map[vkey]*Term{}, ints: map[vkey]Lin{}, tuples: map[vkey][]cell{}, mem: map[*Term]cell{}, epoch: map[string]string{},
		iv: map[*Term]itv{}, ub: map[*Term]map[*Term]int64{}, rub: map[*Term]map[*Term]int64{}, nn: map[*Term]bool{}, isnil: map[*Term]bool{}, dyn: map[*Term]types.Type{},
		tbl: map[*Term]*tableSummary{}, part: map[*Term]string{}}
}

var CloneStats [8]int64

func (s *State) clone() *State {
	CloneStats[0]++
	CloneStats[1] += int64(len(s.vals))
	CloneStats[2] += int64(len(s.ints))
	CloneStats[3] += int64(len(s.mem))
	CloneStats[4] += int64(len(s.iv))
	CloneStats[5] += int64(len(s.ub))
	CloneStats[6] += int64(len(s.nn))
	CloneStats[7] += int64(len(s.epoch))
	n := newState()
	for k, v := range s.vals {
		n.vals[k] = v
	}
	for k, v := range s.ints {
		n.ints[k] = v
	}
	for k, v := range s.tuples {
		n.tuples[k] = v
	}
	for k, v := range s.mem {
		n.mem[k] = v
	}
	for k, v := range s.epoch {
		n.epoch[k] = v
	}
	for k, v := range s.iv {
		n.iv[k] = v
	}
	for k, m := range s.ub {
		mm := make(map[*Term]int64, len(m))
		for k2, v := range m {
			mm[k2] = v
		}
		n.ub[k] = mm
	}
	for k, m := range s.rub {
		mm := make(map[*Term]int64, len(m))
		for k2, v := range m {
			mm[k2] = v
		}
		n.rub[k] = mm
	}
	for k, v := range s.nn {
		n.nn[k] = v
	}
	for k, v := range s.isnil {
		n.isnil[k] = v
	}
	for k, v := range s.dyn {
		n.dyn[k] = v
	}
	for k, v := range s.tbl {
		n.tbl[k] = v
	}
	for k, v := range s.part {
		n.part[k] = v
	}
	n.guards = append([]guard(nil), s.guards...)
	n.dead = s.dead
	return n
}

// cloneForCallee copies everything except the caller's SSA-value bindings (the callee cannot name them).
func (s *State) cloneForCallee() *State {
	sv, si, st := s.vals, s.ints, s.tuples
	s.vals, s.ints, s.tuples = map[vkey]*Term{}, map[vkey]Lin{}, map[vkey][]cell{}
	n := s.clone()
	s.vals, s.ints, s.tuples = sv, si, st
	return n
}

func (s *State) partKey() string {
	if len(s.part) == 0 {
		return ""
	}
	var ks []string
	for t, v := range s.part {
		ks = append(ks, t.key+"="+v)
	}
	sort.Strings(ks)
	return strings.Join(ks, ";")
}

func (s *State) getIv(t *Term) itv {
	if t == nil {
		return itv{0, 0}
	}
	if v, ok := s.iv[t]; ok {
		return v
	}
	if t.kind == "len" {
		return itv{0, inf}
	}
	if t.typ != nil && isIntType(t.typ) {
		return typeRange(t.typ)
	}
	return itv{-inf, inf}
}

func (s *State) meetIv(t *Term, lo, hi int64) {
	if t == nil {
		return
	}
	v := s.getIv(t)
	if lo > v.lo {
		v.lo = lo
	}
	if hi < v.hi {
		v.hi = hi
	}
	s.iv[t] = v
	if v.lo > v.hi {
		s.dead = true
	}
}

func (s *State) addUB(x, y *Term, c int64) {
	if x == nil || y == nil || x == y {
		return
	}
	m := s.ub[x]
	if m == nil {
		m = map[*Term]int64{}
		s.ub[x] = m
	}
	if old, ok := m[y]; !ok || c < old {
		m[y] = c
		r := s.rub[y]
		if r == nil {
			r = map[*Term]int64{}
			s.rub[y] = r
		}
		r[x] = c
	}
}

func (s *State) delUB(x, y *Term) {
	if m := s.ub[x]; m != nil {
		delete(m, y)
	}
	if r := s.rub[y]; r != nil {
		delete(r, x)
	}
}

func (s *State) lo(l Lin) int64 {
	if l.base == nil {
		return l.c
	}
	return addSat(s.lowerBound(l.base), l.c)
}

func (s *State) hi(l Lin) int64 {
	if l.base == nil {
		return l.c
	}
	return addSat(s.upperBound(l.base), l.c)
}

// lowerBound of a term: its interval, improved by z <= t + k facts (lo(z) - k <= t).
func (s *State) lowerBound(t *Term) int64 {
	b := s.getIv(t).lo
	for z, k := range s.rub[t] {
		if lz := s.getIv(z).lo; lz > -inf {
			if v := lz - k; v > b {
				b = v
			}
		}
	}
	return b
}

// upperBound of a term: its interval, improved by t <= y + k facts.
func (s *State) upperBound(t *Term) int64 {
	b := s.getIv(t).hi
	for y, k := range s.ub[t] {
		if hy := s.getIv(y).hi; hy < inf {
			if v := hy + k; v < b {
				b = v
			}
		}
	}
	return b
}

// proveLE proves x <= y + c.
func (s *State) proveLE(x, y Lin, c int64) bool {
	d := y.c + c - x.c // need x.base <= y.base + d
	switch {
	case x.base == y.base:
		return d >= 0
	case x.base == nil:
		lb := s.lowerBound(y.base)
		return lb > -inf && 0 <= lb+d
	case y.base == nil:
		ub := s.upperBound(x.base)
		return ub < inf && ub <= d
	}
	if c0, ok := s.ub[x.base][y.base]; ok && c0 <= d {
		return true
	}
	hx, ly := s.upperBound(x.base), s.lowerBound(y.base)
	if hx < inf && ly > -inf && hx <= ly+d {
		return true
	}
	// one-step transitivity
	for z, c1 := range s.ub[x.base] {
		if c2, ok := s.ub[z][y.base]; ok && c1+c2 <= d {
			return true
		}
		// x <= z + c1 and hi(z) known
		if hz := s.getIv(z).hi; hz < inf && ly > -inf && hz+c1 <= ly+d {
			return true
		}
	}
	for z, c2 := range s.rub[y.base] {
		// z <= y + c2 ; need x <= z + (d - c2)
		if hx < inf {
			if lz := s.getIv(z).lo; lz > -inf && hx <= lz+d-c2 {
				return true
			}
		}
	}
	return false
}

// assumeLE adds the fact a <= b + c.
func (s *State) assumeLE(a, b Lin, c int64) {
	d := b.c + c - a.c
	switch {
	case a.base != nil && b.base != nil:
		if a.base == b.base {
			if d < 0 {
				s.dead = true
			}
			return
		}
		s.addUB(a.base, b.base, d)
		if h := s.upperBound(b.base); h < inf {
			s.meetIv(a.base, -inf, h+d)
		}
		if l := s.lowerBound(a.base); l > -inf {
			s.meetIv(b.base, l-d, inf)
		}
	case a.base != nil:
		s.meetIv(a.base, -inf, d)
	case b.base != nil:
		s.meetIv(b.base, -d, inf)
	default:
		if d < 0 {
			s.dead = true
		}
	}
}

func (s *State) setNonNil(t *Term) {
	if t == nil {
		return
	}
	if s.isnil[t] {
		s.dead = true
	}
	s.nn[t] = true
}

func (s *State) setNil(t *Term) {
	if t == nil {
		return
	}
	if s.nn[t] {
		s.dead = true
	}
	s.isnil[t] = true
}

// ---- join ----

// joinStates computes the least upper bound (fact intersection) of a and b at block `at`.
// mk creates the merge terms (memory phis).
func (an *Analyzer) joinStates(a, b *State, at string) *State {
	if a.dead {
		return b.clone()
	}
	if b.dead {
		return a.clone()
	}
	n := newState()
	// merge terms are named after their merge point, so the same term is re-used on every visit: facts the incoming
	// states hold about such a term (or anything derived from it) describe its previous value and must not survive
	an.redef = map[*Term]bool{}
	staleMemo := map[*Term]bool{}
	var stale func(t *Term) bool
	stale = func(t *Term) bool {
		if t == nil {
			return false
		}
		if v, ok := staleMemo[t]; ok {
			return v
		}
		staleMemo[t] = false
		v := an.redef[t] || stale(t.a) || stale(t.b)
		staleMemo[t] = v
		return v
	}
	for k, v := range a.vals {
		if w, ok := b.vals[k]; ok {
			if w == v {
				n.vals[k] = v
			} else {
				n.vals[k] = an.mergeRef(n, a, b, v, w, at+"|v|"+k.f.key+"|"+k.v.Name())
			}
		}
	}
	for k, v := range a.ints {
		if w, ok := b.ints[k]; ok {
			if w == v {
				n.ints[k] = v
			} else {
				n.ints[k] = an.mergeInt(n, a, b, v, w, at+"|i|"+k.f.key+"|"+k.v.Name(), k.v.Type())
			}
		}
	}
	for k, v := range a.tuples {
		if w, ok := b.tuples[k]; ok && len(v) == len(w) {
			out := make([]cell, len(v))
			for i := range v {
				if v[i].same(w[i]) {
					out[i] = v[i]
				} else if v[i].int {
					out[i] = cell{int: true, lin: an.mergeInt(n, a, b, v[i].lin, w[i].lin, at+"|t|"+k.f.key+"|"+k.v.Name()+"#"+string(rune('0'+i)), nil)}
				} else {
					out[i] = cell{t: an.mergeRef(n, a, b, v[i].t, w[i].t, at+"|t|"+k.f.key+"|"+k.v.Name()+"#"+string(rune('0'+i)))}
				}
			}
			n.tuples[k] = out
		}
	}
	// epochs
	for c, e := range a.epoch {
		if f, ok := b.epoch[c]; ok && f == e {
			n.epoch[c] = e
		} else {
			n.epoch[c] = "j:" + at + ":" + c
		}
	}
	for c := range b.epoch {
		if _, ok := a.epoch[c]; !ok {
			n.epoch[c] = "j:" + at + ":" + c
		}
	}
	// memory
	addrs := map[*Term]bool{}
	for k := range a.mem {
		addrs[k] = true
	}
	for k := range b.mem {
		addrs[k] = true
	}
	for addr := range addrs {
		ca, oka := a.mem[addr]
		cb, okb := b.mem[addr]
		if !oka {
			ca = an.initCell(a, addr)
		}
		if !okb {
			cb = an.initCell(b, addr)
		}
		if ca.same(cb) {
			n.mem[addr] = ca
			continue
		}
		if ca.int != cb.int {
			continue
		}
		if ca.int {
			n.mem[addr] = cell{int: true, lin: an.mergeInt(n, a, b, ca.lin, cb.lin, at+"|m|"+addr.key, addr.typ)}
		} else {
			if trace && os.Getenv("VERIF_OBL_TRACE") == "memmerge" {
				fmt.Fprintf(os.Stderr, "   memmerge at %s addr %s: %s (bound=%v) vs %s (bound=%v)\n", at, addr, ca.t, oka, cb.t, okb)
			}
			n.mem[addr] = cell{t: an.mergeRef(n, a, b, ca.t, cb.t, at+"|m|"+addr.key)}
		}
	}
	// the redefinitions are complete: forget the memo and drop memory cells at addresses derived from a redefined term
	staleMemo = map[*Term]bool{}
	for addr := range n.mem {
		if stale(addr) {
			delete(n.mem, addr)
		}
	}
	// facts on common terms
	for t, va := range a.iv {
		if stale(t) {
			continue
		}
		vb := b.getIv(t)
		h := itv{min64(va.lo, vb.lo), max64(va.hi, vb.hi)}
		if old, ok := n.iv[t]; ok {
			h = itv{max64(h.lo, old.lo), min64(h.hi, old.hi)}
		}
		n.iv[t] = h
	}
	for x, m := range a.ub {
		if stale(x) {
			continue
		}
		for y, c := range m {
			if stale(y) {
				continue
			}
			if c2, ok := b.boundDiff(x, y); ok {
				n.addUB(x, y, max64(c, c2))
			}
		}
	}
	for x, m := range b.ub {
		if stale(x) {
			continue
		}
		for y, c := range m {
			if stale(y) {
				continue
			}
			if _, done := n.ub[x][y]; done {
				continue
			}
			if c2, ok := a.boundDiff(x, y); ok {
				n.addUB(x, y, max64(c, c2))
			}
		}
	}
	for t := range a.nn {
		if b.nn[t] && !stale(t) {
			n.nn[t] = true
		}
	}
	for t := range a.isnil {
		if b.isnil[t] && !stale(t) {
			n.isnil[t] = true
		}
	}
	for t, ty := range a.dyn {
		if tb, ok := b.dyn[t]; ok && types.Identical(ty, tb) && !stale(t) {
			n.dyn[t] = ty
		}
	}
	for t, v := range a.tbl {
		if w, ok := b.tbl[t]; ok && w == v && !stale(t) {
			n.tbl[t] = v
		}
	}
	for t, v := range a.part {
		if w, ok := b.part[t]; ok && w == v && !stale(t) {
			n.part[t] = v
		}
	}
	// guards: keep those present in both (same object)
	for _, g := range a.guards {
		if stale(g.on) {
			continue
		}
		for _, h := range b.guards {
			if g.on == h.on && g.whenNil == h.whenNil && g.whenNonNil == h.whenNonNil {
				n.guards = append(n.guards, g)
			}
		}
	}
	an.redef = nil
	return n
}

// boundDiff returns the best known c with x <= y + c in s.
func (s *State) boundDiff(x, y *Term) (int64, bool) {
	best := inf
	if c, ok := s.ub[x][y]; ok {
		best = c
	}
	hx, ly := s.upperBound(x), s.lowerBound(y)
	if hx < inf && ly > -inf && hx-ly < best {
		best = hx - ly
	}
	return best, best < inf
}

// mergeInt creates (or reuses) the merge term for two differing linear forms and gives it the hull of their facts.
func (an *Analyzer) mergeInt(n, a, b *State, x, y Lin, key string, typ types.Type) Lin {
	m := an.tt.mk("mphi", key, nil, nil, typ, "")
	if an.redef != nil {
		an.redef[m] = true
	}
	lo, hi := min64(a.lo(x), b.lo(y)), max64(a.hi(x), b.hi(y))
	n.iv[m] = itv{lo, hi}
	// difference bounds against the terms either side relates to
	cands := map[*Term]bool{}
	collect := func(s *State, l Lin) {
		if l.base != nil {
			for t := range s.ub[l.base] {
				cands[t] = true
			}
			for z := range s.rub[l.base] {
				cands[z] = true
			}
		}
	}
	collect(a, x)
	collect(b, y)
	if x.base == nil || y.base == nil {
		// constants merging with something: relate to lengths with a known positive lower bound
		for t, v := range a.iv {
			if t.kind == "len" && v.lo > 0 {
				cands[t] = true
			}
		}
	}
	for t := range cands {
		if t == m {
			continue
		}
		tl := Lin{t, 0}
		// m <= t + c
		ca, oka := a.linDiff(x, tl)
		cb, okb := b.linDiff(y, tl)
		if oka && okb {
			n.addUB(m, t, max64(ca, cb))
		}
		ca, oka = a.linDiff(tl, x)
		cb, okb = b.linDiff(tl, y)
		if oka && okb {
			n.addUB(t, m, max64(ca, cb))
		}
	}
	return Lin{m, 0}
}

// linDiff: best c with x <= y + c.
func (s *State) linDiff(x, y Lin) (int64, bool) {
	switch {
	case x.base == y.base:
		return x.c - y.c, true
	case x.base == nil:
		lb := s.lowerBound(y.base)
		if lb <= -inf {
			return 0, false
		}
		return x.c - (lb + y.c), true
	case y.base == nil:
		ub := s.upperBound(x.base)
		if ub >= inf {
			return 0, false
		}
		return ub + x.c - y.c, true
	}
	c, ok := s.boundDiff(x.base, y.base)
	if !ok {
		return 0, false
	}
	return c + x.c - y.c, true
}

// mergeRef creates the merge term for two differing reference terms.
func (an *Analyzer) mergeRef(n, a, b *State, x, y *Term, key string) *Term {
	if x == nil || y == nil {
		return nil
	}
	var typ types.Type
	if x.typ != nil {
		typ = x.typ
	}
	m := an.tt.mk("mphi", key, nil, nil, typ, "")
	if an.redef != nil {
		an.redef[m] = true
	}
	if (a.nn[x] || x == m && a.nn[m]) && (b.nn[y] || y == m && b.nn[m]) {
		n.nn[m] = true
	}
	if a.isnil[x] && b.isnil[y] {
		n.isnil[m] = true
	}
	da, oka := a.dyn[x]
	db, okb := b.dyn[y]
	if oka && okb && types.Identical(da, db) {
		n.dyn[m] = da
	}
	// length and capacity facts
	for _, mk := range []func(*Term) *Term{an.lenTerm, an.capTerm} {
		lx, ly := mk(x), mk(y)
		lm := mk(m)
		ia, ib := a.getIv(lx), b.getIv(ly)
		if _, ok := a.iv[lx]; !ok && lx.kind == "cap" {
			ia = itv{a.lo(Lin{an.lenTerm(x), 0}), inf}
		}
		if _, ok := b.iv[ly]; !ok && ly.kind == "cap" {
			ib = itv{b.lo(Lin{an.lenTerm(y), 0}), inf}
		}
		n.iv[lm] = itv{min64(ia.lo, ib.lo), max64(ia.hi, ib.hi)}
		cands := map[*Term]bool{}
		for t := range a.ub[lx] {
			cands[t] = true
		}
		for t := range b.ub[ly] {
			cands[t] = true
		}
		for z := range a.rub[lx] {
			cands[z] = true
		}
		for z := range b.rub[ly] {
			cands[z] = true
		}
		for t := range cands {
			if t == lm || (an.redef != nil && (an.redef[t] || (t.a != nil && an.redef[t.a]))) {
				continue
			}
			ca, oka := a.linDiff(Lin{lx, 0}, Lin{t, 0})
			cb, okb := b.linDiff(Lin{ly, 0}, Lin{t, 0})
			if oka && okb {
				n.addUB(lm, t, max64(ca, cb))
			}
			ca, oka = a.linDiff(Lin{t, 0}, Lin{lx, 0})
			cb, okb = b.linDiff(Lin{t, 0}, Lin{ly, 0})
			if oka && okb {
				n.addUB(t, lm, max64(ca, cb))
			}
		}
	}
	if _, isSlice := typUnder(typ).(*types.Slice); isSlice {
		n.addUB(an.lenTerm(m), an.capTerm(m), 0)
	}
	return m
}

// ---- meet with a conditional-summary snapshot ----

func (s *State) meetWith(o *State) {
	for t, v := range o.iv {
		s.meetIv(t, v.lo, v.hi)
	}
	for x, m := range o.ub {
		for y, c := range m {
			s.addUB(x, y, c)
		}
	}
	for t := range o.nn {
		s.setNonNil(t)
	}
	for t := range o.isnil {
		s.setNil(t)
	}
	for t, ty := range o.dyn {
		if _, ok := s.dyn[t]; !ok {
			s.dyn[t] = ty
		}
	}
	for k, v := range o.vals {
		if _, ok := s.vals[k]; !ok {
			s.vals[k] = v
		}
	}
	for k, v := range o.ints {
		if _, ok := s.ints[k]; !ok {
			s.ints[k] = v
		}
	}
	for addr, c := range o.mem {
		cls := addrClass(addr)
		if effEpoch(s, cls) == effEpoch(o, cls) {
			if _, ok := s.mem[addr]; !ok {
				s.mem[addr] = c
			}
		}
	}
	for t, v := range o.tbl {
		if _, ok := s.tbl[t]; !ok {
			s.tbl[t] = v
		}
	}
}

// equalStates compares the fact sets (used for the fixpoint test).
func equalStates(a, b *State) bool {
	if a.dead != b.dead {
		return false
	}
	if len(a.vals) != len(b.vals) || len(a.ints) != len(b.ints) || len(a.mem) != len(b.mem) || len(a.iv) != len(b.iv) || len(a.nn) != len(b.nn) ||
		len(a.isnil) != len(b.isnil) || len(a.dyn) != len(b.dyn) || len(a.epoch) != len(b.epoch) || len(a.guards) != len(b.guards) || len(a.tuples) != len(b.tuples) {
		return false
	}
	for k, v := range a.vals {
		if b.vals[k] != v {
			return false
		}
	}
	for k, v := range a.ints {
		if b.ints[k] != v {
			return false
		}
	}
	for k, v := range a.mem {
		if w, ok := b.mem[k]; !ok || !w.same(v) {
			return false
		}
	}
	for k, v := range a.iv {
		if w, ok := b.iv[k]; !ok || w != v {
			return false
		}
	}
	for k, v := range a.epoch {
		if b.epoch[k] != v {
			return false
		}
	}
	for k := range a.nn {
		if !b.nn[k] {
			return false
		}
	}
	for k := range a.isnil {
		if !b.isnil[k] {
			return false
		}
	}
	na, nb := 0, 0
	for x, m := range a.ub {
		for y, c := range m {
			na++
			if c2, ok := b.ub[x][y]; !ok || c2 != c {
				return false
			}
		}
	}
	for _, m := range b.ub {
		nb += len(m)
	}
	return na == nb
}

// ---- separation: what a callee cannot reach stays with the caller ----

// reachMarks computes the terms reachable from the given roots through memory.
func (an *Analyzer) reachMarks(s *State, roots []cell) map[*Term]bool {
	marked := map[*Term]bool{}
	var mark func(t *Term)
	mark = func(t *Term) {
		if t == nil || marked[t] {
			return
		}
		marked[t] = true
		mark(t.a)
		mark(t.b)
	}
	for _, c := range roots {
		if c.int {
			mark(c.lin.base)
		} else {
			mark(c.t)
		}
	}
	for _, ts := range s.tbl {
		mark(ts.arg)
	}
	for t := range s.part {
		mark(t)
	}
	reach := func(addr *Term) bool {
		for x := addr; x != nil; x = x.a {
			if marked[x] || x.kind == "global" {
				return true
			}
			if x.kind != "addr" && x.kind != "boxaddr" && x.kind != "sval" {
				break
			}
		}
		return false
	}
	for changed := true; changed; {
		changed = false
		for addr, c := range s.mem {
			if marked[addr] && (c.int && (c.lin.base == nil || marked[c.lin.base]) || !c.int && (c.t == nil || marked[c.t])) {
				continue
			}
			if !reach(addr) {
				continue
			}
			if !marked[addr] {
				mark(addr)
				changed = true
			}
			if c.int {
				if c.lin.base != nil && !marked[c.lin.base] {
					mark(c.lin.base)
					changed = true
				}
			} else if c.t != nil && !marked[c.t] {
				mark(c.t)
				changed = true
			}
		}
	}
	return marked
}

func termLive(marked map[*Term]bool, t *Term) bool {
	if t == nil || marked[t] {
		return true
	}
	switch t.kind {
	case "len", "cap":
		return termLive(marked, t.a)
	case "add":
		return termLive(marked, t.a) && termLive(marked, t.b)
	case "const", "global", "func":
		return true
	}
	return false
}

// splitForCallee moves everything the callee cannot reach into a separate "rest" state.
func (an *Analyzer) splitForCallee(s *State, roots []cell) (callee, rest *State) {
	marked := an.reachMarks(s, roots)
	callee, rest = newState(), newState()
	for addr, c := range s.mem {
		if marked[addr] {
			callee.mem[addr] = c
		} else {
			rest.mem[addr] = c
		}
	}
	for k, v := range s.epoch {
		callee.epoch[k] = v
	}
	for t, v := range s.iv {
		if termLive(marked, t) {
			callee.iv[t] = v
		} else {
			rest.iv[t] = v
		}
	}
	for x, m := range s.ub {
		for y, c := range m {
			if termLive(marked, x) && termLive(marked, y) {
				callee.addUB(x, y, c)
			} else {
				rest.addUB(x, y, c)
			}
		}
	}
	for t := range s.nn {
		if termLive(marked, t) {
			callee.nn[t] = true
		} else {
			rest.nn[t] = true
		}
	}
	for t := range s.isnil {
		if termLive(marked, t) {
			callee.isnil[t] = true
		} else {
			rest.isnil[t] = true
		}
	}
	for t, ty := range s.dyn {
		if termLive(marked, t) {
			callee.dyn[t] = ty
		} else {
			rest.dyn[t] = ty
		}
	}
	for t, v := range s.tbl {
		callee.tbl[t] = v
	}
	for t, v := range s.part {
		callee.part[t] = v
	}
	return callee, rest
}

// reattach merges the caller-only part back after the call.
func (s *State) reattach(rest *State) {
	for addr, c := range rest.mem {
		if _, ok := s.mem[addr]; !ok {
			s.mem[addr] = c
		}
	}
	for t, v := range rest.iv {
		if _, ok := s.iv[t]; !ok {
			s.iv[t] = v
		}
	}
	for x, m := range rest.ub {
		for y, c := range m {
			s.addUB(x, y, c)
		}
	}
	for t := range rest.nn {
		s.nn[t] = true
	}
	for t := range rest.isnil {
		s.isnil[t] = true
	}
	for t, ty := range rest.dyn {
		if _, ok := s.dyn[t]; !ok {
			s.dyn[t] = ty
		}
	}
}

func typUnder(t types.Type) types.Type {
	if t == nil {
		return nil
	}
	return t.Underlying()
}

// diffStates names the first difference between two states (debugging aid for non-converging loops).
func diffStates(a, b *State) string {
	if a.dead != b.dead {
		return "dead"
	}
	for k, v := range a.vals {
		if b.vals[k] != v {
			return fmt.Sprintf("vals[%s]: %v -> %v", k.v.Name(), v, b.vals[k])
		}
	}
	for k := range b.vals {
		if _, ok := a.vals[k]; !ok {
			return fmt.Sprintf("vals[%s] new", k.v.Name())
		}
	}
	for k, v := range a.ints {
		if b.ints[k] != v {
			return fmt.Sprintf("ints[%s]: %v -> %v", k.v.Name(), v, b.ints[k])
		}
	}
	for k := range b.ints {
		if _, ok := a.ints[k]; !ok {
			return fmt.Sprintf("ints[%s] new", k.v.Name())
		}
	}
	for k, v := range a.mem {
		if w, ok := b.mem[k]; !ok {
			return fmt.Sprintf("mem[%v] gone", k)
		} else if !w.same(v) {
			return fmt.Sprintf("mem[%v]: %v -> %v", k, v, w)
		}
	}
	for k := range b.mem {
		if _, ok := a.mem[k]; !ok {
			return fmt.Sprintf("mem[%v] new", k)
		}
	}
	for k, v := range a.iv {
		if w, ok := b.iv[k]; !ok {
			return fmt.Sprintf("iv[%v] gone", k)
		} else if w != v {
			return fmt.Sprintf("iv[%v]: %v -> %v", k, v, w)
		}
	}
	for k := range b.iv {
		if _, ok := a.iv[k]; !ok {
			return fmt.Sprintf("iv[%v] new", k)
		}
	}
	for k, v := range a.epoch {
		if b.epoch[k] != v {
			return fmt.Sprintf("epoch[%s]: %s -> %s", k, v, b.epoch[k])
		}
	}
	for k := range a.nn {
		if !b.nn[k] {
			return fmt.Sprintf("nn[%v] gone", k)
		}
	}
	for k := range b.nn {
		if !a.nn[k] {
			return fmt.Sprintf("nn[%v] new", k)
		}
	}
	for k := range a.isnil {
		if !b.isnil[k] {
			return fmt.Sprintf("isnil[%v] gone", k)
		}
	}
	for k := range b.isnil {
		if !a.isnil[k] {
			return fmt.Sprintf("isnil[%v] new", k)
		}
	}
	if len(a.dyn) != len(b.dyn) {
		return "dyn size"
	}
	if len(a.guards) != len(b.guards) {
		return fmt.Sprintf("guards %d -> %d", len(a.guards), len(b.guards))
	}
	if len(a.tuples) != len(b.tuples) {
		return "tuples size"
	}
	for x, m := range a.ub {
		for y, c := range m {
			if c2, ok := b.ub[x][y]; !ok {
				return fmt.Sprintf("ub[%v][%v] gone", x, y)
			} else if c2 != c {
				return fmt.Sprintf("ub[%v][%v]: %d -> %d", x, y, c, c2)
			}
		}
	}
	for x, m := range b.ub {
		for y := range m {
			if _, ok := a.ub[x][y]; !ok {
				return fmt.Sprintf("ub[%v][%v] new", x, y)
			}
		}
	}
	return "?"
}
