package obl

import (
	"fmt"
	"go/token"
	"go/types"
	"strings"

	"golang.org/x/tools/go/ssa"
)

// addrOf returns the address term of an address-valued SSA value.
func (an *Analyzer) addrOf(s *State, f *Frame, v ssa.Value) *Term {
	switch x := v.(type) {
	case *ssa.Alloc:
		t := an.allocTerm(f, x)
		s.nn[t] = true
		return t
	case *ssa.Global:
		t := an.globalTerm(x)
		s.nn[t] = true
		return t
	}
	if t, ok := s.vals[vkey{f, v}]; ok {
		return t
	}
	return an.valTerm(f, v)
}

// step executes one instruction abstractly. `final` records obligations.
func (an *Analyzer) step(s *State, f *Frame, ins ssa.Instruction, final bool) {
	switch i := ins.(type) {
	case *ssa.Alloc:
		t := an.allocTerm(f, i)
		s.nn[t] = true
		// a fresh object: its content is the zero value; forget anything known about a previous incarnation
		by := fmt.Sprintf("alloc:%p@%s", i, f.key)
		for a2 := range s.mem {
			if rootOf(a2) == t {
				delete(s.mem, a2)
			}
		}
		s.epoch[addrClass(t)] = by
		s.epoch["obj:"+t.key] = by
		an.zeroInit(s, t, i.Type().Underlying().(*types.Pointer).Elem())
	case *ssa.FieldAddr:
		base := an.addrOf(s, f, i.X)
		an.oblNonNil(s, f, i, base, "field access through "+i.X.Name(), final)
		st := i.X.Type().Underlying().(*types.Pointer).Elem()
		t := an.fieldAddr(base, i.Field, st, i.Type())
		s.vals[vkey{f, i}] = t
		s.nn[t] = true
	case *ssa.IndexAddr:
		var base *Term
		var n Lin
		var et types.Type
		switch xt := i.X.Type().Underlying().(type) {
		case *types.Slice:
			base = an.refOf(s, f, i.X)
			n = Lin{an.lenTerm(base), 0}
			et = xt.Elem()
			if an.cfg.SliceInvariant != nil {
				if ln, _, ok := an.cfg.SliceInvariant(i.X.Type()); ok {
					s.meetIv(an.lenTerm(base), ln, ln)
				}
			}
		case *types.Pointer:
			base = an.addrOf(s, f, i.X)
			arr := xt.Elem().Underlying().(*types.Array)
			n = Lin{nil, arr.Len()}
			et = arr.Elem()
			an.oblNonNil(s, f, i, base, "array pointer "+i.X.Name(), final)
		}
		idx := an.linOf(s, f, i.Index)
		an.oblIndex(s, f, i, idx, n, fmt.Sprintf("%s[%s]", exprOf(i.X), exprOf(i.Index)), final)
		// after the check the index is known to be in range
		s.assumeLE(Lin{nil, 0}, idx, 0)
		s.assumeLE(idx, n, -1)
		t := an.elemAddr(base, idx, types.NewPointer(et))
		s.vals[vkey{f, i}] = t
		s.nn[t] = true
	case *ssa.Index:
		switch xt := i.X.Type().Underlying().(type) {
		case *types.Array:
			idx := an.linOf(s, f, i.Index)
			an.oblIndex(s, f, i, idx, Lin{nil, xt.Len()}, fmt.Sprintf("%s[%s]", exprOf(i.X), exprOf(i.Index)), final)
		case *types.Basic: // string
			base := an.refOf(s, f, i.X)
			idx := an.linOf(s, f, i.Index)
			an.oblIndex(s, f, i, idx, Lin{an.lenTerm(base), 0}, fmt.Sprintf("%s[%s]", exprOf(i.X), exprOf(i.Index)), final)
		}
		an.fresh(s, f, i)
	case *ssa.Field:
		base := an.refOf(s, f, i.X)
		st := i.X.Type().Underlying().(*types.Struct)
		ft := st.Field(i.Field).Type()
		if fc, ok := s.mem[an.svalAddr(base, i.Field)]; ok {
			an.bind(s, f, i, fc)
			return
		}
		t := an.tt.mk("fld", fmt.Sprintf("%s.%d", base.key, i.Field), base, nil, ft, fmt.Sprintf("%s.#%d", base, i.Field))
		if isIntType(ft) {
			s.ints[vkey{f, i}] = Lin{t, 0}
		} else {
			s.vals[vkey{f, i}] = t
		}
	case *ssa.UnOp:
		an.stepUnOp(s, f, i, final)
	case *ssa.Store:
		addr := an.addrOf(s, f, i.Addr)
		an.oblNonNil(s, f, i, addr, "store through "+i.Addr.Name(), final)
		an.store(s, addr, an.cellOf(s, f, i.Val), fmt.Sprintf("st:%p@%s", i, f.key))
	case *ssa.BinOp:
		an.stepBinOp(s, f, i, final)
	case *ssa.Convert:
		an.stepConvert(s, f, i)
	case *ssa.ChangeType:
		an.bind(s, f, i, an.cellOf(s, f, i.X))
	case *ssa.ChangeInterface:
		an.bind(s, f, i, an.cellOf(s, f, i.X))
	case *ssa.MakeInterface:
		t := an.tt.mk("iface", f.key+"|"+fmt.Sprintf("%p", i), nil, nil, i.Type(), "iface("+i.X.Name()+")")
		s.vals[vkey{f, i}] = t
		s.nn[t] = true
		s.dyn[t] = i.X.Type()
		// remember the boxed value
		an.box(s, t, an.cellOf(s, f, i.X))
	case *ssa.MakeSlice:
		t := an.valTerm(f, i)
		s.vals[vkey{f, i}] = t
		s.nn[t] = true
		l := an.linOf(s, f, i.Len)
		cp := an.linOf(s, f, i.Cap)
		an.oblMake(s, f, i, l, cp, final)
		lt := an.lenTerm(t)
		an.eqLin(s, lt, l)
		an.eqLin(s, an.capTerm(t), cp)
		s.meetIv(lt, 0, inf)
	case *ssa.MakeMap:
		t := an.valTerm(f, i)
		s.vals[vkey{f, i}] = t
		s.nn[t] = true
		if final && i.Reserve != nil {
			if _, isConst := i.Reserve.(*ssa.Const); !isConst {
				sz := an.linOf(s, f, i.Reserve)
				hi := s.hi(sz)
				_, _, byLen := an.existingLenBound(s, sz)
				an.record(f, i, "K12", "make(map, "+exprOf(i.Reserve)+")", hi <= an.cfg.AllocBound || byLen, fmt.Sprintf("map size hint %s has no upper bound that is a constant or the length of an existing buffer (range %s)", sz, itv{s.lo(sz), hi}), s)
			}
		}
	case *ssa.MakeChan:
		t := an.valTerm(f, i)
		s.vals[vkey{f, i}] = t
		s.nn[t] = true
		if final {
			sz := an.linOf(s, f, i.Size)
			an.record(f, i, "K5", "make(chan, "+exprOf(i.Size)+")", s.proveLE(Lin{nil, 0}, sz, 0), "size may be negative", s)
		}
	case *ssa.MakeClosure:
		t := an.valTerm(f, i)
		s.vals[vkey{f, i}] = t
		s.nn[t] = true
	case *ssa.Slice:
		an.stepSlice(s, f, i, final)
	case *ssa.Phi:
		// handled on edges
	case *ssa.Extract:
		if tup, ok := s.tuples[vkey{f, i.Tuple}]; ok && i.Index < len(tup) {
			an.bind(s, f, i, tup[i.Index])
		} else {
			an.fresh(s, f, i)
		}
	case *ssa.TypeAssert:
		x := an.refOf(s, f, i.X)
		if !i.CommaOk {
			ok := false
			if dt, known := s.dyn[x]; known {
				if _, isIface := i.AssertedType.Underlying().(*types.Interface); isIface {
					ok = types.Implements(dt, i.AssertedType.Underlying().(*types.Interface))
				} else {
					ok = types.Identical(dt, i.AssertedType)
				}
			}
			if !ok && an.cfg.PoolOK != nil {
				if g := poolGetOrigin(i.X); g != nil && an.cfg.PoolOK(g) {
					ok = true
					if final {
						an.recordAssumed(f, i, "K3", exprOf(i.X)+".("+i.AssertedType.String()+")", "pool "+g.Name()+" only ever holds []byte of one size (rule R12.7, checked in this run)")
					}
					an.bindAsserted(s, f, i, x)
					return
				}
			}
			if final {
				an.record(f, i, "K3", exprOf(i.X)+".("+types.TypeString(i.AssertedType, nil)+")", ok, "dynamic type of "+i.X.Name()+" not known to be "+i.AssertedType.String(), s)
			}
			s.dyn[x] = i.AssertedType
			an.bindAsserted(s, f, i, x)
		} else {
			// (value, ok): value facts are attached on the ok edge
			vt := an.tt.mk("asrt", f.key+"|"+fmt.Sprintf("%p", i), x, nil, i.AssertedType, i.Name())
			okT := an.tt.mk("asrtok", f.key+"|"+fmt.Sprintf("%p", i), x, nil, types.Typ[types.Bool], i.Name()+".ok")
			var c0 cell
			if isIntType(i.AssertedType) {
				c0 = cell{int: true, lin: Lin{vt, 0}}
			} else {
				c0 = cell{t: vt}
			}
			s.tuples[vkey{f, i}] = []cell{c0, {t: okT}}
		}
	case *ssa.Lookup:
		if _, isMap := i.X.Type().Underlying().(*types.Map); !isMap {
			base := an.refOf(s, f, i.X)
			idx := an.linOf(s, f, i.Index)
			an.oblIndex(s, f, i, idx, Lin{an.lenTerm(base), 0}, fmt.Sprintf("%s[%s]", exprOf(i.X), exprOf(i.Index)), final)
		}
		if i.CommaOk {
			t := an.valTerm(f, i)
			var c0 cell
			et := i.Type().(*types.Tuple).At(0).Type()
			if isIntType(et) {
				c0 = cell{int: true, lin: Lin{an.tt.mk("lk", t.key, nil, nil, et, i.Name()+"#0"), 0}}
			} else {
				c0 = cell{t: an.tt.mk("lk", t.key, nil, nil, et, i.Name()+"#0")}
			}
			s.tuples[vkey{f, i}] = []cell{c0, {t: an.tt.mk("lkok", t.key, nil, nil, types.Typ[types.Bool], i.Name()+"#1")}}
		} else {
			an.fresh(s, f, i)
		}
	case *ssa.MapUpdate:
		m := an.refOf(s, f, i.Map)
		an.oblNonNil(s, f, i, m, "assignment to entry of map "+exprOf(i.Map), final)
		s.guards = nil
	case *ssa.Range, *ssa.Next:
		if v, ok := ins.(ssa.Value); ok {
			an.fresh(s, f, v)
			if nx, ok := ins.(*ssa.Next); ok {
				delete(s.tuples, vkey{f, nx})
			}
		}
	case *ssa.Select:
		an.fresh(s, f, i)
		// index in [0, len(states)-1] for blocking selects, [-1, ..] otherwise
		tup := i.Type().(*types.Tuple)
		cells := make([]cell, tup.Len())
		for k := 0; k < tup.Len(); k++ {
			et := tup.At(k).Type()
			tt := an.tt.mk("sel", f.key+"|"+fmt.Sprintf("%p#%d", i, k), nil, nil, et, fmt.Sprintf("%s#%d", i.Name(), k))
			if isIntType(et) {
				cells[k] = cell{int: true, lin: Lin{tt, 0}}
			} else {
				cells[k] = cell{t: tt}
			}
		}
		lo := int64(0)
		if !i.Blocking {
			lo = -1
		}
		s.iv[cells[0].lin.base] = itv{lo, int64(len(i.States) - 1)}
		s.tuples[vkey{f, i}] = cells
		s.guards = nil
	case *ssa.Send, *ssa.Go, *ssa.Defer, *ssa.RunDefers, *ssa.DebugRef:
		if _, isSend := ins.(*ssa.Send); isSend {
			s.guards = nil
		}
	case *ssa.Panic:
		if final {
			ok := false
			if isSelectPanicInstr(i) {
				ok = s.dead
			}
			an.record(f, i, "K6", "panic", ok || s.dead, "explicit panic reachable", s)
		}
	case *ssa.Call:
		an.stepCall(s, f, i, final)
	case *ssa.If, *ssa.Jump, *ssa.Return:
	default:
		if v, ok := ins.(ssa.Value); ok {
			an.fresh(s, f, v)
		}
	}
}

func isSelectPanicInstr(p *ssa.Panic) bool {
	if mi, ok := p.X.(*ssa.MakeInterface); ok {
		if c, ok := mi.X.(*ssa.Const); ok && c.Value != nil && strings.Contains(c.Value.ExactString(), "blocking select matched no case") {
			return true
		}
	}
	return false
}

func poolGetOrigin(v ssa.Value) *ssa.Global {
	c, ok := v.(*ssa.Call)
	if !ok {
		return nil
	}
	if f := c.Common().StaticCallee(); f == nil || f.String() != "(*sync.Pool).Get" {
		return nil
	}
	if u, ok := c.Common().Args[0].(*ssa.UnOp); ok && u.Op == token.MUL {
		if g, ok := u.X.(*ssa.Global); ok {
			return g
		}
	}
	return nil
}

func (an *Analyzer) bindAsserted(s *State, f *Frame, i *ssa.TypeAssert, x *Term) {
	if b, ok := an.unbox(s, x); ok {
		an.bind(s, f, i, b)
		return
	}
	an.fresh(s, f, i)
}

// boxed contents of interface terms
func (an *Analyzer) box(s *State, iface *Term, c cell) {
	bt := an.tt.mk("boxaddr", iface.key, iface, nil, nil, "box("+iface.String()+")")
	s.mem[bt] = c
	addrClasses[bt] = "B:" + iface.key
}

func (an *Analyzer) unbox(s *State, iface *Term) (cell, bool) {
	bt := an.tt.mk("boxaddr", iface.key, iface, nil, nil, "box("+iface.String()+")")
	c, ok := s.mem[bt]
	return c, ok
}

// fresh binds a value to its own opaque term (dropping stale facts from a previous iteration is not needed:
// facts are attached to terms that are re-derived each time).
func (an *Analyzer) fresh(s *State, f *Frame, v ssa.Value) {
	k := vkey{f, v}
	delete(s.vals, k)
	delete(s.ints, k)
	delete(s.tuples, k)
	if tup, ok := v.Type().(*types.Tuple); ok {
		cells := make([]cell, tup.Len())
		base := an.valTerm(f, v)
		for i := 0; i < tup.Len(); i++ {
			et := tup.At(i).Type()
			t := an.tt.mk("tup", fmt.Sprintf("%s#%d", base.key, i), nil, nil, et, fmt.Sprintf("%s#%d", v.Name(), i))
			if isIntType(et) {
				cells[i] = cell{int: true, lin: Lin{t, 0}}
			} else {
				cells[i] = cell{t: t}
			}
		}
		s.tuples[k] = cells
	}
}

func (an *Analyzer) eqLin(s *State, t *Term, l Lin) {
	if l.base == nil {
		s.iv[t] = itv{l.c, l.c}
		return
	}
	s.addUB(t, l.base, l.c)
	s.addUB(l.base, t, -l.c)
	s.iv[t] = itv{s.lo(l), s.hi(l)}
}

// zeroInit binds the fields of a freshly allocated object to zero values (nil pointers/slices/maps, 0 ints).
func (an *Analyzer) zeroInit(s *State, addr *Term, t types.Type) {
	switch u := t.Underlying().(type) {
	case *types.Struct:
		if u.NumFields() > 64 {
			return
		}
		for i := 0; i < u.NumFields(); i++ {
			fa := an.fieldAddr(addr, i, t, types.NewPointer(u.Field(i).Type()))
			an.zeroCell(s, fa, u.Field(i).Type())
		}
	default:
		an.zeroCell(s, addr, t)
	}
}

func (an *Analyzer) zeroCell(s *State, addr *Term, t types.Type) {
	switch u := t.Underlying().(type) {
	case *types.Basic:
		if u.Info()&types.IsInteger != 0 {
			s.mem[addr] = cell{int: true, lin: Lin{nil, 0}}
		}
	case *types.Pointer, *types.Map, *types.Chan, *types.Signature, *types.Interface:
		z := an.tt.mk("const", "zero:"+t.String(), nil, nil, t, "nil")
		s.isnil[z] = true
		s.mem[addr] = cell{t: z}
	case *types.Slice:
		z := an.tt.mk("const", "zero:"+t.String(), nil, nil, t, "nil")
		s.isnil[z] = true
		s.iv[an.lenTerm(z)] = itv{0, 0}
		s.mem[addr] = cell{t: z}
	}
}

func (an *Analyzer) stepUnOp(s *State, f *Frame, i *ssa.UnOp, final bool) {
	switch i.Op {
	case token.MUL:
		addr := an.addrOf(s, f, i.X)
		an.oblNonNil(s, f, i, addr, "load through "+i.X.Name(), final)
		c := an.load(s, addr)
		if g, isG := i.X.(*ssa.Global); isG {
			if an.cfg.GlobalNonNil != nil && !c.int && c.t != nil && an.cfg.GlobalNonNil(g) {
				s.nn[c.t] = true
			}
			if an.cfg.GlobalConst != nil && isIntType(i.Type()) {
				if v, ok := an.cfg.GlobalConst(g); ok {
					c = cell{int: true, lin: Lin{nil, v}}
				}
			}
		}
		if ia, isIA := i.X.(*ssa.IndexAddr); isIA && an.cfg.SliceInvariant != nil && !c.int && c.t != nil {
			if _, nn, ok := an.cfg.SliceInvariant(ia.X.Type()); ok && nn {
				s.nn[c.t] = true
			}
		}
		if fa, isFA := i.X.(*ssa.FieldAddr); isFA && an.cfg.FieldNonNil != nil && !c.int && c.t != nil {
			if an.cfg.FieldNonNil(fa.X.Type().Underlying().(*types.Pointer).Elem(), fa.Field) && !s.isnil[c.t] {
				s.nn[c.t] = true
			}
		}
		if st, isStruct := i.Type().Underlying().(*types.Struct); isStruct && addr.kind == "alloc" {
			if _, bound := s.mem[addr]; !bound {
				// snapshot of a local struct: remember the field contents under the value term
				vt := an.valTerm(f, i)
				for k := 0; k < st.NumFields() && k < 64; k++ {
					fa := an.fieldAddr(addr, k, i.Type(), types.NewPointer(st.Field(k).Type()))
					if fc, ok := s.mem[fa]; ok {
						s.mem[an.svalAddr(vt, k)] = fc
					}
				}
				c = cell{t: vt}
			}
		}
		if isIntType(i.Type()) && !c.int {
			c = cell{int: true, lin: Lin{an.valTerm(f, i), 0}}
		}
		if !isIntType(i.Type()) && c.int {
			c = cell{t: an.valTerm(f, i)}
		}
		an.bind(s, f, i, c)
		if _, ok := s.mem[addr]; !ok {
			s.mem[addr] = c
		}
	case token.ARROW:
		an.fresh(s, f, i)
		if i.CommaOk {
			// already a tuple of fresh cells
		}
		s.guards = nil
	case token.SUB:
		if isIntType(i.Type()) {
			x := an.linOf(s, f, i.X)
			if x.base == nil {
				s.ints[vkey{f, i}] = Lin{nil, -x.c}
				return
			}
		}
		an.fresh(s, f, i)
	default:
		an.fresh(s, f, i)
	}
}

func (an *Analyzer) stepConvert(s *State, f *Frame, i *ssa.Convert) {
	st, dt := i.X.Type(), i.Type()
	if isIntType(st) && isIntType(dt) {
		x := an.linOf(s, f, i.X)
		sr, dr := typeRange(st), typeRange(dt)
		lo, hi := s.lo(x), s.hi(x)
		if lo < sr.lo {
			lo = sr.lo
		}
		if hi > sr.hi {
			hi = sr.hi
		}
		// value preserving iff the source range (as currently known) fits the destination type
		if lo >= dr.lo && hi <= dr.hi {
			s.ints[vkey{f, i}] = x
			if x.base != nil {
				s.meetIv(x.base, lo-x.c, hi-x.c)
			}
			return
		}
		t := an.valTerm(f, i)
		s.ints[vkey{f, i}] = Lin{t, 0}
		s.iv[t] = dr
		return
	}
	// []byte <-> string: lengths are preserved
	if t, ok := s.vals[vkey{f, i.X}]; ok || !isIntType(st) {
		if !ok {
			t = an.refOf(s, f, i.X)
		}
		nt := an.valTerm(f, i)
		s.vals[vkey{f, i}] = nt
		_, sSlice := st.Underlying().(*types.Slice)
		_, dSlice := dt.Underlying().(*types.Slice)
		sb, sStr := st.Underlying().(*types.Basic)
		db, dStr := dt.Underlying().(*types.Basic)
		if (sSlice && dStr && db.Kind() == types.String) || (dSlice && sStr && sb.Kind() == types.String) || (sSlice && dSlice) {
			an.eqLin(s, an.lenTerm(nt), Lin{an.lenTerm(t), 0})
			s.nn[nt] = true
		}
		return
	}
	an.fresh(s, f, i)
}

func (an *Analyzer) stepBinOp(s *State, f *Frame, i *ssa.BinOp, final bool) {
	if !isIntType(i.Type()) {
		if isStringType(i.Type()) && i.Op == token.ADD {
			t := an.valTerm(f, i)
			s.vals[vkey{f, i}] = t
			return
		}
		an.fresh(s, f, i)
		return
	}
	x, y := an.linOf(s, f, i.X), an.linOf(s, f, i.Y)
	tr := typeRange(i.Type())
	k := vkey{f, i}
	setRange := func(lo, hi int64) {
		t := an.valTerm(f, i)
		s.ints[k] = Lin{t, 0}
		if lo < tr.lo {
			lo = tr.lo
		}
		if hi > tr.hi {
			hi = tr.hi
		}
		s.iv[t] = itv{lo, hi}
	}
	switch i.Op {
	case token.ADD:
		lo, hi := addSat(s.lo(x), s.lo(y)), addSat(s.hi(x), s.hi(y))
		if lo < tr.lo || hi > tr.hi { // may wrap
			setRange(tr.lo, tr.hi)
			return
		}
		switch {
		case y.base == nil:
			s.ints[k] = Lin{x.base, x.c + y.c}
		case x.base == nil:
			s.ints[k] = Lin{y.base, x.c + y.c}
		default:
			t := an.addTerm(x.base, y.base, i.Type())
			s.ints[k] = Lin{t, x.c + y.c}
			s.meetIv(t, addSat(s.lowerBound(x.base), s.lowerBound(y.base)), addSat(s.upperBound(x.base), s.upperBound(y.base)))
			// x <= x+y when y >= 0 (and symmetrically)
			if ly := s.lowerBound(y.base); ly > -inf {
				s.addUB(x.base, t, -ly)
			}
			if lx := s.lowerBound(x.base); lx > -inf {
				s.addUB(y.base, t, -lx)
			}
			if hy := s.upperBound(y.base); hy < inf {
				s.addUB(t, x.base, hy)
			}
			if hx := s.upperBound(x.base); hx < inf {
				s.addUB(t, y.base, hx)
			}
		}
	case token.SUB:
		lo, hi := addSat(s.lo(x), -s.hi(y)), addSat(s.hi(x), -s.lo(y))
		if s.hi(y) >= inf {
			lo = -inf
		}
		if s.lo(y) <= -inf {
			hi = inf
		}
		if lo < tr.lo || hi > tr.hi {
			setRange(tr.lo, tr.hi)
			return
		}
		switch {
		case y.base == nil:
			s.ints[k] = Lin{x.base, x.c - y.c}
		case x.base == y.base:
			s.ints[k] = Lin{nil, x.c - y.c}
		default:
			t := an.valTerm(f, i)
			s.ints[k] = Lin{t, 0}
			s.iv[t] = itv{lo, hi}
			// t = x - y: with y >= 0, t <= x ; t + y = x
			if s.lo(y) >= 0 && x.base != nil {
				s.addUB(t, x.base, x.c)
			}
			if y.base != nil && x.base == nil {
				// t = c - y
			}
		}
	case token.MUL:
		if y.base == nil && x.base == nil {
			s.ints[k] = Lin{nil, x.c * y.c}
			return
		}
		lx, hx, ly, hy := s.lo(x), s.hi(x), s.lo(y), s.hi(y)
		if lx >= 0 && ly >= 0 && hx < (1<<30) && hy < (1<<30) {
			if hx*hy <= tr.hi {
				setRange(lx*ly, hx*hy)
				return
			}
		}
		setRange(tr.lo, tr.hi)
	case token.QUO, token.REM:
		if final {
			nz := s.lo(y) > 0 || s.hi(y) < 0
			an.record(f, i, "K4", exprOf(i.X)+i.Op.String()+exprOf(i.Y), nz, "divisor "+exprOf(i.Y)+" may be zero", s)
		}
		if y.base == nil && y.c > 0 {
			c := y.c
			if i.Op == token.REM {
				if isUnsigned(i.Type()) || s.lo(x) >= 0 {
					setRange(0, c-1)
				} else {
					setRange(-(c - 1), c-1)
				}
			} else if s.lo(x) >= 0 {
				setRange(s.lo(x)/c, divHi(s.hi(x), c))
			} else {
				setRange(tr.lo, tr.hi)
			}
			return
		}
		setRange(tr.lo, tr.hi)
	case token.AND:
		if c, ok := constInt(i.Y); ok && c >= 0 {
			setRange(0, c)
			return
		}
		if c, ok := constInt(i.X); ok && c >= 0 {
			setRange(0, c)
			return
		}
		if s.lo(x) >= 0 && s.lo(y) >= 0 {
			setRange(0, min64(s.hi(x), s.hi(y)))
			return
		}
		setRange(tr.lo, tr.hi)
	case token.OR, token.XOR:
		if s.lo(x) >= 0 && s.lo(y) >= 0 && s.hi(x) < inf && s.hi(y) < inf {
			setRange(0, nextPow2(max64(s.hi(x), s.hi(y)))-1)
			return
		}
		setRange(tr.lo, tr.hi)
	case token.SHL:
		if final && !isUnsigned(i.Y.Type()) {
			if _, isC := constInt(i.Y); !isC {
				an.record(f, i, "K10", exprOf(i.X)+"<<"+exprOf(i.Y), s.lo(y) >= 0, "shift count may be negative", s)
			}
		}
		if c, ok := constInt(i.Y); ok && c >= 0 && c < 62 && s.lo(x) >= 0 && s.hi(x) < (int64(1)<<uint(62-c)) {
			hi := s.hi(x) << uint(c)
			if hi <= tr.hi {
				setRange(s.lo(x)<<uint(c), hi)
				return
			}
		}
		setRange(tr.lo, tr.hi)
	case token.SHR:
		if final && !isUnsigned(i.Y.Type()) {
			if _, isC := constInt(i.Y); !isC {
				an.record(f, i, "K10", exprOf(i.X)+">>"+exprOf(i.Y), s.lo(y) >= 0, "shift count may be negative", s)
			}
		}
		if c, ok := constInt(i.Y); ok && c >= 0 && c < 63 && s.lo(x) >= 0 {
			hi := s.hi(x)
			if hi >= inf {
				hi = tr.hi
			}
			setRange(s.lo(x)>>uint(c), hi>>uint(c))
			return
		}
		setRange(tr.lo, tr.hi)
	default:
		setRange(tr.lo, tr.hi)
	}
}

func divHi(h, c int64) int64 {
	if h >= inf {
		return inf
	}
	return h / c
}

func nextPow2(v int64) int64 {
	p := int64(1)
	for p <= v && p < inf {
		p <<= 1
	}
	return p
}

func isStringType(t types.Type) bool {
	b, ok := t.Underlying().(*types.Basic)
	return ok && b.Kind() == types.String
}

func (an *Analyzer) stepSlice(s *State, f *Frame, i *ssa.Slice, final bool) {
	var base *Term
	var xlen, xcap Lin
	isStr := false
	switch xt := i.X.Type().Underlying().(type) {
	case *types.Slice:
		base = an.refOf(s, f, i.X)
		xlen = Lin{an.lenTerm(base), 0}
		xcap = Lin{an.capTerm(base), 0}
		s.addUB(an.lenTerm(base), an.capTerm(base), 0)
	case *types.Basic:
		base = an.refOf(s, f, i.X)
		xlen = Lin{an.lenTerm(base), 0}
		xcap = xlen
		isStr = true
	case *types.Pointer:
		base = an.addrOf(s, f, i.X)
		arr := xt.Elem().Underlying().(*types.Array)
		xlen = Lin{nil, arr.Len()}
		xcap = xlen
		an.oblNonNil(s, f, i, base, "array pointer "+i.X.Name(), final)
	}
	lo := Lin{nil, 0}
	if i.Low != nil {
		lo = an.linOf(s, f, i.Low)
	}
	hi := xlen
	if i.High != nil {
		hi = an.linOf(s, f, i.High)
	}
	limit := xcap
	if isStr {
		limit = xlen
	}
	if an.cfg.StrictLen != nil && an.cfg.StrictLen(f.fn) {
		// "reads outside the buffer": re-slicing beyond the length (within the capacity) does not panic but
		// exposes octets that are not part of the buffer
		limit = xlen
	}
	if final {
		okLo := s.proveLE(Lin{nil, 0}, lo, 0)
		okMid := s.proveLE(lo, hi, 0)
		okHi := s.proveLE(hi, limit, 0)
		if !okHi && i.High == nil {
			okHi = true // default high = len <= cap
		}
		expr := fmt.Sprintf("%s[%s:%s]", exprOf(i.X), optExpr(i.Low), optExpr(i.High))
		why := ""
		switch {
		case !okLo:
			why = "low bound " + lo.String() + " may be negative"
		case !okMid:
			why = "low " + lo.String() + " may exceed high " + hi.String()
		case !okHi:
			why = "high " + hi.String() + " may exceed " + limit.String()
		}
		proved := okLo && okMid && okHi
		if !proved && okLo && an.cfg.PoolOK != nil && i.High != nil && i.Low == nil {
			// buf[:size] back to pool capacity: discharged by pool uniformity when size is the pool's size option
			if an.cfg.ConfigField != nil {
				if o, fld := fieldOfLoad(i.High); fld != nil && an.cfg.ConfigField(o, fld) {
					an.recordAssumed(f, i, "K1", expr, "re-slice to the configured buffer size: every buffer in flight is a slice of a pool buffer made with that size (rule R12.7, checked in this run)")
					proved = true
					why = ""
					goto bound
				}
			}
		}
		an.record(f, i, "K1", expr, proved, why, s)
	}
bound:
	s.assumeLE(Lin{nil, 0}, lo, 0)
	s.assumeLE(lo, hi, 0)
	t := an.valTerm(f, i)
	s.vals[vkey{f, i}] = t
	s.nn[t] = true
	lt := an.lenTerm(t)
	switch {
	case hi.base == lo.base:
		s.iv[lt] = itv{hi.c - lo.c, hi.c - lo.c}
	case lo.base == nil:
		an.eqLin(s, lt, Lin{hi.base, hi.c - lo.c})
		s.meetIv(lt, 0, inf)
	case hi.base == nil:
		// len = c - lo
		l, h := hi.c-s.hi(lo), hi.c-s.lo(lo)
		if s.hi(lo) >= inf {
			l = 0
		}
		s.iv[lt] = itv{max64(0, l), h}
	default:
		s.iv[lt] = itv{0, inf}
		if c, ok := s.linDiff(hi, lo); ok {
			_ = c
		}
		// len = hi - lo <= hi
		s.addUB(lt, hi.base, hi.c-s.lo(lo))
	}
	// capacity of the result: cap(x) - lo
	ct := an.capTerm(t)
	if i.Max != nil {
		mx := an.linOf(s, f, i.Max)
		if lo.base == nil {
			an.eqLin(s, ct, Lin{mx.base, mx.c - lo.c})
		}
	} else if lo.base == nil && xcap.base != nil {
		an.eqLin(s, ct, Lin{xcap.base, xcap.c - lo.c})
	} else if lo.base == nil {
		s.iv[ct] = itv{xcap.c - lo.c, xcap.c - lo.c}
	}
	s.addUB(lt, ct, 0)
}

func optExpr(v ssa.Value) string {
	if v == nil {
		return ""
	}
	return exprOf(v)
}

func fieldOfLoad(v ssa.Value) (types.Type, *types.Var) {
	u, ok := v.(*ssa.UnOp)
	if !ok || u.Op != token.MUL {
		return nil, nil
	}
	fa, ok := u.X.(*ssa.FieldAddr)
	if !ok {
		return nil, nil
	}
	st := fa.X.Type().Underlying().(*types.Pointer).Elem()
	return st, st.Underlying().(*types.Struct).Field(fa.Field)
}

// exprOf renders an SSA value as a normalised source-like expression (used in construct keys, never lines).
func exprOf(v ssa.Value) string {
	return exprDepth(v, 0)
}

func exprDepth(v ssa.Value, d int) string {
	if d > 6 {
		return "…"
	}
	switch x := v.(type) {
	case *ssa.Const:
		if x.Value == nil {
			return "nil"
		}
		return x.Value.ExactString()
	case *ssa.Parameter:
		return x.Name()
	case *ssa.Global:
		return x.Name()
	case *ssa.Alloc:
		if x.Comment != "" {
			return x.Comment
		}
		return "new"
	case *ssa.FieldAddr:
		st := x.X.Type().Underlying().(*types.Pointer).Elem().Underlying().(*types.Struct)
		return exprDepth(x.X, d+1) + "." + st.Field(x.Field).Name()
	case *ssa.Field:
		st := x.X.Type().Underlying().(*types.Struct)
		return exprDepth(x.X, d+1) + "." + st.Field(x.Field).Name()
	case *ssa.IndexAddr:
		return exprDepth(x.X, d+1) + "[" + exprDepth(x.Index, d+1) + "]"
	case *ssa.UnOp:
		if x.Op == token.MUL {
			return exprDepth(x.X, d+1)
		}
		return x.Op.String() + exprDepth(x.X, d+1)
	case *ssa.BinOp:
		return "(" + exprDepth(x.X, d+1) + x.Op.String() + exprDepth(x.Y, d+1) + ")"
	case *ssa.Convert:
		return exprDepth(x.X, d+1)
	case *ssa.ChangeType:
		return exprDepth(x.X, d+1)
	case *ssa.Slice:
		return exprDepth(x.X, d+1) + "[" + optExprD(x.Low, d) + ":" + optExprD(x.High, d) + "]"
	case *ssa.Call:
		if f := x.Common().StaticCallee(); f != nil {
			return f.Name() + "()"
		}
		if x.Common().IsInvoke() {
			return exprDepth(x.Common().Value, d+1) + "." + x.Common().Method.Name() + "()"
		}
		if b, ok := x.Common().Value.(*ssa.Builtin); ok {
			var a []string
			for _, arg := range x.Common().Args {
				a = append(a, exprDepth(arg, d+1))
			}
			return b.Name() + "(" + strings.Join(a, ",") + ")"
		}
	case *ssa.Extract:
		return exprDepth(x.Tuple, d+1) + fmt.Sprintf("#%d", x.Index)
	case *ssa.Phi:
		if x.Comment != "" {
			return x.Comment
		}
	case *ssa.MakeInterface:
		return exprDepth(x.X, d+1)
	case *ssa.TypeAssert:
		return exprDepth(x.X, d+1) + ".(" + types.TypeString(x.AssertedType, func(p *types.Package) string { return p.Name() }) + ")"
	case *ssa.MakeSlice:
		return "make(" + exprDepth(x.Len, d+1) + ")"
	case *ssa.FreeVar:
		return x.Name()
	}
	return v.Name()
}

func optExprD(v ssa.Value, d int) string {
	if v == nil {
		return ""
	}
	return exprDepth(v, d+1)
}

// svalAddr is the pseudo-location holding field k of an immutable struct value term.
func (an *Analyzer) svalAddr(v *Term, k int) *Term {
	t := an.tt.mk("sval", fmt.Sprintf("%s.%d", v.key, k), v, nil, nil, fmt.Sprintf("%s.#%d", v, k))
	if _, ok := addrClasses[t]; !ok {
		addrClasses[t] = "V:" + v.key
	}
	return t
}
