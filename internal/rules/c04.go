package rules

import (
	"fmt"
	"go/constant"
	"go/token"
	"go/types"
	"sort"
	"strings"

	"golang.org/x/tools/go/ssa"

	"verif/internal/core"
)

func init() { register("C04", checkC04) }

func checkC04(rep *core.Report) {
	rep.Explanation = "The template cache is shown to be a function of (exporter address, template id), for IPFIX and NetFlow v9: the map key has a type wide enough to be injective (a 32/64-bit key cannot separate 2^144 pairs: pigeonhole) and is built from both the address and the id by lossless, unambiguous concatenation (no hash, modulo, mask, shift or narrowing on the way; variable parts separated by constant text); insert and lookup share one key derivation applied to their own (id, address) arguments and nothing else touches the map; the decode sites pass the set header's own id and the datagram's exporter address, and insert the record they just parsed under that record's own id; insert overwrites unconditionally and happens before the next record/set is parsed; on the unknown-template edge the error is non-nil so record decoding is unreachable. With Go's map semantics these entail the property for every history, hash collisions included."
	rep.Assume("net.IP.String() and strconv.Itoa() are injective on their domains and produce no '/' (separator) character")
	rep.Assume("templates fetched from peers are trusted to be what the peer holds for that exporter/id")
	prog := rep.Prog
	r1 := rep.Rule("R04.1", "cache key is injective in (exporter address, template id)", 4)
	r2 := rep.Rule("R04.2", "one key derivation for insert and lookup; nobody else touches the map", 4)
	r3 := rep.Rule("R04.3", "decode sites pass the set's own id / the parsed record's own id and the datagram's exporter", 6)
	r4 := rep.Rule("R04.4", "insert overwrites unconditionally and immediately after a successful template parse", 4)
	r5 := rep.Rule("R04.5", "unknown template => error set, record decoding unreachable", 2)
	r6 := rep.Rule("R04.6", "a data record is decoded with the result of this set's own lookup, never with a remembered template", 2)
	for _, rel := range []string{"ipfix", "netflow/v9"} {
		c := findTplCache(prog, rel)
		if c.shardT == nil || c.insert == nil || c.retrieve == nil || c.getShard == nil {
			r1.Undecided(rel+":anchors", token.NoPos, "template cache anchors not resolved")
			continue
		}
		checkKeyInjective(r1, c)
		// ---- R04.2 ----
		for _, fn := range c.touchers {
			name := core.FuncName(fn)
			switch {
			case fn == c.insert || fn == c.retrieve:
				// shard and key come from one call of the key derivation with this function's own parameters
				var calls []*ssa.Call
				allInstrs(fn, func(ins ssa.Instruction) {
					if call, ok := ins.(*ssa.Call); ok && call.Common().StaticCallee() == c.getShard {
						calls = append(calls, call)
					}
				})
				okDer := len(calls) == 1
				if okDer {
					for _, a := range calls[0].Common().Args[1:] {
						if _, isParam := a.(*ssa.Parameter); !isParam {
							okDer = false
						}
					}
				}
				mapOK := true
				allInstrs(fn, func(ins ssa.Instruction) {
					var mp, key ssa.Value
					switch x := ins.(type) {
					case *ssa.MapUpdate:
						mp, key = x.Map, x.Key
					case *ssa.Lookup:
						mp, key = x.X, x.Index
					default:
						return
					}
					base, ok := c.mapBase(mp)
					if !ok {
						return
					}
					if len(calls) != 1 || base != ssa.Value(extractOf(calls[0], 0)) || key != ssa.Value(extractOf(calls[0], 1)) {
						mapOK = false
					}
				})
				r2.Check(okDer && mapOK, name+":one-derivation", fn.Pos(), "shard and key both come from one "+core.FuncName(c.getShard)+" call on this operation's own (id, address)",
					"insert/lookup does not take both its shard and its key from a single key derivation applied to its own arguments: inserts and lookups can disagree about where a template lives")
			case fn == c.load:
				r2.OK(name+":constructor", fn.Pos(), "constructor/loader (fresh object; see C11)")
			case !reachableFromAPI(prog, fn):
				r2.Note(name+":unreachable", fn.Pos(), "unreachable from main/exported API")
			default:
				r2.Fail(name+":touches-map", fn.Pos(), "accesses the template map directly, bypassing the shared key derivation")
			}
		}
		// ---- decode sites ----
		sd := findSetDecoder(prog, rel)
		if sd.decodeSet == nil {
			r3.Undecided(rel+":decodeSet", token.NoPos, "set decoder not resolved")
			continue
		}
		checkDecodeSites(prog, r3, r4, r5, c, sd)
		checkTemplateProvenance(prog, r6, c, sd)
		checkInsertUnconditional(r4, c)
	}
	// RPC path
	checkRPCInsert(prog, r3)
	// the peer path works on objects of its own: a reply decoded into package-level storage is shared by all fetches
	// (gob re-uses the slices it finds there), so a template cached for one exporter is rewritten by the next fetch
	r7 := rep.Rule("R04.7", "the peer-lookup path decodes every reply into a fresh object: it writes no package-level state", 1)
	if rpc := prog.Func("ipfix", "RPC"); rpc != nil {
		caches := map[types.Type]bool{}
		if c := findTplCache(prog, "ipfix"); c.cacheT != nil {
			caches[c.cacheT] = true
		}
		checkNoSharedWrites(prog, r7, []*ssa.Function{rpc}, 3, func(w sharedWrite) string {
			if rt := w.fn.Signature.Recv(); rt != nil && caches[core.Deref(rt.Type())] {
				return "method of the template cache (lock discipline: C10)"
			}
			return ""
		}, "templates fetched for different exporters share that storage, so one exporter's template decides how another exporter's data is decoded")
	} else {
		r7.Undecided("ipfix.RPC", token.NoPos, "peer-lookup loop not found")
	}
	r8 := rep.Rule("R04.8", "the key/shard derivation is a function of its arguments: it modifies no package-level object", 1)
	checkDerivationPure(prog, r8)
}

// checkDerivationPure: getShard runs before any shard lock is taken, concurrently in every worker and in the peer
// server; anything package-level it modifies (a shared hasher, a scratch buffer) is raced on, and a lookup then lands in
// the wrong shard.
func checkDerivationPure(prog *core.Program, rr *core.RuleRun) {
	var roots []*ssa.Function
	for _, rel := range []string{"ipfix", "netflow/v9"} {
		if c := findTplCache(prog, rel); c.getShard != nil {
			roots = append(roots, c.getShard)
		}
	}
	if len(roots) < 2 {
		rr.Undecided("anchors", token.NoPos, "key derivations not resolved")
		return
	}
	checkNoSharedWrites(prog, rr, roots, 2, func(sharedWrite) string { return "" },
		"the derivation runs unlocked in every worker at once, so concurrent lookups corrupt each other's shard choice and a template is stored or searched in the wrong shard")
}

// checkKeyInjective implements R04.1 (also a premise of C10): the map key is wide enough for (address, id), derives
// from both without a lossy step, and keeps the two texts apart.
func checkKeyInjective(r1 *core.RuleRun, c *tplCache) {
	mt := c.shardT.Underlying().(*types.Struct).Field(c.mapField).Type().Underlying().(*types.Map)
	// ---- R04.1 (a) key type ----
	wide := false
	switch k := mt.Key().Underlying().(type) {
	case *types.Basic:
		wide = k.Kind() == types.String
	case *types.Array:
		wide = k.Len() >= 18
	case *types.Struct:
		wide = true // checked field-wise below by derivation
	}
	r1.Check(wide, c.rel+":key-type", c.shardT.Obj().Pos(), "key type "+mt.Key().String()+" can hold address and id",
		fmt.Sprintf("the template map is keyed by %s, which cannot be injective on (16-octet address, 16-bit id) pairs: two exporter/id pairs with the same key share one entry and decode each other's data (an exporter chooses its ids, so collisions can be forced)", mt.Key().String()))
	// ---- R04.1 (b,c) derivation in getShard ----
	gname := core.FuncName(c.getShard)
	var idP, addrP *ssa.Parameter
	for _, p := range c.getShard.Params {
		if b, ok := p.Type().Underlying().(*types.Basic); ok && b.Kind() == types.Uint16 {
			idP = p
		}
		if typeIs(p.Type(), "net", "IP") {
			addrP = p
		}
	}
	allInstrs(c.getShard, func(ins ssa.Instruction) {
		r, ok := ins.(*ssa.Return)
		if !ok || len(r.Results) != 2 {
			return
		}
		keyV := r.Results[1]
		sl := core.BackwardSlice(keyV, core.SliceOpts{})
		r1.Check(idP != nil && addrP != nil && sl[idP] && sl[addrP], gname+":key-depends-on-both", r.Pos(), "key derives from the address and the id",
			"the cache key does not depend on both the exporter address and the template id: entries of different exporters or ids coincide")
		lossy := ""
		for v := range sl {
			switch x := v.(type) {
			case *ssa.BinOp:
				switch x.Op {
				case token.REM, token.AND, token.SHR, token.XOR, token.AND_NOT, token.QUO:
					lossy = "operator " + x.Op.String()
				}
			case *ssa.Call:
				n := calleeName(x)
				if x.Common().IsInvoke() {
					n = x.Common().Method.FullName()
				}
				if strings.Contains(n, "hash") || strings.Contains(n, "Sum") || strings.Contains(n, "crc") || strings.Contains(n, "fnv") || strings.Contains(n, "md5") || strings.Contains(n, "sha") {
					lossy = "hash function " + n
				} else if _, isBuiltin := x.Common().Value.(*ssa.Builtin); !isBuiltin && !injectiveKeyCalls[n] && lossy == "" {
					// (net.IP).To4 maps every non-IPv4 address to nil, Mask and DefaultMask drop bits, ...: only
					// conversions known to keep distinct inputs distinct may stand between the address/id and the key
					lossy = "call of " + short(n) + ", which is not known to keep distinct addresses/ids distinct"
				}
			case *ssa.Convert:
				sb, ok1 := x.X.Type().Underlying().(*types.Basic)
				db, ok2 := x.Type().Underlying().(*types.Basic)
				if ok1 && ok2 && sb.Info()&types.IsInteger != 0 && db.Info()&types.IsInteger != 0 && intBits(db) < intBits(sb) {
					lossy = "narrowing conversion " + sb.Name() + "->" + db.Name()
				}
			}
		}
		r1.Check(lossy == "", gname+":key-lossless", r.Pos(), "no lossy operation between (address, id) and the key",
			"the cache key passes through a lossy operation ("+lossy+"): distinct (exporter, id) pairs can produce the same key")
		if isStringType(keyV.Type()) {
			var parts []ssa.Value
			keyParts(keyV, &parts)
			amb := false
			prevVar := false
			for _, p := range parts {
				_, isConst := p.(*ssa.Const)
				if !isConst && prevVar {
					amb = true
				}
				if isConst {
					if cv := p.(*ssa.Const).Value; cv == nil || cv.ExactString() == `""` {
						continue
					}
				}
				prevVar = !isConst
			}
			r1.Check(!amb && len(parts) >= 2, gname+":key-unambiguous", r.Pos(), "variable parts are separated by constant text",
				"address text and id text are concatenated without a separator: \"10.0.0.1\"+\"256\" equals \"10.0.0.12\"+\"56\"")
		}
	})
}

// injectiveKeyCalls: library conversions that map distinct (valid) addresses / integers to distinct results.
var injectiveKeyCalls = map[string]bool{
	"(net.IP).String": true, "(net.IP).To16": true, "(net.IP).MarshalText": true,
	"strconv.Itoa": true, "strconv.FormatInt": true, "strconv.FormatUint": true, "strconv.AppendInt": true, "strconv.AppendUint": true,
	"fmt.Sprintf": true, "fmt.Sprint": true, "encoding/hex.EncodeToString": true,
}

// checkRetrieveComplete: the cache's lookup reports "not found" only when the map has no entry. Every boolean it
// returns is the map lookup's own comma-ok (or a constant on a branch that tested it): a lookup that gives up early
// (TryRLock, a size cut-off, an age test) reports an announced template as unknown and the exporter's data set is
// skipped.
func checkRetrieveComplete(rr *core.RuleRun, c *tplCache) {
	name := core.FuncName(c.retrieve)
	var okV ssa.Value
	allInstrs(c.retrieve, func(ins ssa.Instruction) {
		if lk, isLk := ins.(*ssa.Lookup); isLk && lk.CommaOk {
			if _, isMap := c.mapBase(lk.X); isMap {
				okV = extractOf(lk, 1)
			}
		}
	})
	if okV == nil {
		rr.Undecided(name+":lookup", c.retrieve.Pos(), "comma-ok lookup of the template map not found in retrieve")
		return
	}
	good, why := true, ""
	var leaf func(v ssa.Value, at *ssa.BasicBlock, seen map[ssa.Value]bool)
	leaf = func(v ssa.Value, at *ssa.BasicBlock, seen map[ssa.Value]bool) {
		switch x := v.(type) {
		case *ssa.Const:
			if x.Value == nil || x.Value.Kind() != constant.Bool {
				good, why = false, "non-boolean result"
				return
			}
			// a constant is the lookup's result when this block is only reached with ok equal to it
			if !contradictsFact(at, okV, false, !constant.BoolVal(x.Value)) {
				good, why = false, fmt.Sprintf("returns the constant %v on a path that does not depend on the map lookup", constant.BoolVal(x.Value))
			}
		case *ssa.Phi:
			if seen[x] {
				return
			}
			seen[x] = true
			for i, e := range x.Edges {
				if i < len(x.Block().Preds) {
					leaf(e, x.Block().Preds[i], seen)
				}
			}
		default:
			// a result spilled because of a defer: every value stored into the result variable
			if u, isLoad := v.(*ssa.UnOp); isLoad && u.Op == token.MUL && !seen[v] {
				if a, isAlloc := u.X.(*ssa.Alloc); isAlloc {
					seen[v] = true
					stores := 0
					allInstrs(c.retrieve, func(i2 ssa.Instruction) {
						if st, isSt := i2.(*ssa.Store); isSt && st.Addr == ssa.Value(a) {
							stores++
							leaf(st.Val, st.Block(), seen)
						}
					})
					if stores > 0 {
						return
					}
				}
			}
			if v != okV {
				good, why = false, "result is not the map lookup's ok"
			}
		}
	}
	n := 0
	allInstrs(c.retrieve, func(ins ssa.Instruction) {
		if r, isRet := ins.(*ssa.Return); isRet && len(r.Results) == 2 {
			n++
			leaf(r.Results[1], r.Block(), map[ssa.Value]bool{})
		}
	})
	rr.Check(good && n > 0, name+":found-iff-present", c.retrieve.Pos(), "the found result is the map lookup's own ok on every path",
		"retrieve can report a cached template as missing ("+why+"): data of an announced template is then skipped as unknown, depending on timing or on something other than the cache's content")
}

func intBits(b *types.Basic) int {
	switch b.Kind() {
	case types.Int8, types.Uint8:
		return 8
	case types.Int16, types.Uint16:
		return 16
	case types.Int32, types.Uint32:
		return 32
	}
	return 64
}

func checkDecodeSites(prog *core.Program, r3, r4, r5 *core.RuleRun, c *tplCache, sd *setDecoder) {
	fn := sd.decodeSet
	name := core.FuncName(fn)
	isRaddr := func(v ssa.Value) bool {
		_, f := fieldLoad(v)
		if f == nil || !typeIs(f.Type(), "net", "IP") {
			return false
		}
		u := v.(*ssa.UnOp)
		return core.AddrRoot(u.X) == ssa.Value(fn.Params[0])
	}
	var retrieveCall *ssa.Call
	for _, cs := range prog.CG().Sites[fn] {
		call, ok := cs.Instr.(*ssa.Call)
		if !ok || len(cs.Targets) != 1 {
			continue
		}
		args := call.Common().Args
		switch cs.Targets[0] {
		case c.retrieve:
			retrieveCall = call
			// id = the set header's id field of the header parsed in this call
			_, f := fieldLoad(args[1])
			okID := false
			if f != nil && strings.Contains(f.Name(), "SetID") {
				if a, isAlloc := core.AddrRoot(args[1].(*ssa.UnOp).X).(*ssa.Alloc); isAlloc {
					// that header object is the one handed to the header unmarshal in this function
					for _, ref := range referrers(a) {
						if cc, ok := ref.(*ssa.Call); ok && cc.Common().StaticCallee() != nil && cc.Common().StaticCallee().Name() == "unmarshal" {
							okID = true
						}
					}
				}
			}
			r3.Check(okID, name+":retrieve-id", call.Pos(), "lookup id is the id of the set header just parsed", "the template is looked up under something other than this set's own id")
			r3.Check(isRaddr(args[2]), name+":retrieve-addr", call.Pos(), "lookup address is the decoder's exporter address", "the template is looked up under an address other than this datagram's exporter")
		case c.insert:
			rec := args[3]
			_, f := fieldLoad(args[1])
			okID := false
			if ld, ok := rec.(*ssa.UnOp); ok && f != nil && f.Name() == "TemplateID" {
				okID = core.AddrRoot(args[1].(*ssa.UnOp).X) == ld.X
			}
			r3.Check(okID, name+":insert-id", call.Pos(), "inserted under the TemplateID of the very record inserted", "a template is cached under an id that is not its own TemplateID")
			r3.Check(isRaddr(args[2]), name+":insert-addr", call.Pos(), "inserted under the decoder's exporter address", "a template is cached under an address other than this datagram's exporter")
			// R04.4 immediately: from each successful template parse the insert is reached before the next loop iteration
			loop := core.LoopOf(fn, call)
			if loop == nil {
				r4.Fail(name+":insert-in-loop", call.Pos(), "insert is not in the record loop")
				break
			}
			var parses []*ssa.Call
			for b := range loop.Blocks {
				for _, ins := range b.Instrs {
					if pc, ok := ins.(*ssa.Call); ok && pc.Common().StaticCallee() != nil && strings.HasPrefix(pc.Common().StaticCallee().Name(), "unmarshal") {
						if ld, ok := rec.(*ssa.UnOp); ok && len(pc.Common().Args) > 0 && pc.Common().Args[0] == ld.X {
							parses = append(parses, pc)
						}
					}
				}
			}
			if len(parses) == 0 {
				r4.Fail(name+":insert-after-parse", call.Pos(), "the inserted record is not the one parsed in this iteration")
			}
			for _, pc := range parses {
				// the error of the parse may flow through a phi; use path resolution: on paths where the parse
				// returned nil, the loop header must not be reached without passing the insert
				w := core.Walk{Blocked: func(i ssa.Instruction) bool { return i == ssa.Instruction(call) },
					EdgeOK: func(b *ssa.BasicBlock, si int) bool {
						cond, truth, ok := core.IfEdge(b, si)
						if !ok {
							return true
						}
						if v, eqNil, ok := core.NilCompare(cond); ok {
							if v == ssa.Value(pc) || phiHasEdge(v, pc) {
								return eqNil == truth // keep only "error is nil"
							}
						}
						return true
					}}
				reach := w.ReachInstrs(pc)
				missed := false
				for i := range reach {
					if i.Block() == loop.Header && i == loop.Header.Instrs[0] {
						missed = true
					}
					if _, isRet := i.(*ssa.Return); isRet {
						missed = true
					}
				}
				r4.Check(!missed, name+":insert-after-"+pc.Common().StaticCallee().Name(), pc.Pos(), "every path from a successful parse reaches the insert before the next record",
					"after a successful template parse the next record or set can be reached without inserting the template: data later in the same message is decoded with the previous definition")
			}
		}
	}
	// ---- R04.5 ----
	if retrieveCall == nil {
		r5.Fail(name+":lookup", fn.Pos(), "set decoder never looks a template up")
		return
	}
	okV := extractOf(retrieveCall, 1)
	var dataCalls []*ssa.Call
	allInstrs(fn, func(ins ssa.Instruction) {
		if call, ok := ins.(*ssa.Call); ok && call.Common().StaticCallee() == sd.decodeDat {
			dataCalls = append(dataCalls, call)
		}
	})
	if okV == nil || len(dataCalls) == 0 {
		r5.Undecided(name+":unknown-template", retrieveCall.Pos(), "lookup result or record decoding call not found")
		return
	}
	// the loop guard `err == nil` dominates every decodeData call; on paths through the !ok edge the guard's
	// operand resolves to non-nil values only
	for _, dc := range dataCalls {
		loop := core.LoopOf(fn, dc)
		if loop == nil {
			r5.Fail(name+":unknown-template", dc.Pos(), "record decoding is not inside the guarded record loop")
			continue
		}
		var guard *ssa.If
		var errPhi ssa.Value
		for b := loop.Header; b != nil && guard == nil; {
			if ifi, ok := b.Instrs[len(b.Instrs)-1].(*ssa.If); ok {
				if v, eqNil, ok := core.NilCompare(ifi.Cond); ok && eqNil && types.Identical(v.Type(), types.Universe.Lookup("error").Type()) {
					guard, errPhi = ifi, v
				}
			}
			break
		}
		if guard == nil {
			r5.Fail(name+":unknown-template", dc.Pos(), "the record loop is not guarded by 'no error so far': records are decoded although the template lookup failed")
			continue
		}
		// paths from the retrieve call through the !ok edge to the guard
		edge := func(b *ssa.BasicBlock, si int) bool {
			cond, truth, ok := core.IfEdge(b, si)
			if ok && cond == ssa.Value(okV) {
				return !truth
			}
			if b.Succs[si] == loop.Header && loop.Blocks[b] {
				return false // first arrival only
			}
			return true
		}
		vals, complete := core.ResolveAlongPaths(retrieveCall, guard, errPhi, edge, 64)
		allNonNil := complete && len(vals) > 0
		for v := range vals {
			cls := errClasses(prog, v, sd.nonfatal, 0, map[ssa.Value]bool{})
			if cls&clsNil != 0 {
				allNonNil = false
			}
		}
		r5.Check(allNonNil, name+":unknown-template", retrieveCall.Pos(), "on the lookup-failed edge the loop guard sees a non-nil error: no record is decoded",
			"when the template lookup fails the record loop can still be entered: data is decoded with an empty or stale template")
	}
}

func phiHasEdge(v ssa.Value, e ssa.Value) bool {
	phi, ok := v.(*ssa.Phi)
	if !ok {
		return false
	}
	for _, x := range phi.Edges {
		if x == e {
			return true
		}
	}
	return false
}

func checkRPCInsert(prog *core.Program, r3 *core.RuleRun) {
	c := findTplCache(prog, "ipfix")
	if c.insert == nil {
		return
	}
	for _, cs := range prog.CG().In[c.insert] {
		fn := cs.Caller
		if fn.Synthetic != "" || fn.Name() == "decodeSet" {
			continue
		}
		name := core.FuncName(fn)
		args := cs.Instr.Common().Args
		// insert(m, req.ID, req.IP, *tr) where tr is the reply to Get(req)
		_, fid := fieldLoad(args[1])
		_, fip := fieldLoad(args[2])
		okReq := fid != nil && fip != nil && fid.Name() == "ID" && fip.Name() == "IP" &&
			core.AddrRoot(args[1].(*ssa.UnOp).X) == core.AddrRoot(args[2].(*ssa.UnOp).X)
		okReply := false
		if okReq {
			reqObj := core.AddrRoot(args[1].(*ssa.UnOp).X)
			for v := range core.BackwardSlice(args[3], core.SliceOpts{}) {
				if call, ok := v.(*ssa.Call); ok && call.Common().StaticCallee() != nil && call.Common().StaticCallee().Name() == "Get" {
					for a := range core.BackwardSlice(call.Common().Args[1], core.SliceOpts{NoCallArgs: true}) {
						if a == reqObj {
							okReply = true
						}
					}
				}
			}
		}
		r3.Check(okReq && okReply, name+":peer-insert", cs.Instr.Pos(), "peer reply inserted under the requesting (id, address)", "a template fetched from a peer is cached under an id/address other than the request's")
	}
}

// checkTemplateProvenance (R04.6): the template argument of every record-decoding call in the set decoder is,
// on every path, the record returned by the lookup made for this set (or the zero record on paths where no
// lookup applies, which R04.5 shows cannot reach record decoding without an error). A template kept from an
// earlier set, message or decoder field would survive a re-announcement.
func checkTemplateProvenance(prog *core.Program, r6 *core.RuleRun, c *tplCache, sd *setDecoder) {
	fn := sd.decodeSet
	name := core.FuncName(fn)
	var leaves func(v ssa.Value, seen map[ssa.Value]bool, out map[string]token.Pos)
	leaves = func(v ssa.Value, seen map[ssa.Value]bool, out map[string]token.Pos) {
		if seen[v] {
			return
		}
		seen[v] = true
		switch x := v.(type) {
		case *ssa.Phi:
			for _, e := range x.Edges {
				leaves(e, seen, out)
			}
			return
		case *ssa.Const:
			out["zero"] = token.NoPos
			return
		case *ssa.Extract:
			if call, ok := x.Tuple.(*ssa.Call); ok && call.Common().StaticCallee() == c.retrieve && x.Index == 0 && call.Parent() == fn {
				out["lookup"] = call.Pos()
				return
			}
		case *ssa.UnOp:
			if x.Op == token.MUL {
				if a, ok := x.X.(*ssa.Alloc); ok {
					out["zero"] = token.NoPos
					for _, sv := range core.StoresTo(a) {
						leaves(sv, seen, out)
					}
					return
				}
			}
		case *ssa.ChangeType:
			leaves(x.X, seen, out)
			return
		}
		out["other: "+describeVal(v)] = v.Pos()
	}
	n := 0
	allInstrs(fn, func(ins ssa.Instruction) {
		call, ok := ins.(*ssa.Call)
		if !ok || call.Common().StaticCallee() != sd.decodeDat {
			return
		}
		n++
		var tplArg ssa.Value
		for _, a := range call.Common().Args[1:] {
			if _, isStruct := a.Type().Underlying().(*types.Struct); isStruct {
				tplArg = a
			} else if p, isPtr := a.Type().Underlying().(*types.Pointer); isPtr {
				if _, isStruct := p.Elem().Underlying().(*types.Struct); isStruct {
					tplArg = a
				}
			}
		}
		key := fmt.Sprintf("%s:record-template#%d", name, n)
		if tplArg == nil {
			r6.Undecided(key, call.Pos(), "the record decoder takes no template argument")
			return
		}
		out := map[string]token.Pos{}
		leaves(tplArg, map[ssa.Value]bool{}, out)
		var bad []string
		for k := range out {
			if strings.HasPrefix(k, "other") {
				bad = append(bad, strings.TrimPrefix(k, "other: "))
			}
		}
		sort.Strings(bad)
		_, hasLookup := out["lookup"]
		r6.Check(len(bad) == 0 && hasLookup, key, call.Pos(), "template comes only from this set's lookup",
			fmt.Sprintf("the template used to decode a record can come from %s rather than from the lookup made for this set: a template re-announced earlier in the same message (or by another path) is not seen and the data is decoded with the superseded definition", strings.Join(bad, ", ")))
	})
	if n == 0 {
		r6.Undecided(name+":record-template", fn.Pos(), "no record decoding call found in the set decoder")
	}
}

// checkInsertUnconditional (R04.4, also a premise of C03/C06: the decoder gets the template as last announced): every
// path through the cache's insert reaches the map store, and what is stored is the record passed in.
func checkInsertUnconditional(r4 *core.RuleRun, c *tplCache) {
	var upd *ssa.MapUpdate
	allInstrs(c.insert, func(ins ssa.Instruction) {
		if mu, ok := ins.(*ssa.MapUpdate); ok && c.isMapValue(mu.Map) {
			upd = mu
		}
	})
	iname := core.FuncName(c.insert)
	if upd == nil {
		r4.Fail(iname+":stores", c.insert.Pos(), "insert has no map store")
		return
	}
	w := core.Walk{Blocked: func(i ssa.Instruction) bool { return i == upd }}
	skipped := false
	for i := range w.ReachFromEntry(c.insert) {
		if _, isRet := i.(*ssa.Return); isRet {
			skipped = true
		}
	}
	r4.Check(!skipped, iname+":unconditional", upd.Pos(), "the store is on every path through insert",
		"insert can return without storing (e.g. when it judges the template unchanged): a re-announced template that differs in a part the comparison ignores is dropped and data keeps being decoded with the superseded one")
	// the stored record is the parameter, unmodified
	recP := c.insert.Params[len(c.insert.Params)-1]
	r4.Check(core.BackwardSlice(upd.Value, core.SliceOpts{})[recP], iname+":stores-argument", upd.Pos(), "stores the record it was given", "insert stores something other than the record it was given")
}
