package rules

import (
	"fmt"
	"go/token"
	"go/types"
	"sort"
	"strings"

	"golang.org/x/tools/go/ssa"

	"verif/internal/core"
)

func init() { register("C12", checkC12) }

// poolInfo describes one sync.Pool of byte buffers in package main.
type poolInfo struct {
	g        *ssa.Global
	newField *types.Var // options field sizing the buffers made by New
	newPos   token.Pos
}

func findPools(prog *core.Program) map[*ssa.Global]*poolInfo {
	out := map[*ssa.Global]*poolInfo{}
	pk := prog.SSAPackage("vflow")
	if pk == nil {
		return out
	}
	for _, m := range pk.Members {
		g, ok := m.(*ssa.Global)
		if !ok || !typeIs(core.Deref(g.Type()), "sync", "Pool") {
			continue
		}
		out[g] = &poolInfo{g: g}
	}
	// the New closures are stored in the package initialiser: &sync.Pool{New: func...}
	init := pk.Func("init")
	if init == nil {
		return out
	}
	allInstrs(init, func(ins ssa.Instruction) {
		st, ok := ins.(*ssa.Store)
		if !ok {
			return
		}
		g, isG := st.Addr.(*ssa.Global)
		if !isG || out[g] == nil {
			return
		}
		// st.Val is the *sync.Pool alloc; find the store of its New field
		alloc, _ := st.Val.(*ssa.Alloc)
		if alloc == nil {
			return
		}
		for _, ref := range referrers(alloc) {
			fa, ok := ref.(*ssa.FieldAddr)
			if !ok {
				continue
			}
			for _, r2 := range referrers(fa) {
				s2, ok := r2.(*ssa.Store)
				if !ok {
					continue
				}
				var fn *ssa.Function
				switch v := s2.Val.(type) {
				case *ssa.Function:
					fn = v
				case *ssa.MakeClosure:
					fn = v.Fn.(*ssa.Function)
				}
				if fn == nil {
					continue
				}
				allInstrs(fn, func(i3 ssa.Instruction) {
					if ms, ok := i3.(*ssa.MakeSlice); ok && isByteSlice(ms.Type()) {
						_, f := fieldLoad(ms.Len)
						out[g].newField = f
						out[g].newPos = ms.Pos()
					}
				})
			}
		}
	})
	return out
}

// poolOf returns the pool global a (*sync.Pool).Get/Put call operates on.
func poolOf(call ssa.CallInstruction) (*ssa.Global, string) {
	f := call.Common().StaticCallee()
	if f == nil || (f.String() != "(*sync.Pool).Get" && f.String() != "(*sync.Pool).Put") {
		return nil, ""
	}
	return globalOf(call.Common().Args[0]), f.Name()
}

func checkC12(rep *core.Report) {
	rep.Explanation = "Ownership/typestate argument over the four receive loops, four workers and two mirror loops: each receive buffer, encode buffer and queued payload has one owner at every program point and moves only through channel sends. Decided per function on its CFG: a released (Put) receive buffer and everything derived from it is not used again before the variable is re-bound by the next receive; at most one release per iteration; every pool's buffers have one size (New and every Put slice use the same option field), so a recycled buffer is as large as a fresh one; published payloads are fresh copies; the encode buffer is reset on every path to an encode and is goroutine-local; receive loops take a buffer per iteration; mirror copies use their own pool buffer; decoded objects do not escape the iteration; decoders do not recycle buffers their results alias. This is non-interference, which with determinism of decode gives 'depends only on its own datagram'."
	rep.Trust("sync.Pool hands a Put value to at most one later Get")
	prog := rep.Prog
	r1 := rep.Rule("R12.1", "no use of a receive buffer (or anything derived from it) after it was released", 6)
	r2 := rep.Rule("R12.2", "a receive buffer is released at most once per iteration", 6)
	r3 := rep.Rule("R12.3", "published payload is a fresh copy of the encode buffer", 4)
	r4 := rep.Rule("R12.4", "encode buffer reset on every path to an encode; buffer is goroutine-local", 3)
	r5 := rep.Rule("R12.5", "receive loop obtains its buffer in the same iteration it reads into it", 4)
	r6 := rep.Rule("R12.6", "mirror copy lives in its own pool buffer; one pool per protocol", 6)
	r7 := rep.Rule("R12.7", "pool uniformity: New and every Put use the same size option; every Get is asserted to []byte", 10)
	r8 := rep.Rule("R12.8", "decoded objects do not outlive their iteration; decoders do not recycle buffers", 5)
	checkPoolPerPipeline(prog, r6)
	for _, pl := range findPipelines(prog) {
		checkQueuedBufferKept(prog, r5, pl)
	}
	r10 := rep.Rule("R12.10", "a cached template's field specifiers are never written after the template was parsed", 2)
	checkTemplateSpecifiersReadOnly(prog, r10)
	r9 := rep.Rule("R12.9", "nothing a worker runs (decode, encode, publish) writes unsynchronised package-level state", 1)
	{
		var workers []*ssa.Function
		for _, p := range findPipelines(prog) {
			if p.worker != nil {
				workers = append(workers, p.worker)
			}
		}
		caches := map[types.Type]bool{}
		for _, rel := range []string{"ipfix", "netflow/v9"} {
			if c := findTplCache(prog, rel); c.cacheT != nil {
				caches[c.cacheT] = true
			}
		}
		checkNoSharedWrites(prog, r9, workers, 80, func(w sharedWrite) string {
			// the template cache is the one deliberately shared structure: its discipline is C10's lockset rule
			if rt := w.fn.Signature.Recv(); rt != nil && caches[core.Deref(rt.Type())] {
				return "method of the template cache (lock discipline: C10)"
			}
			return ""
		}, "workers run concurrently, each on its own datagram, so a package-level scratch buffer or cache written while decoding or encoding lets one datagram's bytes appear in another's message (and is a data race)")
	}
	pools := findPools(prog)
	pipes := findPipelines(prog)
	checkPoolUniformity(prog, r7, pools)
	nW := 0
	for _, p := range pipes {
		if p.run != nil {
			checkRunLoopBuffer(r5, p)
		}
		if p.worker != nil && p.recv != nil {
			nW++
			checkWorkerOwnership(prog, r1, r2, r3, r4, r6, r8, p)
		}
	}
	if nW < 4 {
		r1.Undecided("anchors", token.NoPos, fmt.Sprintf("%d workers found, want 4", nW))
	}
	// mirror loops: functions in package main that receive UDP messages from a channel parameter and Put
	for _, fn := range prog.RepoFuncs() {
		if core.PkgRel(fn) != "vflow" || fn.Parent() != nil {
			continue
		}
		var recv *ssa.UnOp
		hasPut := false
		allInstrs(fn, func(ins ssa.Instruction) {
			if u, ok := ins.(*ssa.UnOp); ok && u.Op == token.ARROW && isUDPChan(u.X) && isParam(fn, u.X) {
				recv = u
			}
			if c, ok := ins.(*ssa.Call); ok {
				if _, op := poolOf(c); op == "Put" {
					hasPut = true
				}
			}
		})
		if recv != nil && hasPut {
			checkReleaseDiscipline(prog, r1, r2, fn, recv, recv)
		}
	}
	checkDecodersDoNotRecycle(prog, r8)
}

// checkDecodersDoNotRecycle: no sync.Pool.Put reachable from the decode entry points (decoded results
// alias the buffers they were decoded from).
func checkDecodersDoNotRecycle(prog *core.Program, r8 *core.RuleRun) {
	var roots []*ssa.Function
	for _, fn := range prog.RepoFuncs() {
		if isDecodeEntry(fn) {
			roots = append(roots, fn)
		}
	}
	n := 0
	for _, fn := range prog.CG().ReachableRepo(roots...) {
		allInstrs(fn, func(ins ssa.Instruction) {
			if c, ok := ins.(ssa.CallInstruction); ok {
				if f := c.Common().StaticCallee(); f != nil && f.String() == "(*sync.Pool).Put" {
					n++
					r8.Fail(core.FuncName(fn)+":decoder-recycles-buffer", ins.Pos(), "a buffer is returned to a pool inside the decode call tree: decoded results (sampled headers, ICMP rest-of-header, addresses, octet arrays) alias the buffers they were read from, so the next decode overwrites a result already handed out")
				}
			}
		})
	}
	if n == 0 {
		r8.OK("decoders:no-pool-put", token.NoPos, fmt.Sprintf("no pool release under %d decode entry points", len(roots)))
	}
}

func checkPoolUniformity(prog *core.Program, r7 *core.RuleRun, pools map[*ssa.Global]*poolInfo) {
	for g, pi := range pools {
		r7.Check(pi.newField != nil, "pool:"+g.Name()+":New", pi.newPos, "New makes []byte of an options field", "pool New does not make a byte slice sized by an options field")
	}
	for _, fn := range prog.RepoFuncs() {
		if core.PkgRel(fn) != "vflow" {
			continue
		}
		allInstrs(fn, func(ins ssa.Instruction) {
			call, ok := ins.(*ssa.Call)
			if !ok {
				return
			}
			g, op := poolOf(call)
			if g == nil || pools[g] == nil {
				return
			}
			pi := pools[g]
			key := fmt.Sprintf("%s:%s:%s", core.FuncName(fn), g.Name(), op)
			switch op {
			case "Put":
				v := underIface(call.Common().Args[1])
				sl, isSlice := v.(*ssa.Slice)
				if !isSlice || sl.Low != nil || sl.High == nil {
					r7.Fail(key, call.Pos(), "the buffer is not returned as buf[:size]: its length is whatever the last datagram had, later reads are truncated to it")
					return
				}
				_, f := fieldLoad(sl.High)
				r7.Check(f != nil && f == pi.newField, key, call.Pos(), "returned as buf[:"+fname(f)+"], the size New uses",
					fmt.Sprintf("the buffer is returned to %s sliced to option %s but the pool's New makes buffers of option %s: when the two settings differ, recycled buffers are shorter than fresh ones (datagrams silently truncated on receive) or the slice expression panics", g.Name(), fname(f), fname(pi.newField)))
			case "Get":
				okAssert := false
				for _, ref := range referrers(call) {
					if ta, ok := ref.(*ssa.TypeAssert); ok && isByteSlice(ta.AssertedType) {
						okAssert = true
					}
				}
				r7.Check(okAssert, key, call.Pos(), "asserted to []byte", "pool value not used as []byte")
			}
		})
	}
}

func fname(f *types.Var) string {
	if f == nil {
		return "<none>"
	}
	return f.Name()
}

func checkRunLoopBuffer(r5 *core.RuleRun, p *pipeline) {
	name := core.FuncName(p.run)
	loop := core.LoopOf(p.run, p.read)
	buf := p.read.Common().Args[1]
	var get *ssa.Call
	for v := range core.BackwardSlice(buf, core.SliceOpts{}) {
		if c, ok := v.(*ssa.Call); ok {
			if _, op := poolOf(c); op == "Get" {
				get = c
			}
		}
	}
	if get == nil || loop == nil {
		r5.Fail(name+":buffer-from-pool", p.read.Pos(), "the buffer read into does not come from a pool Get (or the read is not in a loop)")
		return
	}
	r5.Check(loop.Contains(get) && core.InstrDominates(get, p.read), name+":get-per-iteration", get.Pos(), "Get() in the same iteration as the read",
		"the receive buffer is obtained outside the receive loop: the next read overwrites a datagram that is still queued for a worker")
}

// bodyLoads returns the loads of the body field of the worker's message variable.
func msgVarOf(recvVal ssa.Value) *ssa.Alloc {
	// the received value is stored into the message variable, possibly through the merged result variable of a helper
	// placed at its call site
	seen := map[ssa.Value]bool{}
	work := []ssa.Value{recvVal}
	for len(work) > 0 && len(seen) < 16 {
		v := work[0]
		work = work[1:]
		if v == nil || seen[v] {
			continue
		}
		seen[v] = true
		for _, ref := range referrers(v) {
			switch x := ref.(type) {
			case *ssa.Store:
				if a, ok := x.Addr.(*ssa.Alloc); ok && x.Val == v {
					return a
				}
			case *ssa.Phi:
				work = append(work, x)
			}
		}
	}
	return nil
}

func checkWorkerOwnership(prog *core.Program, r1, r2, r3, r4, r6, r8 *core.RuleRun, p *pipeline) {
	fn := p.worker
	name := core.FuncName(fn)
	checkReleaseDiscipline(prog, r1, r2, fn, p.recv, p.decode)
	loop := core.LoopOf(fn, p.recv)
	// ---- R12.3 published payload fresh ----
	allInstrs(fn, func(ins ssa.Instruction) {
		sel, ok := ins.(*ssa.Select)
		if !ok {
			return
		}
		for _, st := range sel.States {
			if st.Dir != types.SendOnly || !isMQChan(st.Chan) {
				continue
			}
			key := name + ":payload-fresh"
			ap, isAppend := st.Send.(*ssa.Call)
			fresh := false
			if isAppend {
				if b, ok := ap.Common().Value.(*ssa.Builtin); ok && b.Name() == "append" {
					fresh = isEmptyFresh(ap.Common().Args[0])
				}
			}
			r3.Check(fresh, key, sel.Pos(), "append([]byte{}, b...): a new backing array",
				"the slice queued for the producer shares its backing array with the worker's encode buffer: the next datagram's encoding overwrites a message still waiting in the queue")
			// not used after the send
			if isAppend {
				used := false
				for _, ref := range referrers(ap) {
					if ref != ssa.Instruction(sel) {
						if _, dbg := ref.(*ssa.DebugRef); !dbg {
							used = true
						}
					}
				}
				r3.Check(!used, name+":payload-not-kept", sel.Pos(), "", "the worker keeps a reference to the payload it queued")
			}
		}
	})
	// ---- R12.4 encode buffer ----
	if p.marshal != nil && calleeName(p.marshal) != "encoding/json.Marshal" {
		args := p.marshal.Common().Args
		buf := args[len(args)-1]
		key := name + ":encode-buffer"
		alloc, isAlloc := buf.(*ssa.Alloc)
		if !isAlloc {
			r4.Fail(key+":local", p.marshal.Pos(), "the encode buffer is not a buffer allocated by this worker: two goroutines could encode into it at once")
		} else {
			escapes := false
			for _, ref := range referrers(alloc) {
				switch x := ref.(type) {
				case *ssa.MakeClosure, *ssa.Go, *ssa.Send:
					escapes = true
				case *ssa.Store:
					if x.Val == ssa.Value(alloc) {
						escapes = true
					}
				}
			}
			r4.Check(!escapes && !loop.Contains(alloc) || !escapes, key+":local", alloc.Pos(), "allocated by the worker, not shared", "the encode buffer escapes the worker goroutine")
			// a Reset lies on every path from the loop header to the encode
			w := core.Walk{Blocked: func(i ssa.Instruction) bool {
				c, ok := i.(*ssa.Call)
				return ok && calleeName(c) == "(*bytes.Buffer).Reset" && c.Common().Args[0] == buf
			}}
			reach := map[ssa.Instruction]bool{}
			if loop != nil {
				// start at the beginning of the header block
				first := loop.Header.Instrs[0]
				if !w.Blocked(first) {
					reach = w.ReachInstrs(first)
					reach[first] = true
				}
			}
			r4.Check(loop != nil && !reach[p.marshal], key+":reset", p.marshal.Pos(), "every path from the top of the iteration to the encode passes buf.Reset()",
				"an encode can be reached without resetting the buffer in this iteration: the published document starts with the previous datagram's bytes")
		}
	} else if p.marshal != nil {
		r4.OK(name+":encode-buffer", p.marshal.Pos(), "encoding/json allocates a fresh result per call")
	}
	// ---- R12.6 mirror copy ----
	checkMirrorOwnBuffer(r6, fn, loop, name)
	// ---- R12.8 decoded message does not escape ----
	esc := ""
	for ins := range core.AliasUses(p.decode) {
		switch x := ins.(type) {
		case *ssa.Send:
			esc = "sent on a channel"
		case *ssa.Go:
			esc = "passed to a goroutine"
		case *ssa.MakeClosure:
			esc = "captured by a closure"
		case *ssa.Store:
			if _, isG := core.AddrRoot(x.Addr).(*ssa.Global); isG {
				esc = "stored in a package variable"
			}
		case *ssa.Select:
			for _, st := range x.States {
				if st.Dir == types.SendOnly && !isMQChan(st.Chan) {
					esc = "sent on a channel"
				}
			}
		}
	}
	r8.Check(esc == "", name+":decoded-confined", p.decode.Pos(), "decoded message used only inside the iteration", "the decoded message (which aliases the receive buffer) is "+esc+": it outlives the buffer's ownership")
}

// isEmptyFresh: v is nil, or a slice of a freshly allocated zero-length array ([]byte{}), or make([]byte, 0, n).
func isEmptyFresh(v ssa.Value) bool {
	switch x := v.(type) {
	case *ssa.Const:
		return x.Value == nil
	case *ssa.Slice:
		if a, ok := x.X.(*ssa.Alloc); ok {
			if arr, ok := core.Deref(a.Type()).Underlying().(*types.Array); ok && arr.Len() == 0 {
				return true
			}
		}
	case *ssa.MakeSlice:
		if n, ok := ssaConstInt(x.Len); ok && n == 0 {
			return true
		}
	}
	return false
}

// checkReleaseDiscipline implements R12.1 and R12.2 for one loop that receives a message at `recv`.
func checkReleaseDiscipline(prog *core.Program, r1, r2 *core.RuleRun, fn *ssa.Function, recv ssa.Instruction, derivedRoot ssa.Instruction) {
	name := core.FuncName(fn)
	loop := core.LoopOf(fn, recv)
	if loop == nil {
		r1.Undecided(name+":loop", recv.Pos(), "receive not in a loop")
		return
	}
	rv := recvValue(recv)
	if rv == nil {
		if u, ok := recv.(*ssa.UnOp); ok {
			rv = u
		}
	}
	msgVar := msgVarOf(rv)
	// body loads: loads of a []byte field of the message variable (or Field extracts of the received value)
	isBody := func(v ssa.Value) bool {
		switch x := v.(type) {
		case *ssa.UnOp:
			if x.Op == token.MUL {
				if fa, ok := x.X.(*ssa.FieldAddr); ok && msgVar != nil && fa.X == ssa.Value(msgVar) && isByteSlice(x.Type()) {
					return true
				}
			}
		case *ssa.Field:
			return x.X == rv && isByteSlice(x.Type())
		}
		return false
	}
	// releases of the receive buffer
	var puts []*ssa.Call
	allInstrs(fn, func(ins ssa.Instruction) {
		c, ok := ins.(*ssa.Call)
		if !ok {
			return
		}
		if _, op := poolOf(c); op != "Put" {
			return
		}
		for v := range core.BackwardSlice(c.Common().Args[1], core.SliceOpts{}) {
			if isBody(v) {
				puts = append(puts, c)
				break
			}
		}
	})
	if len(puts) == 0 {
		r2.Note(name+":no-release", recv.Pos(), "receive buffer is never returned to the pool (left to the garbage collector)")
		return
	}
	// tainted instructions: uses of the body and of everything derived from it
	tainted := map[ssa.Instruction]bool{}
	allInstrs(fn, func(ins ssa.Instruction) {
		if v, ok := ins.(ssa.Value); ok && isBody(v) {
			tainted[ins] = true
			for u := range core.AliasUses(v) {
				tainted[u] = true
			}
		}
	})
	putSet := map[ssa.Instruction]bool{}
	for _, p := range puts {
		putSet[p] = true
	}
	for _, p := range puts {
		// instructions feeding this very Put are not uses after it
		feeding := map[ssa.Value]bool{}
		for v := range core.BackwardSlice(p.Common().Args[1], core.SliceOpts{}) {
			feeding[v] = true
		}
		w := core.Walk{Blocked: func(i ssa.Instruction) bool { return i == recv }}
		bad := ""
		for i := range w.ReachInstrs(p) {
			if !tainted[i] || putSet[i] {
				continue
			}
			if v, ok := i.(ssa.Value); ok && feeding[v] && !loop.Contains(i) {
				continue
			}
			if _, dbg := i.(*ssa.DebugRef); dbg {
				continue
			}
			// computing the operand of another Put of the same buffer is reported by R12.2, not here
			feedsOtherPut := false
			for _, q := range puts {
				if q != p {
					if v, ok := i.(ssa.Value); ok {
						for fv := range core.BackwardSlice(q.Common().Args[1], core.SliceOpts{}) {
							if fv == v {
								feedsOtherPut = true
							}
						}
					}
				}
			}
			if feedsOtherPut {
				continue
			}
			bad = prog.Pos(i.Pos()) + " " + i.String()
		}
		r1.Check(bad == "", fmt.Sprintf("%s:no-use-after-put", name), p.Pos(), "nothing derived from the receive buffer is used between its release and the next receive",
			"the receive buffer is used after it was returned to the pool ("+bad+"): the receive loop may already be reading another datagram into it")
	}
	// R12.2: per iteration at most one release
	// an iteration ends at the loop header; a path that leaves the loop is followed to the function's return, so that a
	// release on the way out (after `break`) is counted together with the one at the top of that last iteration
	res := core.CountQuery{Fn: fn, StartBlock: loop.Header, Stop: func(from, to *ssa.BasicBlock) (bool, string) {
		if to == loop.Header {
			return true, "latch"
		}
		return false, ""
	}, Event: func(i ssa.Instruction) int {
		if putSet[i] {
			return 1
		}
		return 0
	}}.Run()
	mx := maxAll(res)
	r2.Check(mx <= 1, name+":release-at-most-once", puts[0].Pos(), fmt.Sprintf("%d release site(s); at most one executes per iteration", len(puts)),
		fmt.Sprintf("on some path one iteration returns the receive buffer to the pool %s times: two later datagrams are read into the same backing array, one is published twice and the other never", strings.TrimSuffix(fmtRange(res, "latch"), "")))
}

// checkPoolPerPipeline: the receive loop, the workers and the mirror loop of one protocol exchange buffers through
// channels, so they must all take from and return to the same pool: a buffer taken from another protocol's pool has
// that pool's size, and is later re-sliced and recycled with this protocol's size.
func checkPoolPerPipeline(prog *core.Program, rr *core.RuleRun) {
	loops, disps := mirrorLoops(prog)
	for _, p := range findPipelines(prog) {
		if p.run == nil || p.worker == nil || p.udpCh == nil {
			continue
		}
		msgT := chanElem(core.Deref(p.udpCh.Type()))
		fns := []*ssa.Function{p.run, p.worker}
		for _, m := range append(append([]*ssa.Function{}, loops...), disps...) {
			for _, par := range m.Params {
				if et := chanElem(par.Type()); et != nil && msgT != nil && types.Identical(et, msgT) {
					fns = append(fns, m)
				}
			}
		}
		used := map[*ssa.Global][]string{}
		for _, fn := range fns {
			allInstrs(fn, func(ins ssa.Instruction) {
				if c, ok := ins.(ssa.CallInstruction); ok {
					if g, op := poolOf(c); g != nil {
						used[g] = append(used[g], core.FuncName(fn)+":"+op)
					}
				}
			})
		}
		var names []string
		for g, us := range used {
			sort.Strings(us)
			names = append(names, g.Name()+" ("+strings.Join(us, ", ")+")")
		}
		sort.Strings(names)
		rr.Check(len(used) == 1, p.name+":one-pool", p.run.Pos(), "receive loop, workers and mirror loop use one pool: "+strings.Join(names, ""),
			fmt.Sprintf("the functions of one protocol use %d different pools: %s. A buffer from another pool has that pool's size; re-slicing it to this protocol's size panics when this size is larger, and recycling it into this pool hands out short buffers", len(used), strings.Join(names, "; ")))
	}
}

// checkTemplateSpecifiersReadOnly (R12.10): a template record is handed to the decoders by value, but its two
// specifier lists share their backing arrays with the copy kept in the template cache. A store into an element of
// such a list therefore changes how every later datagram of that exporter is decoded (and races with the other
// workers). Only the template parsers, which fill the record they were called on before it is cached, may write
// elements; they must not be reachable from the record decoders.
func checkTemplateSpecifiersReadOnly(prog *core.Program, rr *core.RuleRun) {
	isList := func(v ssa.Value) bool {
		ot, f := fieldLoad(v)
		if f == nil || !(f.Name() == "FieldSpecifiers" || f.Name() == "ScopeFieldSpecifiers") {
			return false
		}
		n := namedOf(ot)
		return n != nil && n.Obj().Name() == "TemplateRecord"
	}
	// the address chain of a write passes through an element of a specifier list; returns the list load
	var elemOf func(a ssa.Value, depth int) ssa.Value
	elemOf = func(a ssa.Value, depth int) ssa.Value {
		if depth > 8 || a == nil {
			return nil
		}
		switch x := a.(type) {
		case *ssa.IndexAddr:
			if isList(x.X) {
				return x.X
			}
			return elemOf(x.X, depth+1)
		case *ssa.FieldAddr:
			return elemOf(x.X, depth+1)
		case *ssa.Slice:
			if isList(x.X) {
				return x.X
			}
			return elemOf(x.X, depth+1)
		case *ssa.Phi:
			for _, e := range x.Edges {
				if l := elemOf(e, depth+1); l != nil {
					return l
				}
			}
		case *ssa.UnOp:
			if x.Op == token.MUL {
				// a pointer to an element kept in a local: follow what was stored into the local
				for _, sv := range core.ReachingStores(x) {
					if l := elemOf(sv, depth+1); l != nil {
						return l
					}
				}
			}
		}
		return nil
	}
	underDecode := map[*ssa.Function]bool{}
	for _, rel := range []string{"ipfix", "netflow/v9"} {
		if dd := prog.Method(rel, "Decoder", "decodeData"); dd != nil {
			for _, f := range prog.CG().ReachableRepo(dd) {
				underDecode[f] = true
			}
		} else {
			rr.Undecided(rel+":decodeData", token.NoPos, "record decoder not found")
		}
	}
	for _, fn := range prog.RepoFuncs() {
		rel := core.PkgRel(fn)
		if (rel != "ipfix" && rel != "netflow/v9") || fn.Synthetic != "" {
			continue
		}
		reads, writes := 0, 0
		ownRecord := func(list ssa.Value) bool {
			// the list of the record this method was called on (a parser filling its own record)
			if fn.Signature.Recv() == nil || len(fn.Params) == 0 || underDecode[fn] {
				return false
			}
			if n := namedOf(fn.Params[0].Type()); n == nil || n.Obj().Name() != "TemplateRecord" {
				return false
			}
			if _, isPtr := fn.Params[0].Type().(*types.Pointer); !isPtr {
				return false
			}
			ld, ok := stripConv(list).(*ssa.UnOp)
			if !ok {
				return false
			}
			fa, ok := ld.X.(*ssa.FieldAddr)
			return ok && fa.X == ssa.Value(fn.Params[0])
		}
		bad := func(ins ssa.Instruction, list ssa.Value, what string) {
			if ownRecord(list) {
				return
			}
			writes++
			rr.Fail(core.FuncName(fn)+":writes-specifier", ins.Pos(), what+" an element of a template's "+fieldLoadName(list)+": the list shares its storage with the cached template, so this datagram changes how later datagrams of the exporter are decoded")
		}
		allInstrs(fn, func(ins ssa.Instruction) {
			switch x := ins.(type) {
			case *ssa.IndexAddr:
				if isList(x.X) {
					reads++
				}
			case *ssa.Range:
				if isList(x.X) {
					reads++
				}
			case *ssa.Store:
				if l := elemOf(x.Addr, 0); l != nil {
					bad(ins, l, "stores into")
				}
			case ssa.CallInstruction:
				com := x.Common()
				if b, ok := com.Value.(*ssa.Builtin); ok {
					if b.Name() == "append" && len(com.Args) >= 1 {
						// append(list, ...) writes behind the list's length into its backing array whenever there is
						// spare capacity - the array of the cached template
						if isList(com.Args[0]) {
							bad(ins, com.Args[0], "appends to (writing into the spare capacity of)")
						} else if sl, isSl := com.Args[0].(*ssa.Slice); isSl && isList(sl.X) {
							bad(ins, sl.X, "appends to (writing into the array of)")
						}
					}
					if b.Name() == "copy" && len(com.Args) == 2 {
						if l := elemOf(com.Args[0], 0); l != nil {
							bad(ins, l, "copies into")
						} else if isList(com.Args[0]) {
							bad(ins, com.Args[0], "copies into")
						}
					}
					return
				}
				if i, ok := elemWriters[calleeName(x)]; ok && i < len(com.Args) {
					if l := elemOf(com.Args[i], 0); l != nil {
						bad(ins, l, short(calleeName(x))+" writes")
					}
					return
				}
				// a pointer-receiver method of the repository called on an element, from a record decoder
				if f := com.StaticCallee(); f != nil && prog.IsRepoFunc(f) && f.Signature.Recv() != nil && len(com.Args) > 0 && underDecode[fn] {
					if _, isPtr := f.Signature.Recv().Type().(*types.Pointer); isPtr {
						if l := elemOf(com.Args[0], 0); l != nil && len(sharedStoresThroughRecv(f)) > 0 {
							bad(ins, l, core.FuncName(f)+" writes through its receiver,")
						}
					}
				}
			}
		})
		if reads > 0 && writes == 0 {
			rr.OK(core.FuncName(fn)+":specifiers-read-only", fn.Pos(), fmt.Sprintf("%d element accesses, no write into a cached list", reads))
		}
	}
}

// sharedStoresThroughRecv: stores of f whose address is rooted at f's receiver.
func sharedStoresThroughRecv(f *ssa.Function) []ssa.Instruction {
	var out []ssa.Instruction
	if len(f.Params) == 0 {
		return nil
	}
	allInstrs(f, func(ins ssa.Instruction) {
		if st, ok := ins.(*ssa.Store); ok && core.AddrRoot(st.Addr) == ssa.Value(f.Params[0]) {
			out = append(out, ins)
		}
	})
	return out
}

// checkMirrorOwnBuffer (R12.6 / R13.6): what a worker hands to the mirror queue is a copy of the datagram in a pool
// buffer of its own. The mirror loop releases the buffer of every message it takes from that queue, so queueing the
// received message itself (or a struct sharing its body) means the receive buffer is released twice.
func checkMirrorOwnBuffer(r6 *core.RuleRun, fn *ssa.Function, loop *core.Loop, name string) {
	allInstrs(fn, func(ins ssa.Instruction) {
		sel, ok := ins.(*ssa.Select)
		if !ok {
			return
		}
		for _, st := range sel.States {
			if st.Dir != types.SendOnly || !isUDPChan(st.Chan) {
				continue
			}
			key := name + ":mirror-own-buffer"
			// the body of the sent struct: append(X[:0], msg.body...) with X from a Get of this iteration
			okCopy := false
			for v := range core.BackwardSlice(st.Send, core.SliceOpts{}) {
				ap, ok := v.(*ssa.Call)
				if !ok {
					continue
				}
				if b, ok := ap.Common().Value.(*ssa.Builtin); !ok || b.Name() != "append" {
					continue
				}
				fromGet := false
				for a := range core.BackwardSlice(ap.Common().Args[0], core.SliceOpts{}) {
					if c, ok := a.(*ssa.Call); ok {
						if _, op := poolOf(c); op == "Get" && loop != nil && loop.Contains(c) {
							fromGet = true
						}
					}
				}
				if sl, ok := ap.Common().Args[0].(*ssa.Slice); ok && fromGet {
					if h, ok := ssaConstInt(sl.High); ok && h == 0 {
						okCopy = true
					}
				}
			}
			r6.Check(okCopy, key, sel.Pos(), "mirror body = append(<fresh pool buffer>[:0], body...)", "the datagram handed to the mirror queue is not a copy in its own pool buffer: the mirror goroutine reads a buffer the worker has already recycled")
		}
	})
}
