package rules

import (
	"fmt"
	"go/token"
	"go/types"
	"sort"
	"strings"

	"golang.org/x/tools/go/ssa"

	"verif/internal/core"
)

func init() { register("C14", checkC14) }

// printf-style sinks: static callee -> index of the format parameter
var printfSinks = map[string]int{
	"fmt.Printf": 0, "fmt.Sprintf": 0, "fmt.Errorf": 0, "fmt.Fprintf": 1, "fmt.Sscanf": 1, "fmt.Fscanf": 1, "fmt.Appendf": 1,
	"log.Printf": 0, "log.Fatalf": 0, "log.Panicf": 0,
	"(*log.Logger).Printf": 1, "(*log.Logger).Fatalf": 1, "(*log.Logger).Panicf": 1,
	"(*testing.common).Errorf": 1, "(*testing.common).Fatalf": 1, "(*testing.common).Logf": 1,
}

// transformers: packages whose functions compute a new value from their argument (never a hand-off).
var transformPkgs = map[string]bool{"strings": true, "bytes": true, "strconv": true, "unicode": true, "unicode/utf8": true, "regexp": true, "sort": true,
	"encoding/json": true, "encoding/hex": true, "encoding/base64": true, "html": true, "net/url": true, "compress/gzip": true}

type msgUse struct {
	ins      ssa.Instruction
	kind     string // "handoff", "transform", "illegal", "send"
	what     string
	newlines int // constant "\n" concatenations on the way
	viaStr   bool
}

// producerImpl is one implementation of the MQueue interface.
type producerImpl struct {
	typ     string
	input   *ssa.Function
	recv    ssa.Instruction
	recvVal ssa.Value
	loop    *core.Loop
}

func findProducers(prog *core.Program) []*producerImpl {
	var out []*producerImpl
	iface := prog.NamedType("producer", "MQueue")
	if iface == nil {
		return nil
	}
	it := iface.Underlying().(*types.Interface)
	pk := prog.Pkg("producer")
	sc := pk.Types.Scope()
	for _, n := range sc.Names() {
		tn, ok := sc.Lookup(n).(*types.TypeName)
		if !ok {
			continue
		}
		pt := types.NewPointer(tn.Type())
		if _, isIface := tn.Type().Underlying().(*types.Interface); isIface || !types.Implements(pt, it) {
			continue
		}
		fn := prog.Method("producer", n, "inputMsg")
		if fn == nil {
			continue
		}
		p := &producerImpl{typ: n, input: fn}
		// the receive from the channel parameter
		allInstrs(fn, func(ins ssa.Instruction) {
			switch x := ins.(type) {
			case *ssa.UnOp:
				if x.Op == token.ARROW && isMQChan(x.X) && isParam(fn, x.X) {
					p.recv = x
					if x.CommaOk {
						p.recvVal = extractOf(x, 0)
					} else {
						p.recvVal = x
					}
				}
			case *ssa.Select:
				idx := 2
				for _, st := range x.States {
					if st.Dir == types.RecvOnly {
						if isMQChan(st.Chan) && isParam(fn, st.Chan) {
							p.recv = x
							p.recvVal = extractOf(x, idx)
						}
						idx++
					}
				}
			}
		})
		if p.recv != nil {
			p.loop = core.LoopOf(fn, p.recv)
		}
		out = append(out, p)
	}
	sort.Slice(out, func(i, j int) bool { return out[i].typ < out[j].typ })
	return out
}

func isParam(fn *ssa.Function, v ssa.Value) bool {
	for _, p := range fn.Params {
		if v == ssa.Value(p) {
			return true
		}
	}
	return false
}

// flowOfMessage follows the received message forward through value-preserving operations and
// classifies every terminal use.
func flowOfMessage(prog *core.Program, p *producerImpl) []msgUse {
	var uses []msgUse
	type st struct {
		v   ssa.Value
		nl  int
		str bool
	}
	seen := map[ssa.Value]bool{}
	var visit func(s st)
	visit = func(s st) {
		if s.v == nil || seen[s.v] {
			return
		}
		seen[s.v] = true
		for _, ref := range referrers(s.v) {
			switch x := ref.(type) {
			case *ssa.DebugRef:
			case *ssa.Convert:
				visit(st{x, s.nl, s.str || isStringType(x.Type())})
			case *ssa.ChangeType:
				visit(st{x, s.nl, s.str})
			case *ssa.MakeInterface:
				visit(st{x, s.nl, s.str})
			case *ssa.Phi:
				visit(st{x, s.nl, s.str})
			case *ssa.Extract:
				visit(st{x, s.nl, s.str})
			case *ssa.BinOp:
				if x.Op == token.ADD && isStringType(x.Type()) {
					if c, ok := x.Y.(*ssa.Const); ok && x.X == s.v && c.Value != nil && c.Value.ExactString() == `"\n"` {
						visit(st{x, s.nl + 1, s.str})
						continue
					}
					uses = append(uses, msgUse{ins: x, kind: "transform", what: "string concatenation other than appending \"\\n\""})
					continue
				}
				if x.Op == token.EQL || x.Op == token.NEQ {
					continue // nil / emptiness tests
				}
				uses = append(uses, msgUse{ins: x, kind: "transform", what: "operator " + x.Op.String()})
			case *ssa.Store:
				if x.Val != s.v {
					continue
				}
				root := core.AddrRoot(x.Addr)
				if a, ok := root.(*ssa.Alloc); ok {
					// a local object (struct literal, varargs array, local variable): follow its loads and its uses as a whole
					for _, b := range a.Parent().Blocks {
						for _, ins := range b.Instrs {
							if u, ok := ins.(*ssa.UnOp); ok && u.Op == token.MUL && core.AddrRoot(u.X) == ssa.Value(a) {
								visit(st{u, s.nl, s.str})
							}
							if sl, ok := ins.(*ssa.Slice); ok && sl.X == ssa.Value(a) {
								visit(st{sl, s.nl, s.str})
							}
						}
					}
					visit(st{a, s.nl, s.str})
					continue
				}
				uses = append(uses, msgUse{ins: x, kind: "illegal", what: "message stored to non-local memory"})
			case *ssa.Slice:
				if _, isArr := core.Deref(x.X.Type()).Underlying().(*types.Array); isArr && x.Low == nil && x.High == nil {
					visit(st{x, s.nl, s.str}) // varargs array to slice
					continue
				}
				uses = append(uses, msgUse{ins: x, kind: "transform", what: "re-slicing the message"})
			case *ssa.FieldAddr:
				if _, isAlloc := s.v.(*ssa.Alloc); isAlloc {
					continue // addressing another field of the local wrapper object
				}
				uses = append(uses, msgUse{ins: ref, kind: "transform", what: "field access on the message"})
			case *ssa.UnOp:
				if _, isAlloc := s.v.(*ssa.Alloc); isAlloc && x.Op == token.MUL {
					visit(st{x, s.nl, s.str})
					continue
				}
				uses = append(uses, msgUse{ins: ref, kind: "transform", what: "operator " + x.Op.String()})
			case *ssa.IndexAddr:
				if _, isAlloc := s.v.(*ssa.Alloc); isAlloc {
					continue // addressing an element of the local varargs array
				}
				uses = append(uses, msgUse{ins: ref, kind: "transform", what: "indexing the message"})
			case *ssa.Index, *ssa.Lookup:
				uses = append(uses, msgUse{ins: ref, kind: "transform", what: "indexing the message"})
			case *ssa.Send:
				if x.X == s.v {
					uses = append(uses, msgUse{ins: x, kind: "send", what: "channel send", newlines: s.nl})
				}
			case *ssa.Select:
				for _, state := range x.States {
					if state.Dir == types.SendOnly && state.Send == s.v {
						uses = append(uses, msgUse{ins: x, kind: "send", what: "channel send", newlines: s.nl})
					}
				}
			case *ssa.Return, *ssa.If:
			case ssa.CallInstruction:
				com := x.Common()
				if b, ok := com.Value.(*ssa.Builtin); ok {
					switch b.Name() {
					case "append":
						if v, ok := x.(ssa.Value); ok {
							if com.Args[0] != s.v {
								uses = append(uses, msgUse{ins: x, kind: "batch", what: "append to batch"})
							}
							visit(st{v, s.nl, s.str})
						}
					case "len", "cap":
					default:
						uses = append(uses, msgUse{ins: x, kind: "transform", what: "builtin " + b.Name()})
					}
					continue
				}
				f := com.StaticCallee()
				name := ""
				pkg := ""
				if f != nil {
					name = f.String()
					if f.Pkg != nil {
						pkg = f.Pkg.Pkg.Path()
					}
				} else if com.IsInvoke() {
					name = com.Method.FullName()
					if com.Method.Pkg() != nil {
						pkg = com.Method.Pkg().Path()
					}
				}
				if idx, isPrintf := printfSinks[name]; isPrintf {
					pos := argIndex(com, s.v)
					if pos == idx {
						uses = append(uses, msgUse{ins: x, kind: "illegal", what: "message used as the format string of " + name})
						continue
					}
				}
				switch {
				case name == "fmt.Fprint" || name == "fmt.Fprintln" || name == "fmt.Fprintf":
					nl := s.nl
					if name == "fmt.Fprintln" {
						nl++
					}
					if name == "fmt.Fprintf" {
						if c, ok := com.Args[1].(*ssa.Const); ok && c.Value != nil {
							fs := strings.Trim(c.Value.ExactString(), `"`)
							switch fs {
							case "%s":
							case `%s\n`:
								nl++
							default:
								uses = append(uses, msgUse{ins: x, kind: "transform", what: "Fprintf with format " + fs})
								continue
							}
						}
					}
					uses = append(uses, msgUse{ins: x, kind: "handoff", what: name, newlines: nl, viaStr: s.str})
				case transformPkgs[pkg] || name == "fmt.Sprint" || name == "fmt.Sprintf" || name == "fmt.Sprintln":
					uses = append(uses, msgUse{ins: x, kind: "transform", what: "call of " + name})
				case f != nil && prog.IsRepoFunc(f):
					uses = append(uses, msgUse{ins: x, kind: "transform", what: "passed to repository function " + core.FuncName(f) + " (not followed)"})
				case strings.HasPrefix(name, "(*log.Logger)") || strings.HasPrefix(name, "log."):
					// logging a copy is not a delivery
				default:
					uses = append(uses, msgUse{ins: x, kind: "handoff", what: name, newlines: s.nl, viaStr: s.str})
				}
			default:
				uses = append(uses, msgUse{ins: ref, kind: "transform", what: fmt.Sprintf("%T", ref)})
			}
		}
	}
	visit(st{p.recvVal, 0, false})
	return uses
}

func isStringType(t types.Type) bool {
	b, ok := t.Underlying().(*types.Basic)
	return ok && b.Kind() == types.String
}

func argIndex(com *ssa.CallCommon, v ssa.Value) int {
	for i, a := range com.Args {
		if a == v {
			return i
		}
	}
	return -1
}

func checkC14(rep *core.Report) {
	rep.Explanation = "For every implementation of the producer back-end interface: the dequeued message is followed forward through value-preserving operations only (conversions, struct/array packing, appending exactly \"\\n\" for the raw socket); every terminal use is classified as hand-off to the back-end, transformation (violation) or interpretation as a printf format (violation). Per dequeue iteration the number of hand-offs is counted over all CFG paths: exactly one on paths without a back-end error, a cycle through a hand-off must take that hand-off's error edge and a counter test against the configured retry limit; batching appends each message exactly once and clears the batch only after the write. One consumer goroutine, no goroutine per message, no re-queue. Reconnection/fault recovery and delivery inside the Kafka/NSQ/NATS clients are not decided (fault-sequence behaviour of foreign code)."
	rep.Trust("net.Conn.Write/fmt.Fprint write their operand verbatim; Kafka/NSQ/NATS client libraries deliver what they are handed")
	prog := rep.Prog
	r1 := rep.Rule("R14.1", "no dequeued message reaches a printf-style format parameter", 5)
	r2 := rep.Rule("R14.2", "the message reaches the back-end unmodified (raw socket: followed by exactly one newline)", 5)
	r3 := rep.Rule("R14.3", "exactly one hand-off per dequeued message on error-free paths; retries only after an error and bounded", 5)
	r4 := rep.Rule("R14.4", "single consumer: no goroutine per message, no re-queue, one inputMsg started per producer", 5)
	prods := findProducers(prog)
	checkPayloadNotFormat(prog, r1)
	// transitive printf wrappers in the repo: (function, param index)
	wrappers := printfWrappers(prog)
	for _, p := range prods {
		name := core.FuncName(p.input)
		if p.recv == nil || p.loop == nil {
			continue
		}
		uses := flowOfMessage(prog, p)
		var handoffs []msgUse
		var batches []ssa.Instruction
		for _, u := range uses {
			switch u.kind {
			case "illegal":
				if !strings.Contains(u.what, "format string") {
					r2.Fail(name+":use", u.ins.Pos(), u.what)
				}
			case "transform":
				// repo wrappers that forward to a format: R14.1
				if c, ok := u.ins.(ssa.CallInstruction); ok {
					if f := c.Common().StaticCallee(); f != nil && wrappers[f] != nil {
						continue
					}
				}
				r2.Fail(name+":transform", u.ins.Pos(), "the message is transformed before delivery: "+u.what)
			case "handoff":
				handoffs = append(handoffs, u)
			case "batch":
				batches = append(batches, u.ins)
			case "send":
				// sends: to the back-end's input channel (hand-off) or back to our own queue (re-queue)
				if sendsTo(u.ins, p.input.Params) {
					r4.Fail(name+":requeue", u.ins.Pos(), "message sent back to the producer's own input queue: duplicates / reordering")
				} else {
					handoffs = append(handoffs, u)
				}
			}
		}
		if len(handoffs) == 0 {
			r2.Fail(name+":handoff", p.recv.Pos(), "the dequeued message never reaches a back-end call")
			continue
		}
		// a container the message is put into and that is handed over by reference must be a fresh object per
		// dequeued message: asynchronous clients keep the pointer and read it later
		for _, h := range handoffs {
			var ops []ssa.Value
			switch x := h.ins.(type) {
			case *ssa.Send:
				ops = append(ops, x.X)
			case *ssa.Select:
				for _, st := range x.States {
					if st.Dir == types.SendOnly {
						ops = append(ops, st.Send)
					}
				}
			case ssa.CallInstruction:
				ops = append(ops, x.Common().Args...)
			}
			for _, op := range ops {
				al, isAlloc := underIface(stripConv(op)).(*ssa.Alloc)
				if !isAlloc || p.loop == nil {
					continue
				}
				if _, isStruct := core.Deref(al.Type()).Underlying().(*types.Struct); !isStruct {
					continue
				}
				r2.Check(p.loop.Blocks[al.Block()], name+":fresh-container-per-message", h.ins.Pos(), "the object handed over is allocated for this message",
					"the message is put into an object allocated once, outside the dequeue loop, and that object is handed to the back-end by reference for every message: a client that reads it later (asynchronous producers do) sees the payload of a later message - duplicates and losses with no error reported")
			}
		}
		isRaw := strings.Contains(strings.ToLower(p.typ), "rawsocket")
		for _, h := range handoffs {
			want := 0
			if isRaw {
				want = 1
			}
			r2.Check(h.newlines == want, name+":newline:"+h.what, h.ins.Pos(), fmt.Sprintf("%d newline(s) appended", h.newlines),
				fmt.Sprintf("%d newline(s) appended on the way to %s, want %d", h.newlines, h.what, want))
		}
		// ---- R14.3 ----
		hset := map[ssa.Instruction]bool{}
		for _, h := range handoffs {
			hset[h.ins] = true
		}
		checkHandoffCounts(r3, p, name, hset, batches)
		// ---- R14.4 ----
		goN := 0
		allInstrs(p.input, func(ins ssa.Instruction) {
			if _, ok := ins.(*ssa.Go); ok && p.loop.Contains(ins) {
				goN++
				r4.Fail(name+":go-per-message", ins.Pos(), "a goroutine is started per message: delivery order is no longer the dequeue order")
			}
		})
		if goN == 0 {
			r4.OK(name+":no-go", p.input.Pos(), "")
		}
	}
	// Producer.Run starts exactly one inputMsg, outside any loop
	if run := prog.Method("producer", "Producer", "Run"); run != nil {
		n, inLoop := 0, false
		for _, fn := range append([]*ssa.Function{run}, run.AnonFuncs...) {
			allInstrs(fn, func(ins ssa.Instruction) {
				if c, ok := ins.(ssa.CallInstruction); ok && c.Common().IsInvoke() && c.Common().Method.Name() == "inputMsg" {
					n++
					if core.LoopOf(fn, ins) != nil {
						inLoop = true
					}
				}
			})
		}
		goes := 0
		allInstrs(run, func(ins ssa.Instruction) {
			if _, ok := ins.(*ssa.Go); ok {
				goes++
				if core.LoopOf(run, ins) != nil {
					inLoop = true
				}
			}
		})
		r4.Check(n == 1 && goes == 1 && !inLoop, "(*producer.Producer).Run:one-consumer", run.Pos(), "one consumer goroutine per producer", fmt.Sprintf("Run starts %d consumers in %d goroutines (loop=%v): messages would be delivered out of order", n, goes, inLoop))
	} else {
		r4.Undecided("(*producer.Producer).Run", token.NoPos, "Producer.Run not found")
	}
	// ---- R14.5 ---- each producer owns its back-end object
	r5 := rep.Rule("R14.5", "every Producer gets a back-end object of its own (created for it, not taken from package-level state)", 1)
	nMQ := 0
	for _, fn := range prog.RepoFuncs() {
		allInstrs(fn, func(ins ssa.Instruction) {
			st, ok := ins.(*ssa.Store)
			if !ok {
				return
			}
			o, f, ok := core.FieldOf(st.Addr)
			if !ok || f.Name() != "MQ" || !typeIs(o, core.ModPath+"/producer", "Producer") {
				return
			}
			nMQ++
			shared := ""
			for v := range core.BackwardSlice(st.Val, core.SliceOpts{NoCallArgs: true}) {
				if g, isG := v.(*ssa.Global); isG && g.Pkg != nil && core.IsRepoPkg(g.Pkg.Pkg) {
					shared = g.Name()
				}
				if lk, isL := v.(*ssa.Lookup); isL {
					if g := globalRoot(lk.X, 0, map[ssa.Value]bool{}); g != nil {
						shared = g.Name()
					}
				}
			}
			r5.Check(shared == "", core.FuncName(fn)+":Producer.MQ", st.Pos(), "the back-end object is created in this call",
				"the back-end object stored into the Producer comes from the package-level variable "+shared+": every producer of that kind (one per protocol) shares one object, so a later producer's setup replaces the connection and configuration the earlier one is delivering with - its messages go to the wrong destination or are lost")
		})
	}
	if nMQ == 0 {
		r5.Undecided("Producer.MQ", token.NoPos, "no construction of a Producer found")
	}
	// ---- R14.6 ---- the connection in use is given up only for a replacement
	r6 := rep.Rule("R14.6", "inside the delivery loop a back-end connection kept in the driver is closed only after its replacement has been stored", 5)
	for _, p := range prods {
		name := core.FuncName(p.input)
		if p.loop == nil || len(p.input.Params) == 0 {
			continue
		}
		recvP := ssa.Value(p.input.Params[0])
		n := 0
		allInstrs(p.input, func(ins ssa.Instruction) {
			c, ok := ins.(ssa.CallInstruction)
			if !ok || !p.loop.Blocks[ins.Block()] {
				return
			}
			com := c.Common()
			isClose := (com.IsInvoke() && com.Method.Name() == "Close") || (com.StaticCallee() != nil && com.StaticCallee().Name() == "Close")
			if !isClose {
				return
			}
			var closed ssa.Value
			if com.IsInvoke() {
				closed = com.Value
			} else if len(com.Args) > 0 {
				closed = com.Args[0]
			}
			ld, isLoad := stripConv(closed).(*ssa.UnOp)
			if !isLoad || ld.Op != token.MUL {
				return
			}
			fa, isFA := ld.X.(*ssa.FieldAddr)
			if !isFA || core.AddrRoot(fa) != recvP {
				return
			}
			n++
			_, fld, _ := core.FieldOf(fa)
			replaced := false
			allInstrs(p.input, func(i2 ssa.Instruction) {
				st, ok := i2.(*ssa.Store)
				if !ok {
					return
				}
				fa2, ok := st.Addr.(*ssa.FieldAddr)
				if !ok || core.AddrRoot(fa2) != recvP || fa2.Field != fa.Field {
					return
				}
				if core.InstrDominates(ld, st) && core.InstrDominates(st, ins) {
					replaced = true
				}
			})
			r6.Check(replaced, name+":close-after-replace:"+fld.Name(), ins.Pos(), "closes the old connection after the new one is in place",
				"the connection in "+fld.Name()+" is closed while it is still the one in use (no replacement stored before): if the re-dial that follows fails, every later write fails on a connection the driver closed itself, the error no longer looks like a broken peer, and delivery never resumes")
		})
		if n == 0 {
			r6.OK(name+":no-close-in-loop", p.input.Pos(), "the delivery loop closes no connection it keeps using")
		}
	}
}

func sendsTo(ins ssa.Instruction, params []*ssa.Parameter) bool {
	isP := func(v ssa.Value) bool {
		for _, p := range params {
			if v == ssa.Value(p) {
				return true
			}
		}
		return false
	}
	switch x := ins.(type) {
	case *ssa.Send:
		return isP(x.Chan)
	case *ssa.Select:
		for _, st := range x.States {
			if st.Dir == types.SendOnly && isP(st.Chan) {
				return true
			}
		}
	}
	return false
}

// checkPayloadNotFormat (R14.1 / R05.9): in every producer back-end the dequeued message is followed forward; no use of
// it is the format operand of a printf-style function, directly or through a repo wrapper.
func checkPayloadNotFormat(prog *core.Program, r1 *core.RuleRun) {
	prods := findProducers(prog)
	if len(prods) < 5 {
		r1.Undecided("anchors", token.NoPos, fmt.Sprintf("%d MQueue implementations found, want at least 5", len(prods)))
	}
	wrappers := printfWrappers(prog)
	for _, p := range prods {
		name := core.FuncName(p.input)
		if p.recv == nil || p.loop == nil {
			r1.Undecided(name+":receive", p.input.Pos(), "no receive from the message channel parameter inside a loop")
			continue
		}
		uses := flowOfMessage(prog, p)
		nFmt := 0
		for _, u := range uses {
			switch u.kind {
			case "illegal":
				if strings.Contains(u.what, "format string") {
					nFmt++
					r1.Fail(name+":format", u.ins.Pos(), u.what+": any '%' in a published document is interpreted as a verb")
				}
			case "transform":
				if c, ok := u.ins.(ssa.CallInstruction); ok {
					if f := c.Common().StaticCallee(); f != nil && wrappers[f] != nil {
						r1.Fail(name+":format-wrapper", u.ins.Pos(), "message passed to "+core.FuncName(f)+" which forwards it to a printf format")
						nFmt++
					}
				}
			}
		}
		if nFmt == 0 {
			r1.OK(name+":format", p.recv.Pos(), fmt.Sprintf("%d uses of the message, none as a format", len(uses)))
		}
	}
}

// printfWrappers: repo functions that forward one of their parameters to a printf format.
func printfWrappers(prog *core.Program) map[*ssa.Function][]int {
	out := map[*ssa.Function][]int{}
	for changed := true; changed; {
		changed = false
		for _, fn := range prog.RepoFuncs() {
			allInstrs(fn, func(ins ssa.Instruction) {
				c, ok := ins.(ssa.CallInstruction)
				if !ok {
					return
				}
				f := c.Common().StaticCallee()
				if f == nil {
					return
				}
				var idxs []int
				if i, ok := printfSinks[f.String()]; ok {
					idxs = []int{i}
				} else if w, ok := out[f]; ok {
					idxs = w
				}
				for _, i := range idxs {
					if i >= len(c.Common().Args) {
						continue
					}
					sl := core.BackwardSlice(c.Common().Args[i], core.SliceOpts{})
					for pi, p := range fn.Params {
						if sl[p] && !containsInt(out[fn], pi) {
							out[fn] = append(out[fn], pi)
							changed = true
						}
					}
				}
			})
		}
	}
	return out
}

func containsInt(s []int, x int) bool {
	for _, y := range s {
		if y == x {
			return true
		}
	}
	return false
}

// checkHandoffCounts implements R14.3 for one back-end.
func checkHandoffCounts(r3 *core.RuleRun, p *producerImpl, name string, hset map[ssa.Instruction]bool, batches []ssa.Instruction) {
	fn := p.input
	stop := core.IterationStop(p.loop)
	// batching back-end: the message is appended to a batch; the hand-off is the batch write
	var batchAppend ssa.Instruction
	if len(batches) == 1 {
		batchAppend = batches[0]
	} else if len(batches) > 1 {
		r3.Fail(name+":batch-append-once", batches[1].Pos(), "the message is appended to a batch at several sites")
		return
	}
	// Select-based hand-off: the event is taking the edge on which the send case was chosen
	event := func(ins ssa.Instruction) int {
		if hset[ins] {
			if _, isSel := ins.(*ssa.Select); isSel {
				return 0 // counted on the chosen-case edge below
			}
			return 1
		}
		return 0
	}
	type edge struct {
		b  *ssa.BasicBlock
		si int
	}
	selEdges := map[edge]bool{}
	for h := range hset {
		sel, ok := h.(*ssa.Select)
		if !ok {
			continue
		}
		sendIdx := -1
		for i, st := range sel.States {
			if st.Dir == types.SendOnly {
				sendIdx = i
			}
		}
		idx := extractOf(sel, 0)
		if idx == nil {
			r3.Undecided(name+":select-index", sel.Pos(), "select index not examined")
			return
		}
		found := false
		for _, ref := range referrers(idx) {
			if b, ok := ref.(*ssa.BinOp); ok && b.Op == token.EQL {
				if c, ok := ssaConstInt(b.Y); ok && int(c) == sendIdx {
					for _, r2 := range referrers(b) {
						if ifi, ok := r2.(*ssa.If); ok {
							selEdges[edge{ifi.Block(), 0}] = true
							found = true
						}
					}
				}
			}
		}
		if !found {
			r3.Undecided(name+":select-edge", sel.Pos(), "cannot identify the edge on which the send case is taken")
			return
		}
	}
	ev := event
	edgeEv := func(b *ssa.BasicBlock, si int) int {
		if selEdges[edge{b, si}] {
			return 1
		}
		return 0
	}
	// error values of call hand-offs
	errOf := map[ssa.Instruction]ssa.Value{}
	for h := range hset {
		if c, ok := h.(*ssa.Call); ok {
			if c.Type().String() == "error" {
				errOf[h] = c
			} else if t, ok := c.Type().(*types.Tuple); ok && t.Len() > 0 && t.At(t.Len()-1).Type().String() == "error" {
				if e := extractOf(c, t.Len()-1); e != nil {
					errOf[h] = e
				}
			}
		}
	}
	errFree := func(b *ssa.BasicBlock, si int) bool {
		cond, truth, ok := core.IfEdge(b, si)
		if !ok {
			return true
		}
		if v, eqNil, ok := core.NilCompare(cond); ok {
			for _, e := range errOf {
				if v == e {
					return eqNil == truth // keep only the error-free side
				}
			}
		}
		return true
	}
	if batchAppend != nil {
		// (a) each received message is appended exactly once on the path where the receive was ok
		res := core.CountQuery{Fn: fn, Start: p.recv, Stop: stop, Event: func(i ssa.Instruction) int {
			if i == batchAppend {
				return 1
			}
			return 0
		}}.Run()
		r3.Check(res.Max["latch"] <= 1 && res.Max["exit"] <= 1, name+":batch-append-once", batchAppend.Pos(), "message appended to the batch at most once per dequeue "+fmtRange(res, "latch"), "a dequeued message can be appended to the batch more than once")
		r3.Check(core.InstrDominates(p.recv, batchAppend), name+":batch-append-after-receive", batchAppend.Pos(), "", "batch append not dominated by the receive")
		// (b) the batch is written by a back-end call taking the batch, and cleared only after that call
		var write *ssa.Call
		allInstrs(fn, func(ins ssa.Instruction) {
			if c, ok := ins.(*ssa.Call); ok && c.Common().StaticCallee() != nil && !isRepoOrStd(c.Common().StaticCallee()) {
				sl := core.BackwardSlice(c, core.SliceOpts{})
				if sl[batchAppend.(ssa.Value)] {
					write = c
				}
			}
		})
		if write == nil {
			r3.Fail(name+":batch-write", fn.Pos(), "no back-end call takes the batch")
			return
		}
		// every phi edge that resets the batch (nil/empty) comes from a block dominated by the write
		resets, bad := 0, 0
		allInstrs(fn, func(ins ssa.Instruction) {
			phi, ok := ins.(*ssa.Phi)
			if !ok || !types.Identical(phi.Type(), batchAppend.(ssa.Value).Type()) {
				return
			}
			for i, e := range phi.Edges {
				c, isConst := e.(*ssa.Const)
				_, isMake := e.(*ssa.MakeSlice)
				if (isConst && c.Value == nil) || isMake {
					from := phi.Block().Preds[i]
					if p.loop.Blocks[from] {
						resets++
						if !write.Block().Dominates(from) {
							bad++
						}
					}
				}
			}
		})
		r3.Check(resets > 0 && bad == 0, name+":batch-cleared-after-write", write.Pos(), fmt.Sprintf("%d reset(s), all after the batch write", resets), "the batch is reset on a path that has not written it: queued messages are lost")
		return
	}
	// plain back-ends
	res := core.CountQuery{Fn: fn, Start: p.recv, Stop: stop, Event: ev, EdgeEvent: edgeEv, EdgeOK: errFree}.Run()
	r3.Check(exactly(res, "latch", 1, 1), name+":one-handoff", p.recv.Pos(), "exactly one hand-off per dequeued message on error-free paths",
		fmt.Sprintf("on paths without a back-end error a dequeued message is handed over %s times (want exactly 1): lost or duplicated", fmtRange(res, "latch")))
	all := core.CountQuery{Fn: fn, Start: p.recv, Stop: stop, Event: ev, EdgeEvent: edgeEv}.Run()
	if all.Max["latch"] >= core.Inf {
		// inside a retry cycle the back-end must get the message by value on every attempt: a pointer to a
		// local container lets the callee consume it (net.Buffers.WriteTo does), so a retry re-sends a tail
		for h := range hset {
			if c, ok := h.(ssa.CallInstruction); ok {
				for _, a := range c.Common().Args {
					if al, isAlloc := a.(*ssa.Alloc); isAlloc && !p.loopLocalTo(al, fn, h) {
						r3.Fail(name+":retry-resends-whole-message", h.Pos(), "inside the retry loop the back-end call receives a pointer to a local message container built outside the loop: what a failed attempt consumed is not re-sent, the sink gets a fragment")
					}
				}
			}
		}
		// a retry cycle exists: it must only repeat after an error, and be bounded by a counter against a configured limit
		for h := range hset {
			e := errOf[h]
			if e == nil {
				continue
			}
			again := core.Walk{EdgeOK: func(b *ssa.BasicBlock, si int) bool {
				if b.Succs[si] == p.loop.Header {
					return false
				}
				return nilEdgeFilter(e, true)(b, si)
			}}.CanReach(h, h)
			r3.Check(!again, name+":retry-only-after-error", h.Pos(), "the hand-off repeats only through its error edge", "the hand-off can repeat although it succeeded: duplicates")
			r3.Check(retryBounded(fn, h, p.loop), name+":retry-bounded", h.Pos(), "retry loop exits on a counter reaching a configured limit", "the retry loop has no counter test against a configured limit: an unreachable sink blocks the queue forever")
			// connection repair: when the back-end keeps a connection that this function replaces after a failure, every
			// way from a failed hand-off to the next message passes the test that decides the replacement - otherwise a
			// configuration that gives up early (retry limit 0) never reconnects and every later message is lost
			var repairTest *ssa.If
			allInstrs(fn, func(ins ssa.Instruction) {
				st, ok := ins.(*ssa.Store)
				if !ok || !p.loop.Blocks[st.Block()] {
					return
				}
				if _, f, ok := core.FieldOf(st.Addr); !ok || !strings.Contains(strings.ToLower(f.Name()), "conn") {
					return
				}
				// the nearest test on the failed hand-off's error that controls the redial
				for b := st.Block(); b != nil && repairTest == nil; b = b.Idom() {
					if ifi, ok := b.Instrs[len(b.Instrs)-1].(*ssa.If); ok && b != st.Block() {
						if core.BackwardSlice(ifi.Cond, core.SliceOpts{})[e] {
							if _, _, isNil := core.NilCompare(ifi.Cond); !isNil {
								repairTest = ifi
							}
						}
					}
				}
			})
			if repairTest != nil {
				bypass := false
				w := core.Walk{Blocked: func(i ssa.Instruction) bool { return i == ssa.Instruction(repairTest) }, EdgeOK: nilEdgeFilter(e, false)}
				for i := range w.ReachInstrs(h) {
					if i.Block() == p.loop.Header && i == p.loop.Header.Instrs[0] {
						bypass = true
					}
				}
				r3.Check(!bypass, name+":repair-before-giving-up", repairTest.Pos(), "every path from a failed hand-off to the next message passes the connection-repair test",
					"after a failed hand-off the next message can be reached without passing the test that redials a broken connection (the give-up check comes first): with a retry limit of 0 the producer never reconnects and every later message is dropped")
			}
		}
	} else if all.Max["latch"] > 1 {
		r3.Fail(name+":handoff-max", p.recv.Pos(), fmt.Sprintf("a dequeued message can be handed over %s times", fmtRange(all, "latch")))
	}
}

func isRepoOrStd(f *ssa.Function) bool {
	if f.Pkg == nil {
		return true
	}
	path := f.Pkg.Pkg.Path()
	return core.IsRepoPkg(f.Pkg.Pkg) || !strings.Contains(path, ".")
}

// retryBounded: the innermost loop around h (inside the dequeue loop) has an exit edge guarded by a
// comparison between a counter (phi starting at a constant, incremented by 1) and a loaded field.
func retryBounded(fn *ssa.Function, h ssa.Instruction, outer *core.Loop) bool {
	inner := core.LoopOf(fn, h)
	if inner == nil || inner == outer {
		return false
	}
	ok := false
	for b := range inner.Blocks {
		ifi, isIf := b.Instrs[len(b.Instrs)-1].(*ssa.If)
		if !isIf {
			continue
		}
		leaves := !inner.Blocks[b.Succs[0]] || !inner.Blocks[b.Succs[1]]
		cmp, isCmp := ifi.Cond.(*ssa.BinOp)
		if !leaves || !isCmp {
			continue
		}
		isCounter := func(v ssa.Value) bool {
			phi, ok := v.(*ssa.Phi)
			if !ok || phi.Block() != inner.Header {
				return false
			}
			inc := false
			for _, e := range phi.Edges {
				if bo, ok := e.(*ssa.BinOp); ok && bo.Op == token.ADD && bo.X == ssa.Value(phi) {
					if c, ok := ssaConstInt(bo.Y); ok && c == 1 {
						inc = true
					}
				}
			}
			return inc
		}
		isLimit := func(v ssa.Value) bool { _, f := fieldLoad(v); return f != nil }
		if (isCounter(cmp.X) && isLimit(cmp.Y)) || (isCounter(cmp.Y) && isLimit(cmp.X)) {
			ok = true
		}
	}
	return ok
}

// loopLocalTo: the Alloc is (re)built inside the innermost loop around h (fresh per attempt).
func (p *producerImpl) loopLocalTo(a *ssa.Alloc, fn *ssa.Function, h ssa.Instruction) bool {
	inner := core.LoopOf(fn, h)
	if inner == nil || inner == p.loop {
		return true
	}
	for _, ref := range referrers(a) {
		if st, ok := ref.(*ssa.Store); ok && st.Addr == ssa.Value(a) && inner.Contains(st) {
			return true
		}
	}
	return false
}
