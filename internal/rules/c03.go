package rules

import (
	"fmt"
	"go/token"
	"go/types"
	"os"
	"sort"
	"strings"

	"golang.org/x/tools/go/ssa"

	"verif/internal/core"
)

func init() {
	register("C03", checkC03)
	register("C06", checkC06)
}

// evalSwitchFunc propagates a constant value for one integer parameter through the control flow of
// fn (no instruction is executed: only comparisons of that parameter with constants are folded) and
// returns the Return instruction reached. Conditions it cannot fold are decided by `policy`
// (true = take the true edge); ok=false if policy declines.
func evalSwitchFunc(fn *ssa.Function, param *ssa.Parameter, val int64, policy func(cond ssa.Value) (bool, bool)) (*ssa.Return, bool) {
	b := fn.Blocks[0]
	for steps := 0; steps < 500; steps++ {
		last := b.Instrs[len(b.Instrs)-1]
		switch t := last.(type) {
		case *ssa.Return:
			return t, true
		case *ssa.Jump:
			b = b.Succs[0]
		case *ssa.If:
			taken, decided := foldParamCond(t.Cond, param, val)
			if !decided {
				if policy == nil {
					return nil, false
				}
				var ok bool
				taken, ok = policy(t.Cond)
				if !ok {
					return nil, false
				}
			}
			if taken {
				b = b.Succs[0]
			} else {
				b = b.Succs[1]
			}
		default:
			return nil, false
		}
	}
	return nil, false
}

func foldParamCond(cond ssa.Value, param *ssa.Parameter, val int64) (bool, bool) {
	be, ok := cond.(*ssa.BinOp)
	if !ok {
		return false, false
	}
	var other ssa.Value
	swapped := false
	switch {
	case be.X == ssa.Value(param):
		other = be.Y
	case be.Y == ssa.Value(param):
		other, swapped = be.X, true
	default:
		return false, false
	}
	c, isC := ssaConstInt(other)
	if !isC {
		return false, false
	}
	a, b := val, c
	if swapped {
		a, b = c, val
	}
	switch be.Op {
	case token.EQL:
		return a == b, true
	case token.NEQ:
		return a != b, true
	case token.LSS:
		return a < b, true
	case token.LEQ:
		return a <= b, true
	case token.GTR:
		return a > b, true
	case token.GEQ:
		return a >= b, true
	}
	return false, false
}

// interpDescr describes how Interpret turns octets into a Go value for one abstract type.
type interpDescr struct {
	goType string
	octets int    // octets consumed (0 = all, identity)
	shape  string // "be", "byte0", "byte0==1", "float-bits", "identity", "string"
}

func describeInterp(fn *ssa.Function, v ssa.Value) interpDescr {
	mi, ok := v.(*ssa.MakeInterface)
	if !ok {
		return interpDescr{goType: "?"}
	}
	d := interpDescr{goType: types.TypeString(mi.X.Type(), func(p *types.Package) string { return p.Name() })}
	x := mi.X
	for {
		switch y := x.(type) {
		case *ssa.Convert:
			if isStringType(y.Type()) {
				d.shape = "string"
			}
			x = y.X
			continue
		case *ssa.ChangeType:
			x = y.X
			continue
		case *ssa.Call:
			n := calleeName(y)
			if strings.HasPrefix(n, "(encoding/binary.bigEndian).Uint") {
				d.octets = map[string]int{"Uint16": 2, "Uint32": 4, "Uint64": 8}[y.Common().StaticCallee().Name()]
				if d.shape == "" {
					d.shape = "be"
				}
				return d
			}
			if n == "math.Float32frombits" || n == "math.Float64frombits" {
				d.shape = "float-bits"
				x = y.Common().Args[0]
				continue
			}
			d.shape = "call:" + n
			return d
		case *ssa.BinOp:
			if y.Op == token.EQL {
				if c, ok := ssaConstInt(y.Y); ok {
					d.shape = fmt.Sprintf("byte0==%d", c)
					x = y.X
					continue
				}
			}
			d.shape = "op:" + y.Op.String()
			return d
		case *ssa.UnOp:
			if y.Op == token.MUL {
				if ia, ok := y.X.(*ssa.IndexAddr); ok {
					if i, ok := ssaConstInt(ia.Index); ok && i == 0 {
						d.octets = 1
						if d.shape == "" {
							d.shape = "byte0"
						}
						return d
					}
				}
				if d.shape == "" {
					d.shape = "identity"
				}
				return d
			}
		}
		return d
	}
}

// RFC 7011 section 6.1 encodings as vflow presents them (Go result type, octets, decoding shape).
var rfc7011Encodings = map[string]interpDescr{
	"Uint8": {"byte", 1, "byte0"}, "Uint16": {"uint16", 2, "be"}, "Uint32": {"uint32", 4, "be"}, "Uint64": {"uint64", 8, "be"},
	"Int8": {"int8", 1, "byte0"}, "Int16": {"int16", 2, "be"}, "Int32": {"int32", 4, "be"}, "Int64": {"int64", 8, "be"},
	"Float32": {"float32", 4, "float-bits"}, "Float64": {"float64", 8, "float-bits"},
	"Boolean": {"bool", 1, "byte0==1"}, "MacAddress": {"net.HardwareAddr", 0, "identity"}, "OctetArray": {"[]byte", 0, "identity"},
	"String": {"string", 0, "string"}, "DateTimeSeconds": {"uint32", 4, "be"}, "DateTimeMilliseconds": {"uint64", 8, "be"},
	"DateTimeMicroseconds": {"uint64", 8, "be"}, "DateTimeNanoseconds": {"uint64", 8, "be"},
	"Ipv4Address": {"net.IP", 0, "identity"}, "Ipv6Address": {"net.IP", 0, "identity"}, "Unknown": {"[]byte", 0, "identity"},
}

// natural sizes below which a field is "reduced-size encoded" and handed out as raw octets
var rfc7011MinLen = map[string]int64{"Uint8": 1, "Uint16": 2, "Uint32": 4, "Uint64": 8, "Int8": 1, "Int16": 2, "Int32": 4, "Int64": 8, "Float32": 4, "Float64": 8,
	"Boolean": 1, "MacAddress": 6, "OctetArray": 0, "String": 0, "DateTimeSeconds": 4, "DateTimeMilliseconds": 8, "DateTimeMicroseconds": 8, "DateTimeNanoseconds": 8,
	"Ipv4Address": 4, "Ipv6Address": 16, "Unknown": 0}

var ianaTypeNames = map[string]string{"unsigned8": "Uint8", "unsigned16": "Uint16", "unsigned32": "Uint32", "unsigned64": "Uint64", "signed8": "Int8", "signed16": "Int16",
	"signed32": "Int32", "signed64": "Int64", "float32": "Float32", "float64": "Float64", "boolean": "Boolean", "macAddress": "MacAddress", "octetArray": "OctetArray",
	"string": "String", "dateTimeSeconds": "DateTimeSeconds", "dateTimeMilliseconds": "DateTimeMilliseconds", "dateTimeMicroseconds": "DateTimeMicroseconds",
	"dateTimeNanoseconds": "DateTimeNanoseconds", "ipv4Address": "Ipv4Address", "ipv6Address": "Ipv6Address"}

// checkInterpretTable implements R03.2/R03.3 (shared by C03 and C06, which use the same interpreter).
func checkInterpretTable(rep *core.Report, r2, r3 *core.RuleRun) {
	prog := rep.Prog
	interp := prog.Func("ipfix", "Interpret")
	minLen := prog.Method("ipfix", "FieldType", "minLen")
	consts := fieldTypeConsts(rep)
	if interp == nil || minLen == nil || len(consts) == 0 {
		r2.Undecided("ipfix.Interpret", token.NoPos, "interpreter, its length table or the type constants were not found")
		return
	}
	var tParam *ssa.Parameter
	for _, p := range interp.Params {
		if typeIs(p.Type(), core.ModPath+"/ipfix", "FieldType") {
			tParam = p
		}
	}
	var names []string
	for n := range consts {
		names = append(names, n)
	}
	sort.Strings(names)
	for _, n := range names {
		v := consts[n]
		want, known := rfc7011Encodings[n]
		key := "ipfix.Interpret:" + n
		if !known {
			r2.Undecided(key, interp.Pos(), "abstract data type constant without an entry in the checker's RFC 7011 table")
			continue
		}
		ret, ok := evalSwitchFunc(interp, tParam, v, func(cond ssa.Value) (bool, bool) {
			// the only non-foldable test is the "field shorter than the type" guard: take "long enough"
			if be, ok := cond.(*ssa.BinOp); ok && be.Op == token.LSS {
				return false, true
			}
			return false, false
		})
		if !ok {
			r2.Undecided(key, interp.Pos(), "control flow of the interpreter could not be folded for this type")
			continue
		}
		got := describeInterp(interp, ret.Results[0])
		r2.Check(got == want, key, ret.Pos(), fmt.Sprintf("%s: %d octets, %s", got.goType, got.octets, got.shape),
			fmt.Sprintf("abstract type %s is decoded as %s from %d octets (%s); RFC 7011 6.1 / vflow's presentation requires %s from %d octets (%s)", n, got.goType, got.octets, got.shape, want.goType, want.octets, want.shape))
		// minLen(t): the reduced-size threshold and a lower bound for what the decoder reads
		mret, ok := evalSwitchFunc(minLen, minLen.Params[0], v, nil)
		if !ok {
			r2.Undecided(key+":minLen", minLen.Pos(), "length table could not be folded for this type")
			continue
		}
		ml, _ := ssaConstInt(mret.Results[0])
		r2.Check(ml == rfc7011MinLen[n] && int(ml) >= got.octets, key+":minLen", mret.Pos(), fmt.Sprintf("natural size %d >= octets read %d", ml, got.octets),
			fmt.Sprintf("minimum length of %s is %d, the type's natural size is %d and the decoder reads %d octets: shorter encodings are not handed out as raw octets (or the decoder reads past the field)", n, ml, rfc7011MinLen[n], got.octets))
	}
	// too-short fields are returned as the raw octets
	ret, ok := evalSwitchFunc(interp, tParam, 1, func(cond ssa.Value) (bool, bool) {
		if be, ok := cond.(*ssa.BinOp); ok && be.Op == token.LSS {
			return true, true
		}
		return false, false
	})
	if ok {
		got := describeInterp(interp, ret.Results[0])
		r2.Check(got.shape == "identity" && got.goType == "[]byte", "ipfix.Interpret:reduced-size", ret.Pos(), "shorter than the type => raw octets", "a field encoded shorter than its type's size is not returned as its raw octets")
	}
	// ---- R03.3 ----
	ft, constName, pos := fieldTypesTable(rep)
	for iana, cn := range ianaTypeNames {
		v, present := ft[iana]
		r3.Check(present && constName[v] == cn, "ipfix.FieldTypes:"+iana, pos, cn, fmt.Sprintf("IANA type name %q maps to %q, want constant %s", iana, constName[v], cn))
	}
}

// checkSameSpecifierProvenance implements R03.4 on a decodeData function.
func checkSameSpecifierProvenance(prog *core.Program, r4 *core.RuleRun, fn *ssa.Function, withEnterprise bool) {
	name := core.FuncName(fn)
	type appendSite struct {
		call  *ssa.Call
		which string
		loop  *core.Loop
	}
	var sites []appendSite
	allInstrs(fn, func(ins ssa.Instruction) {
		c, ok := ins.(*ssa.Call)
		if !ok {
			return
		}
		if b, ok := c.Common().Value.(*ssa.Builtin); !ok || b.Name() != "append" {
			return
		}
		loop := core.LoopOf(fn, c)
		if loop == nil {
			return
		}
		// specifier element accesses feeding the appended record
		which := map[string]bool{}
		idx := map[ssa.Value]bool{}
		for v := range core.BackwardSlice(c.Common().Args[1], core.SliceOpts{}) {
			ia, ok := v.(*ssa.IndexAddr)
			if !ok {
				continue
			}
			f := fieldLoadName(ia.X)
			if strings.HasSuffix(f, "FieldSpecifiers") {
				which[f] = true
				idx[ia.Index] = true
			}
		}
		key := fmt.Sprintf("%s:record-field", name)
		var w []string
		for k := range which {
			w = append(w, k)
		}
		sort.Strings(w)
		if len(w) == 0 {
			return // not the decoded-field append
		}
		r4.Check(len(w) == 1 && len(idx) == 1, key+":"+strings.Join(w, "+"), c.Pos(), "id, length, type and octets of a decoded field all come from one specifier element (same list, same index)",
			fmt.Sprintf("a decoded field mixes specifier elements (%v, %d distinct indexes): e.g. the id of one template field with the octets of another", w, len(idx)))
		// index ascends from 0 by 1 and is bounded by the list's length
		for i := range idx {
			phi, isPhi := i.(*ssa.Phi)
			okIdx := false
			if isPhi {
				z, inc := false, false
				for _, e := range phi.Edges {
					if cst, ok := ssaConstInt(e); ok && cst == 0 {
						z = true
					}
					if bo, ok := e.(*ssa.BinOp); ok && bo.Op == token.ADD && bo.X == ssa.Value(phi) {
						if c1, ok := ssaConstInt(bo.Y); ok && c1 == 1 {
							inc = true
						}
					}
				}
				okIdx = z && inc
			}
			// range loop: index = k+1 with k = phi(-1, index)
			if bo, ok := i.(*ssa.BinOp); ok && bo.Op == token.ADD {
				if c1, ok := ssaConstInt(bo.Y); ok && c1 == 1 {
					if phi, ok := bo.X.(*ssa.Phi); ok {
						neg, back := false, false
						for _, e := range phi.Edges {
							if cst, ok := ssaConstInt(e); ok && cst == -1 {
								neg = true
							}
							if e == ssa.Value(bo) {
								back = true
							}
						}
						okIdx = neg && back && len(phi.Edges) == 2
					}
				}
			}
			r4.Check(okIdx, key+":order:"+strings.Join(w, "+"), c.Pos(), "fields are decoded in template order (index 0,1,2,...)", "template fields are not visited in ascending order from 0")
		}
		// the octets interpreted are the octets read with this specifier's length
		var readCall, interpCall *ssa.Call
		for v := range core.BackwardSlice(c.Common().Args[1], core.SliceOpts{}) {
			if cc, ok := v.(*ssa.Call); ok {
				switch {
				case strings.HasSuffix(calleeName(cc), ".Interpret"):
					interpCall = cc
				}
			}
		}
		if interpCall != nil {
			for v := range core.BackwardSlice(interpCall.Common().Args[0], core.SliceOpts{}) {
				if cc, ok := v.(*ssa.Call); ok && strings.HasSuffix(calleeName(cc), "reader.Reader).Read") {
					readCall = cc
				}
			}
		}
		okRead := false
		if readCall != nil {
			for v := range core.BackwardSlice(readCall.Common().Args[1], core.SliceOpts{ThroughRepoCalls: true, Prog: prog}) {
				if _, f := fieldLoad(v); f != nil && f.Name() == "Length" {
					okRead = true
				}
			}
		}
		r4.Check(interpCall != nil && okRead, key+":octets:"+strings.Join(w, "+"), c.Pos(), "value = Interpret(octets read with the specifier's length, the element's type)", "the value is not interpreted from the octets read with this field's own length")
		sites = append(sites, appendSite{c, strings.Join(w, "+"), loop})
	})
	// scope fields first
	var scope, field *appendSite
	for i := range sites {
		if strings.HasPrefix(sites[i].which, "Scope") {
			scope = &sites[i]
		} else {
			field = &sites[i]
		}
	}
	if scope == nil || field == nil {
		r4.Fail(name+":scope-and-fields", fn.Pos(), fmt.Sprintf("record decoding does not walk both the scope specifiers and the field specifiers (scope=%v fields=%v)", scope != nil, field != nil))
		return
	}
	r4.Check(scope.loop.Header.Dominates(field.loop.Header) && !scope.loop.Blocks[field.loop.Header], name+":scope-first", field.call.Pos(), "the scope loop completes before the field loop starts", "option fields are decoded before (or interleaved with) scope fields")
}

// checkFieldWrittenOnAllPaths: in a filler with several success paths every receiver field written on
// one of them is written on all of them (a reused destination must not keep a stale value).
func checkFieldWrittenOnAllPaths(rr *core.RuleRun, fn *ssa.Function, paths []layPath) {
	if len(paths) < 2 {
		return
	}
	all := map[string]int{}
	for _, p := range paths {
		seen := map[string]bool{}
		for _, e := range p.Events {
			if (e.Kind == "read" || e.Kind == "set") && !strings.Contains(e.Dest, ":") && e.Dest != "bytes" {
				seen[e.Dest] = true
			}
		}
		for d := range seen {
			all[d]++
		}
	}
	var names []string
	for d := range all {
		names = append(names, d)
	}
	sort.Strings(names)
	for _, d := range names {
		rr.Check(all[d] == len(paths), fmt.Sprintf("%s:%s-on-all-paths", core.FuncName(fn), d), fn.Pos(), "assigned on every success path",
			fmt.Sprintf("field %s is assigned on %d of %d success paths only: when the destination variable is reused (the template parsers reuse one specifier for all fields) it keeps the previous field's value, e.g. the enterprise number of the preceding enterprise-specific element", d, all[d], len(paths)))
	}
}

func debugPaths(fn *ssa.Function, ps []layPath) {
	if os.Getenv("VERIF_DEBUG") != "" {
		for _, p := range ps {
			fmt.Printf("LAYOUT %s: %s\n", core.FuncName(fn), p)
		}
	}
}

// checkTemplateCounts: in an options-template parser the number of specifiers appended to each list is
// the corresponding count field (R03.6 / R06.1).
func checkTemplateCounts(prog *core.Program, rr *core.RuleRun, fn *ssa.Function, want map[string]string) {
	name := core.FuncName(fn)
	for _, l := range core.NaturalLoops(fn) {
		// the list appended to in this loop
		list := ""
		for b := range l.Blocks {
			for _, ins := range b.Instrs {
				if st, ok := ins.(*ssa.Store); ok {
					if _, f, ok := core.FieldOf(st.Addr); ok && strings.HasSuffix(f.Name(), "FieldSpecifiers") {
						list = f.Name()
					}
				}
			}
		}
		if list == "" {
			continue
		}
		// counter phi in the header: initial value expression
		init := ""
		for _, ins := range l.Header.Instrs {
			phi, ok := ins.(*ssa.Phi)
			if !ok {
				continue
			}
			dec := false
			for i, e := range phi.Edges {
				if bo, ok := e.(*ssa.BinOp); ok && bo.Op == token.SUB && bo.X == ssa.Value(phi) {
					if c, ok := ssaConstInt(bo.Y); ok && c == 1 {
						dec = true
					}
				} else if !l.Blocks[l.Header.Preds[i]] {
					init = printExpr(fn, e, 0)
				}
			}
			if !dec {
				init = ""
			}
			// ascending form: n := 0; n < N; n++ runs N times
			if init == "" {
				zero, inc := false, false
				for i, e := range phi.Edges {
					if bo, ok := e.(*ssa.BinOp); ok && bo.Op == token.ADD && bo.X == ssa.Value(phi) {
						if c, ok := ssaConstInt(bo.Y); ok && c == 1 {
							inc = true
						}
					} else if !l.Blocks[l.Header.Preds[i]] {
						if c, ok := ssaConstInt(e); ok && c == 0 {
							zero = true
						}
					}
				}
				if zero && inc {
					for _, ref := range referrers(phi) {
						if cmp, ok := ref.(*ssa.BinOp); ok && cmp.Op == token.LSS && cmp.X == ssa.Value(phi) && cmp.Block() == l.Header {
							init = printExpr(fn, cmp.Y, 0)
						}
					}
				}
			}
			if init != "" {
				break
			}
		}
		exp, known := want[list]
		if !known {
			continue
		}
		rr.Check(init == exp, fmt.Sprintf("%s:count:%s", name, list), l.Header.Instrs[0].Pos(), list+" receives "+exp+" specifiers", fmt.Sprintf("%s receives %q specifiers, the format says %s", list, init, exp))
	}
}

func checkC03(rep *core.Report) {
	rep.Explanation = "Necessary structural clauses only (the value-level claim 'every decoded record equals the wire for every template' ranges over run-time template contents and is NOT decided): the IPFIX message header, set header, template header, options template header and field specifier are read in RFC 7011's order and widths (enterprise number read under the enterprise bit, id masked, and every specifier field assigned on every path); each abstract data type is interpreted from the right number of big-endian octets into the right Go type and shorter encodings yield raw octets; the IANA type names map to their own constants; in record decoding the id, enterprise number, read length, octets and type of one decoded field come from the same specifier element, fields are visited in template order and scope fields first; variable-length prefixes use 65535/255 and 1/2-octet lengths; an options template puts ScopeFieldCount specifiers in the scope list and FieldCount-ScopeFieldCount in the field list. A change that breaks one of these changes the decode of every message."
	rep.Assume("the enterprise bit test is taken as written (> 0x8000): element id 0 with the bit set is not covered")
	prog := rep.Prog
	r1 := rep.Rule("R03.1", "IPFIX header/set/template/specifier wire layouts equal RFC 7011 3.1-3.4", 15)
	r2 := rep.Rule("R03.2", "abstract data types are interpreted as RFC 7011 6.1 prescribes; reduced-size encodings yield raw octets", 40)
	r3 := rep.Rule("R03.3", "IANA type names map to their own abstract-type constants", 20)
	r4 := rep.Rule("R03.4", "one specifier element feeds id, length, octets and type of a decoded field; template order; scope first", 6)
	r5 := rep.Rule("R03.5", "variable-length fields: marker 65535, 1-octet length, 255 escapes to a 2-octet length", 4)
	r6 := rep.Rule("R03.6", "options template: scope count and field count feed the right lists", 2)
	r7 := rep.Rule("R03.7", "whoever reads one specifier list of a template reads the other too (records = scope fields + fields)", 1)
	checkBothFieldLists(prog, r7, "ipfix")
	r8 := rep.Rule("R03.8", "the built-in information model is keyed once per element, by the element's own id", 1)
	checkModelKeys(rep, r8)
	r9 := rep.Rule("R03.9", "the byte reader serves a request for zero octets (empty variable-length values, zero-length elements)", 2)
	checkReaderAcceptsZero(prog, r9)
	r10 := rep.Rule("R03.10", "up to four padding octets at the end of a set are not decoded as a record", 1)
	checkPaddingBound(prog, r10, "ipfix")
	r11 := rep.Rule("R03.11", "the template cache stores every announcement it is given and finds every template it holds (records are decoded as the template last announced)", 3)
	if c := findTplCache(prog, "ipfix"); c.insert != nil {
		checkInsertUnconditional(r11, c)
		checkRetrieveComplete(r11, c)
	} else {
		r11.Undecided("ipfix:insert", token.NoPos, "cache insert not resolved")
	}
	checkLayoutSeq(prog, r1, "ipfix", "MessageHeader", []specField{{"Version", 2}, {"Length", 2}, {"ExportTime", 4}, {"SequenceNo", 4}, {"DomainID", 4}}, "IPFIX message header (RFC 7011 3.1)")
	checkLayoutSeq(prog, r1, "ipfix", "SetHeader", []specField{{"SetID", 2}, {"Length", 2}}, "IPFIX set header (RFC 7011 3.3.2)")
	for _, f := range findFillers(prog, "ipfix", "TemplateHeader") {
		ps := extractLayout(prog, f)
		debugPaths(f, ps)
		for _, p := range ps {
			spec := []specField{{"TemplateID", 2}, {"FieldCount", 2}}
			what := "template record header (RFC 7011 3.4.1)"
			if len(p.reads()) == 3 {
				spec = append(spec, specField{"ScopeFieldCount", 2})
				what = "options template record header (RFC 7011 3.4.2.2)"
			}
			diff := compareSeq(p, spec)
			r1.Check(diff == "", core.FuncName(f)+":layout", f.Pos(), what, what+": "+diff)
		}
	}
	// field specifier: two success paths
	for _, f := range findFillers(prog, "ipfix", "TemplateFieldSpecifier") {
		ps := extractLayout(prog, f)
		debugPaths(f, ps)
		name := core.FuncName(f)
		var ent, plain *layPath
		for i := range ps {
			if len(ps[i].reads()) == 3 {
				ent = &ps[i]
			} else if len(ps[i].reads()) == 2 {
				plain = &ps[i]
			}
		}
		if ent == nil || plain == nil || len(ps) != 2 {
			r1.Fail(name+":paths", f.Pos(), fmt.Sprintf("field specifier parser has %d success paths; the format has exactly two shapes (with and without enterprise number)", len(ps)))
			continue
		}
		d1 := compareSeq(*ent, []specField{{"ElementID", 2}, {"Length", 2}, {"EnterpriseNo", 4}})
		d2 := compareSeq(*plain, []specField{{"ElementID", 2}, {"Length", 2}})
		r1.Check(d1 == "", name+":layout:enterprise", f.Pos(), "E|id/2, length/2, enterprise number/4", "enterprise-specific field specifier: "+d1)
		r1.Check(d2 == "", name+":layout:iana", f.Pos(), "id/2, length/2", "IANA field specifier: "+d2)
		// guard constant and mask
		g := strings.Join(ent.Guards, " ")
		r1.Check(strings.Contains(g, "ElementID>32768") || strings.Contains(g, "ElementID>=32768"), name+":enterprise-bit", f.Pos(), "enterprise number read when the top bit of the id is set", "the enterprise number is not read under the enterprise bit (0x8000) test: got guard "+g)
		mask := false
		for _, e := range ent.Events {
			if e.Kind == "set" && e.Dest == "ElementID" && strings.Contains(e.Value, "&32767") {
				mask = true
			}
		}
		r1.Check(mask, name+":id-mask", f.Pos(), "id masked with 0x7fff", "the enterprise bit is not removed from the element id")
		checkFieldWrittenOnAllPaths(r1, f, ps)
	}
	checkInterpretTable(rep, r2, r3)
	if dd := prog.Method("ipfix", "Decoder", "decodeData"); dd != nil {
		checkSameSpecifierProvenance(prog, r4, dd, true)
		// enterprise number and id of the decoded field
		allInstrs(dd, func(ins ssa.Instruction) {
			if lk, ok := ins.(*ssa.Lookup); ok && lk.CommaOk {
				key := core.FuncName(dd) + ":model-key"
				var ent, id bool
				for v := range core.BackwardSlice(lk.Index, core.SliceOpts{}) {
					if _, f := fieldLoad(v); f != nil {
						ent = ent || f.Name() == "EnterpriseNo"
						id = id || f.Name() == "ElementID"
					}
				}
				r4.Check(ent && id, key, lk.Pos(), "information model looked up by (enterprise number, element id) of the specifier", "the information model is not looked up by both the enterprise number and the element id")
			}
		})
	} else {
		r4.Undecided("ipfix:decodeData", token.NoPos, "record decoder not found")
	}
	// ---- R03.5 ----
	if gl := prog.Method("ipfix", "Decoder", "getDataLength"); gl != nil {
		ps := extractLayout(prog, gl)
		debugPaths(gl, ps)
		name := core.FuncName(gl)
		var oneOctet, threeOctet, fixed bool
		for _, p := range ps {
			g := strings.Join(p.Guards, " ")
			rs := p.reads()
			switch {
			case len(rs) == 0:
				fixed = true
			case len(rs) == 1 && rs[0].Width == 1 && strings.Contains(g, "65535") && strings.Contains(g, "!") && strings.Contains(g, "255"):
				oneOctet = true
			case len(rs) == 2 && rs[0].Width == 1 && rs[1].Width == 2 && strings.Contains(g, "65535") && strings.Contains(g, "==255"):
				threeOctet = true
			}
		}
		r5.Check(fixed, name+":fixed", gl.Pos(), "fixed-length fields read nothing extra", "no path without a length prefix")
		r5.Check(oneOctet, name+":short-prefix", gl.Pos(), "length < 255 in one octet", "no path reading a 1-octet length prefix under the 65535 marker")
		r5.Check(threeOctet, name+":long-prefix", gl.Pos(), "255 then a 2-octet length", "no path reading 255 followed by a 2-octet length")
		// variable length applies to string and octetArray only: the helper's control flow is folded for every abstract
		// type T and for the template lengths 65535 and 4; a length prefix is read exactly when T is string or
		// octetArray and the length is 65535 (whatever form the test takes)
		consts := fieldTypeConsts(rep)
		badTypes := ""
		if len(gl.Params) == 3 && len(consts) > 0 {
			lenP, typP := gl.Params[1], gl.Params[2]
			var names []string
			for n := range consts {
				names = append(names, n)
			}
			sort.Strings(names)
			for _, n := range names {
				for _, l := range []int64{65535, 4} {
					fold := foldedEdgesV(func(v ssa.Value) (int64, bool) {
						switch v {
						case ssa.Value(lenP):
							return l, true
						case ssa.Value(typP):
							return consts[n], true
						}
						return 0, false
					})
					reads := false
					seen := map[*ssa.BasicBlock]bool{}
					stack := []*ssa.BasicBlock{gl.Blocks[0]}
					for len(stack) > 0 {
						b := stack[len(stack)-1]
						stack = stack[:len(stack)-1]
						if seen[b] {
							continue
						}
						seen[b] = true
						for _, ins := range b.Instrs {
							if c, ok := ins.(*ssa.Call); ok {
								if f := c.Common().StaticCallee(); f != nil && core.PkgRel(f) == "reader" {
									reads = true
								}
							}
						}
						for si, sc := range b.Succs {
							if fold(b, si) {
								stack = append(stack, sc)
							}
						}
					}
					want := (n == "String" || n == "OctetArray") && l == 65535
					if reads != want {
						badTypes += fmt.Sprintf(" %s/%d:prefix=%v", n, l, reads)
					}
				}
			}
		} else {
			badTypes = " (parameters or type constants not found)"
		}
		r5.Check(badTypes == "", name+":types", gl.Pos(), "a length prefix is read exactly for string and octetArray elements of template length 65535", "variable-length handling is not tied to exactly the string and octetArray types with template length 65535:"+badTypes)
	} else {
		r5.Undecided("ipfix:getDataLength", token.NoPos, "variable-length helper not found")
	}
	// ---- R03.6 ----
	if uo := prog.Method("ipfix", "TemplateRecord", "unmarshalOpts"); uo != nil {
		checkTemplateCounts(prog, r6, uo, map[string]string{"ScopeFieldSpecifiers": "obj:TemplateHeader.ScopeFieldCount", "FieldSpecifiers": "(obj:TemplateHeader.FieldCount-obj:TemplateHeader.ScopeFieldCount)"})
	} else {
		r6.Undecided("ipfix:unmarshalOpts", token.NoPos, "options template parser not found")
	}
}

func checkC06(rep *core.Report) {
	rep.Explanation = "Necessary structural clauses only, as for C03 (value-level equality of decoded records is NOT decided): the NetFlow v9 packet header, flowset header, template and options-template headers and field specifiers are read in RFC 3954's order and widths; option scope/field counts are the byte lengths divided by 4 and feed the right lists; field octets are interpreted by the shared interpreter table (checked against RFC 7011 6.1); in record decoding one specifier element feeds id, length, octets and type, fields are visited in template order, scope first; flowset ids 0/1 route to template/options parsing; every template record handed to the cache is a fresh object so that records of one flowset cannot overwrite each other."
	prog := rep.Prog
	r1 := rep.Rule("R06.1", "NetFlow v9 header/flowset/template/specifier wire layouts equal RFC 3954 5-6", 15)
	r2 := rep.Rule("R06.2", "shared interpreter: abstract data types decoded as RFC 7011 6.1 prescribes", 40)
	r3 := rep.Rule("R06.2b", "IANA type names map to their own abstract-type constants", 20)
	r4 := rep.Rule("R06.3", "one specifier element feeds id, length, octets and type of a decoded field; template order; scope first", 6)
	r5 := rep.Rule("R06.4", "flowset id routing: 0 template, 1 options template, >255 data", 3)
	r6 := rep.Rule("R06.5", "every template record handed to the cache is a fresh object; the cache stores every announcement and finds every template it holds", 3)
	r7 := rep.Rule("R06.6", "whoever reads one specifier list of a template reads the other too (records = scope fields + fields)", 1)
	checkBothFieldLists(prog, r7, "netflow/v9")
	r8 := rep.Rule("R06.7", "the built-in information model is keyed once per element, by the element's own id", 1)
	checkModelKeys(rep, r8)
	r9 := rep.Rule("R06.8", "the byte reader serves a request for zero octets (zero-length elements)", 2)
	checkReaderAcceptsZero(prog, r9)
	r10 := rep.Rule("R06.9", "up to four padding octets at the end of a flowset are not decoded as a record", 1)
	checkPaddingBound(prog, r10, "netflow/v9")
	checkLayoutSeq(prog, r1, "netflow/v9", "PacketHeader", []specField{{"Version", 2}, {"Count", 2}, {"SysUpTime", 4}, {"UNIXSecs", 4}, {"SeqNum", 4}, {"SrcID", 4}}, "NetFlow v9 packet header (RFC 3954 5.1)")
	checkLayoutSeq(prog, r1, "netflow/v9", "SetHeader", []specField{{"FlowSetID", 2}, {"Length", 2}}, "flowset header")
	checkLayoutSeq(prog, r1, "netflow/v9", "TemplateFieldSpecifier", []specField{{"ElementID", 2}, {"Length", 2}}, "field specifier (type, length)")
	for _, f := range findFillers(prog, "netflow/v9", "TemplateHeader") {
		ps := extractLayout(prog, f)
		debugPaths(f, ps)
		for _, p := range ps {
			spec := []specField{{"TemplateID", 2}, {"FieldCount", 2}}
			what := "template record header (RFC 3954 5.2)"
			if len(p.reads()) == 3 {
				spec = []specField{{"TemplateID", 2}, {"OptionScopeLen", 2}, {"OptionLen", 2}}
				what = "options template header (RFC 3954 6.1: template id, option scope length, option length)"
			}
			diff := compareSeq(p, spec)
			r1.Check(diff == "", core.FuncName(f)+":layout", f.Pos(), what, what+": "+diff)
		}
	}
	if uo := prog.Method("netflow/v9", "TemplateRecord", "unmarshalOpts"); uo != nil {
		checkTemplateCounts(prog, r1, uo, map[string]string{"ScopeFieldSpecifiers": "(obj:TemplateHeader.OptionScopeLen/4)", "FieldSpecifiers": "(obj:TemplateHeader.OptionLen/4)"})
	} else {
		r1.Undecided("netflow/v9:unmarshalOpts", token.NoPos, "options template parser not found")
	}
	checkInterpretTable(rep, r2, r3)
	if dd := prog.Method("netflow/v9", "Decoder", "decodeData"); dd != nil {
		checkSameSpecifierProvenance(prog, r4, dd, false)
	} else {
		r4.Undecided("netflow/v9:decodeData", token.NoPos, "record decoder not found")
	}
	// ---- routing constants ----
	sd := findSetDecoder(prog, "netflow/v9")
	if sd.decodeSet == nil {
		r5.Undecided("netflow/v9:decodeSet", token.NoPos, "set decoder not found")
	} else {
		name := core.FuncName(sd.decodeSet)
		// fold the record loop's control flow for a given flowset id and collect the parsers reached
		reached := func(id int64) map[string]bool {
			out := map[string]bool{}
			var entry ssa.Instruction
			var loop *core.Loop
			allInstrs(sd.decodeSet, func(ins ssa.Instruction) {
				if c, ok := ins.(*ssa.Call); ok && c.Common().StaticCallee() == sd.decodeDat {
					loop = core.LoopOf(sd.decodeSet, c)
				}
			})
			if loop == nil {
				return out
			}
			entry = loop.Header.Instrs[0]
			fold := foldedEdges(isSetIDValue, id)
			w := core.Walk{EdgeOK: func(b *ssa.BasicBlock, si int) bool {
				if b.Succs[si] == loop.Header || !loop.Blocks[b.Succs[si]] {
					return false
				}
				return fold(b, si)
			}}
			for i := range w.ReachInstrs(entry) {
				if cc, ok := i.(*ssa.Call); ok && cc.Common().StaticCallee() != nil && prog.IsRepoFunc(cc.Common().StaticCallee()) {
					n := cc.Common().StaticCallee().Name()
					if strings.HasPrefix(n, "unmarshal") || n == "decodeData" {
						out[n] = true
					}
				}
			}
			return out
		}
		only := func(m map[string]bool, want string) bool { return len(m) == 1 && m[want] }
		r5.Check(only(reached(0), "unmarshal"), name+":id0", sd.decodeSet.Pos(), "flowset id 0 => template records", fmt.Sprintf("flowset id 0 reaches %v", keysOfStr(reached(0))))
		r5.Check(only(reached(1), "unmarshalOpts"), name+":id1", sd.decodeSet.Pos(), "flowset id 1 => options template records", fmt.Sprintf("flowset id 1 reaches %v", keysOfStr(reached(1))))
		r5.Check(only(reached(256), "decodeData") && only(reached(65535), "decodeData"), name+":data", sd.decodeSet.Pos(), "ids above 255 => data records", fmt.Sprintf("flowset id 256 reaches %v", keysOfStr(reached(256))))
		r5.Check(len(reached(4)) == 0 && len(reached(255)) == 0, name+":reserved", sd.decodeSet.Pos(), "reserved ids parse nothing", fmt.Sprintf("reserved flowset id 4 reaches %v", keysOfStr(reached(4))))
		gt := false
		allInstrs(sd.decodeSet, func(ins ssa.Instruction) {
			if b, ok := ins.(*ssa.BinOp); ok && b.Op == token.GTR && strings.Contains(fieldLoadName(b.X), "SetID") {
				if c, ok := ssaConstInt(b.Y); ok && c == 255 {
					gt = true
				}
			}
		})
		r5.Check(gt, name+":data-ids", sd.decodeSet.Pos(), "ids above 255 are data flowsets looked up in the template cache", "data flowsets are not recognised as 'id > 255'")
	}
	// ---- fresh template records ----
	for _, rel := range []string{"netflow/v9"} {
		c := findTplCache(prog, rel)
		if c.insert != nil {
			checkTemplateImmutability(prog, r6, c)
			// ... and reaches the cache: records are decoded as the template last announced only if insert stores every
			// announcement (same rule as R04.4)
			checkInsertUnconditional(r6, c)
			checkRetrieveComplete(r6, c)
		} else {
			r6.Undecided(rel+":insert", token.NoPos, "cache insert not resolved")
		}
	}
}

// checkBothFieldLists (R03.7 / R06.6): a record consists of the scope fields followed by the fields. Every function
// of the package that reads the elements of one of the two specifier lists of a template (to decode, to size, to
// count) must read the other list as well; the template parsers, which only append, are writers and exempt.
func checkBothFieldLists(prog *core.Program, rr *core.RuleRun, rel string) {
	n := 0
	for _, fn := range prog.RepoFuncs() {
		if core.PkgRel(fn) != rel || fn.Synthetic != "" {
			continue
		}
		reads := map[string]token.Pos{}
		allInstrs(fn, func(ins ssa.Instruction) {
			var base ssa.Value
			switch x := ins.(type) {
			case *ssa.IndexAddr:
				base = x.X
			case *ssa.Index:
				base = x.X
			case *ssa.Range:
				base = x.X
			default:
				return
			}
			_, f := fieldLoad(base)
			if f == nil {
				if fl, ok := base.(*ssa.Field); ok {
					if st, ok := fl.X.Type().Underlying().(*types.Struct); ok {
						f = st.Field(fl.Field)
					}
				}
			}
			if f == nil {
				return
			}
			if f.Name() == "FieldSpecifiers" || f.Name() == "ScopeFieldSpecifiers" {
				// an element that is only written (append target slot) does not count: IndexAddr whose referrers are all stores
				if ia, ok := ins.(*ssa.IndexAddr); ok {
					onlyStores := true
					for _, r := range *ia.Referrers() {
						if st, isStore := r.(*ssa.Store); !isStore || st.Addr != ssa.Value(ia) {
							onlyStores = false
						}
					}
					if onlyStores {
						return
					}
				}
				if _, seen := reads[f.Name()]; !seen {
					reads[f.Name()] = ins.Pos()
				}
			}
		})
		// a list handed over whole (to a comparison such as reflect.DeepEqual, to a copy, to a helper) is read as well
		allInstrs(fn, func(ins ssa.Instruction) {
			var ld ssa.Value
			switch x := ins.(type) {
			case *ssa.UnOp:
				if x.Op != token.MUL {
					return
				}
				ld = x
			case *ssa.Field:
				ld = x
			default:
				return
			}
			_, f := fieldLoad(ld)
			if f == nil || !(f.Name() == "FieldSpecifiers" || f.Name() == "ScopeFieldSpecifiers") {
				return
			}
			for _, r := range referrers(ld) {
				whole := false
				switch x := r.(type) {
				case *ssa.MakeInterface, *ssa.Slice:
					whole = true
				case ssa.CallInstruction:
					if bi, isB := x.Common().Value.(*ssa.Builtin); isB {
						// append(list, ...) writes; len/cap are size tests; copy(dst, list) reads
						whole = bi.Name() == "copy" && len(x.Common().Args) == 2 && x.Common().Args[1] == ld
					} else {
						whole = true
					}
				}
				if whole {
					if _, seen := reads[f.Name()]; !seen {
						reads[f.Name()] = r.Pos()
					}
				}
			}
		})
		// emptiness / size tests: a comparison of the length of one list with anything but its own loop counter
		sized := map[string]token.Pos{}
		allInstrs(fn, func(ins ssa.Instruction) {
			b, ok := ins.(*ssa.BinOp)
			if !ok {
				return
			}
			switch b.Op {
			case token.EQL, token.NEQ, token.LSS, token.GTR, token.LEQ, token.GEQ:
			default:
				return
			}
			for _, pair := range [][2]ssa.Value{{b.X, b.Y}, {b.Y, b.X}} {
				call, ok := pair[0].(*ssa.Call)
				if !ok {
					continue
				}
				bi, ok := call.Common().Value.(*ssa.Builtin)
				if !ok || bi.Name() != "len" {
					continue
				}
				_, f := fieldLoad(call.Common().Args[0])
				if f == nil || !(f.Name() == "FieldSpecifiers" || f.Name() == "ScopeFieldSpecifiers") {
					continue
				}
				if _, isPhi := pair[1].(*ssa.Phi); isPhi {
					continue // loop bound of a walk over this very list
				}
				if bo, isB := pair[1].(*ssa.BinOp); isB {
					if _, isPhi := bo.X.(*ssa.Phi); isPhi {
						continue
					}
				}
				if _, seen := sized[f.Name()]; !seen {
					sized[f.Name()] = b.Pos()
				}
			}
		})
		if len(sized) == 1 {
			for l, pos := range sized {
				other := "ScopeFieldSpecifiers"
				if l == other {
					other = "FieldSpecifiers"
				}
				rr.Fail(core.FuncName(fn)+":size-test-on-both-lists", pos, "the size of "+l+" is tested but not that of "+other+": a template whose fields are all in the other list (an options template with scope fields only, or a plain template) is judged empty or short although it describes records")
			}
		} else if len(sized) == 2 {
			rr.OK(core.FuncName(fn)+":size-test-on-both-lists", fn.Pos(), "sizes of both lists tested")
		}
		if len(reads) == 0 {
			continue
		}
		n++
		_, a := reads["FieldSpecifiers"]
		_, b := reads["ScopeFieldSpecifiers"]
		missing := "ScopeFieldSpecifiers"
		if !a {
			missing = "FieldSpecifiers"
		}
		rr.Check(a && b, core.FuncName(fn)+":both-field-lists", fn.Pos(), "reads scope fields and fields",
			"this function goes through one specifier list of a template but never through "+missing+": whatever it derives (a record length, a field count, a decode) is wrong for options records, which consist of the scope fields followed by the fields")
	}
	if n == 0 {
		rr.Undecided(rel+":both-field-lists", token.NoPos, "no function reads a template's specifier lists")
	}
}

// checkReaderAcceptsZero (R03.9 / R06.8): a variable-length field may be empty (length prefix 0) and a template may
// give an element the length 0; both reach the byte reader as a read of zero octets, which must succeed. For every
// method of the reader that takes an octet count, the control flow is folded for n = 0 (comparisons of n with
// constants and with a length, which is never negative): no return with a non-nil error may remain reachable.
func checkReaderAcceptsZero(prog *core.Program, rr *core.RuleRun) {
	isCountMethod := func(fn *ssa.Function) bool {
		if core.PkgRel(fn) != "reader" || fn.Signature.Recv() == nil || fn.Synthetic != "" || len(fn.Params) != 2 {
			return false
		}
		bt, ok := fn.Params[1].Type().Underlying().(*types.Basic)
		if !ok || bt.Info()&types.IsInteger == 0 {
			return false
		}
		res := fn.Signature.Results()
		return res.Len() > 0 && types.Identical(res.At(res.Len()-1).Type(), types.Universe.Lookup("error").Type())
	}
	memo := map[*ssa.Function]token.Pos{}
	busy := map[*ssa.Function]bool{}
	// failing returns reachable for n = 0 (NoPos if none)
	var failsOnZero func(fn *ssa.Function) token.Pos
	failsOnZero = func(fn *ssa.Function) token.Pos {
		if p, ok := memo[fn]; ok {
			return p
		}
		if busy[fn] {
			return fn.Pos()
		}
		busy[fn] = true
		defer func() { busy[fn] = false }()
		param := fn.Params[1]
		fold := foldedEdges(func(v ssa.Value) bool { return v == ssa.Value(param) }, 0)
		// the error result of a sibling called with the same count is nil when that sibling serves zero octets
		nilErr := func(v ssa.Value) bool {
			ex, ok := v.(*ssa.Extract)
			if !ok {
				return false
			}
			call, ok := ex.Tuple.(*ssa.Call)
			if !ok {
				return false
			}
			g := call.Common().StaticCallee()
			if g == nil || !isCountMethod(g) || len(call.Common().Args) != 2 || call.Common().Args[1] != ssa.Value(param) || ex.Index != g.Signature.Results().Len()-1 {
				return false
			}
			return failsOnZero(g) == token.NoPos
		}
		seen := map[*ssa.BasicBlock]bool{}
		stack := []*ssa.BasicBlock{fn.Blocks[0]}
		bad := token.NoPos
		for len(stack) > 0 {
			b := stack[len(stack)-1]
			stack = stack[:len(stack)-1]
			if seen[b] {
				continue
			}
			seen[b] = true
			if r, ok := b.Instrs[len(b.Instrs)-1].(*ssa.Return); ok && len(r.Results) > 0 {
				ev := r.Results[len(r.Results)-1]
				if c, isC := ev.(*ssa.Const); (!isC || !c.IsNil()) && !nilErr(ev) {
					bad = r.Pos()
				}
			}
			for si, sc := range b.Succs {
				if !fold(b, si) {
					continue
				}
				if cond, truth, ok := core.IfEdge(b, si); ok {
					if bo, isB := cond.(*ssa.BinOp); isB && (bo.Op == token.NEQ || bo.Op == token.EQL) {
						x, y := bo.X, bo.Y
						if c, isC := x.(*ssa.Const); isC && c.IsNil() {
							x, y = y, x
						}
						if c, isC := y.(*ssa.Const); isC && c.IsNil() && nilErr(x) {
							if (bo.Op == token.EQL) != truth {
								continue
							}
						}
					}
				}
				stack = append(stack, sc)
			}
		}
		memo[fn] = bad
		return bad
	}
	n := 0
	for _, fn := range prog.RepoFuncs() {
		if !isCountMethod(fn) {
			continue
		}
		n++
		bad := failsOnZero(fn)
		rr.Check(bad == token.NoPos, core.FuncName(fn)+":accepts-zero", fn.Pos(), "a request for 0 octets cannot fail",
			"a request for 0 octets can return an error ("+prog.Pos(bad)+"): an empty variable-length value or a zero-length element, both well-formed, makes the reader fail, which the decoders treat as a truncated datagram and drop the whole message")
	}
	if n == 0 {
		rr.Undecided("reader:accepts-zero", token.NoPos, "no reader method taking an octet count found")
	}
}

// checkPaddingBound (R03.10 / R06.9): a set may end in padding octets (sets are aligned to 4 or 8 octets).
// The record loop's exit test on the octets left in the set (declared length minus octets consumed) is evaluated for
// 0..4 octets left, where it must stop, and for 5, where it must go on.
func checkPaddingBound(prog *core.Program, rr *core.RuleRun, rel string) {
	sd := findSetDecoder(prog, rel)
	if sd.decodeSet == nil || sd.decodeDat == nil {
		rr.Undecided(rel+":padding-bound", token.NoPos, "set decoder not found")
		return
	}
	fn := sd.decodeSet
	var loop *core.Loop
	allInstrs(fn, func(ins ssa.Instruction) {
		if c, ok := ins.(*ssa.Call); ok && c.Common().StaticCallee() == sd.decodeDat {
			loop = core.LoopOf(fn, c)
		}
	})
	if loop == nil {
		rr.Undecided(core.FuncName(fn)+":padding-bound", fn.Pos(), "record loop not found")
		return
	}
	isLeft := func(v ssa.Value) bool {
		hasLen, hasCount, hasSub := false, false, false
		for x := range core.BackwardSlice(v, core.SliceOpts{}) {
			if fieldLoadName(x) == "Length" {
				hasLen = true
			}
			if c, ok := x.(*ssa.Call); ok {
				if f := c.Common().StaticCallee(); f != nil && f.Name() == "ReadCount" {
					hasCount = true
				}
			}
			if b, ok := x.(*ssa.BinOp); ok && b.Op == token.SUB {
				hasSub = true
			}
		}
		return hasLen && hasCount && hasSub
	}
	found := 0
	for b := range loop.Blocks {
		ifi, ok := b.Instrs[len(b.Instrs)-1].(*ssa.If)
		if !ok {
			continue
		}
		exits := !loop.Blocks[b.Succs[0]] || !loop.Blocks[b.Succs[1]]
		bo, isB := ifi.Cond.(*ssa.BinOp)
		if !exits || !isB {
			continue
		}
		left, k, op := bo.X, bo.Y, bo.Op
		if _, isC := ssaConstInt(left); isC {
			left, k = k, left
			op = map[token.Token]token.Token{token.LSS: token.GTR, token.LEQ: token.GEQ, token.GTR: token.LSS, token.GEQ: token.LEQ, token.EQL: token.EQL, token.NEQ: token.NEQ}[op]
		}
		c, isC := ssaConstInt(k)
		if !isC || !isLeft(left) {
			continue
		}
		found++
		// which way does "go on" point?
		goOnTrue := loop.Blocks[b.Succs[0]]
		eval := func(l int64) bool {
			var r bool
			switch op {
			case token.GTR:
				r = l > c
			case token.GEQ:
				r = l >= c
			case token.LSS:
				r = l < c
			case token.LEQ:
				r = l <= c
			case token.NEQ:
				r = l != c
			case token.EQL:
				r = l == c
			}
			return r == goOnTrue
		}
		bad := ""
		// 0..3 octets are padding to a 4-octet boundary; 4 octets are padding to an 8-octet boundary (RFC 7011 3.3.2
		// allows either alignment; a record can be that short only in degenerate templates, and the decoders as pinned
		// treat 4 octets as padding)
		for l := int64(0); l <= 4; l++ {
			if eval(l) {
				bad = fmt.Sprintf("with %d octet(s) left in the set (padding) the loop decodes another record", l)
			}
		}
		if bad == "" && !eval(5) {
			bad = "with 5 octets left in the set the loop stops: records are dropped"
		}
		rr.Check(bad == "", core.FuncName(fn)+":padding-bound", bo.Pos(), "stops with 0..4 octets left in the set, goes on with 5", bad+": padding is read as a record (and the following sets are misparsed), or records are lost")
	}
	if found == 0 {
		rr.Undecided(core.FuncName(fn)+":padding-bound", fn.Pos(), "no exit test of the record loop on the octets left in the set (declared length minus consumed) found")
	}
}
