package rules

import (
	"fmt"
	"go/constant"
	"go/token"
	"go/types"
	"sort"
	"strings"

	"golang.org/x/tools/go/ssa"

	"verif/internal/core"
)

func init() { register("C05", checkC05) }

// JSON position states
const (
	posOutside = iota // between tokens: numbers, literals, punctuation, or a complete quoted string may be written
	posInside         // inside a JSON string: only string-safe text may be written
	posConflict
	posUnknown
)

func posName(p int) string {
	return [...]string{"outside a string", "inside a string", "conflicting", "unknown"}[p]
}

type encoderSet struct {
	rel   string
	entry *ssa.Function // JSONMarshal
	fns   []*ssa.Function
}

func findEncoder(prog *core.Program, rel string) *encoderSet {
	e := &encoderSet{rel: rel, entry: prog.Method(rel, "Message", "JSONMarshal")}
	if e.entry == nil {
		return e
	}
	for _, fn := range prog.CG().ReachableRepo(e.entry) {
		e.fns = append(e.fns, fn)
	}
	return e
}

// bufParam returns the *bytes.Buffer parameter of fn (nil if none).
func bufParam(fn *ssa.Function) *ssa.Parameter {
	for _, p := range fn.Params {
		if typeIs(p.Type(), "bytes", "Buffer") {
			return p
		}
	}
	return nil
}

// quoteToggles counts unescaped double quotes in a constant string.
func quoteToggles(s string) int {
	n := 0
	for i := 0; i < len(s); i++ {
		if s[i] == '\\' {
			i++
			continue
		}
		if s[i] == '"' {
			n++
		}
	}
	return n
}

type writeClass struct {
	kind string // CONST, NUM, BOOL, FLOAT, FLOAT-GUARDED, TEXT, ESCAPED, UNSAFE
	why  string
	text string
}

// classifyWritten classifies the value written into the encode buffer.
func classifyWritten(prog *core.Program, v ssa.Value, at ssa.Instruction, depth int) writeClass {
	if depth > 8 {
		return writeClass{kind: "UNSAFE", why: "expression too deep"}
	}
	switch x := v.(type) {
	case *ssa.Const:
		if x.Value == nil {
			return writeClass{kind: "CONST"}
		}
		if x.Value.Kind() == constant.String {
			return writeClass{kind: "CONST", text: constant.StringVal(x.Value)}
		}
		if i, ok := constant.Int64Val(x.Value); ok {
			return writeClass{kind: "CONST", text: string(rune(i))}
		}
		return writeClass{kind: "CONST"}
	case *ssa.Convert:
		return classifyWritten(prog, x.X, at, depth+1)
	case *ssa.ChangeType:
		return classifyWritten(prog, x.X, at, depth+1)
	case *ssa.BinOp:
		if x.Op == token.ADD && isStringType(x.Type()) {
			a, b := classifyWritten(prog, x.X, at, depth+1), classifyWritten(prog, x.Y, at, depth+1)
			for _, c := range []writeClass{a, b} {
				if c.kind == "UNSAFE" {
					return c
				}
			}
			// constant text without quotes + text-safe part is text
			if (a.kind == "CONST" && quoteToggles(a.text) == 0 && !strings.ContainsAny(a.text, "\\")) || a.kind == "TEXT" {
				if (b.kind == "CONST" && quoteToggles(b.text) == 0 && !strings.ContainsAny(b.text, "\\")) || b.kind == "TEXT" {
					return writeClass{kind: "TEXT"}
				}
			}
			return writeClass{kind: "UNSAFE", why: "concatenation of " + a.kind + " and " + b.kind}
		}
	case *ssa.Extract:
		if call, ok := x.Tuple.(*ssa.Call); ok && x.Index == 0 {
			switch calleeName(call) {
			case "encoding/json.Marshal":
				return writeClass{kind: "ESCAPED"}
			}
			return writeClass{kind: "UNSAFE", why: "result of " + calleeName(call)}
		}
	case *ssa.Call:
		switch n := calleeName(x); n {
		case "strconv.FormatInt", "strconv.FormatUint", "strconv.Itoa":
			return writeClass{kind: "NUM"}
		case "strconv.FormatBool":
			return writeClass{kind: "BOOL"}
		case "strconv.FormatFloat":
			if floatGuarded(x, at) {
				return writeClass{kind: "FLOAT-GUARDED"}
			}
			return writeClass{kind: "FLOAT"}
		case "(net.IP).String", "(net.HardwareAddr).String", "encoding/hex.EncodeToString":
			return writeClass{kind: "TEXT"}
		case "strconv.Quote", "strconv.QuoteToASCII", "strconv.AppendQuote", "fmt.Sprintf", "fmt.Sprint":
			return writeClass{kind: "UNSAFE", why: n + " produces Go syntax, not JSON: \\x00, \\a, \\v and \\U0001f600 are not JSON escapes and break the document"}
		default:
			return writeClass{kind: "UNSAFE", why: "result of " + n}
		}
	case *ssa.UnOp:
		if x.Op == token.MUL {
			if owner, f := fieldLoad(x); f != nil && isStringType(f.Type()) {
				if ok, why := fieldAlwaysTextSafe(prog, owner, f); ok {
					return writeClass{kind: "TEXT"}
				} else {
					return writeClass{kind: "UNSAFE", why: "field " + f.Name() + " is not provably JSON-safe text: " + why}
				}
			}
		}
	case *ssa.TypeAssert:
		return writeClass{kind: "UNSAFE", why: "raw " + x.AssertedType.String() + " value from the decoded message (arbitrary octets from the wire)"}
	}
	return writeClass{kind: "UNSAFE", why: fmt.Sprintf("%T of type %s", v, v.Type())}
}

// floatGuarded: the FormatFloat call executes only where its operand was tested finite
// (false edges of math.IsNaN and math.IsInf on the same value).
func floatGuarded(call *ssa.Call, at ssa.Instruction) bool {
	operand := call.Common().Args[0]
	nan, inf := false, false
	// what must be guarded is the write of the text as a number, not the formatting call (which may be hoisted)
	var target ssa.Instruction = call
	if at != nil {
		target = at
	}
	for b := target.Block(); b != nil; b = b.Idom() {
		id := b.Idom()
		if id == nil {
			break
		}
		for si, s := range id.Succs {
			if s != b || len(b.Preds) != 1 {
				continue
			}
			cond, truth, ok := core.IfEdge(id, si)
			if !ok || truth {
				continue
			}
			if c, ok := cond.(*ssa.Call); ok && len(c.Common().Args) > 0 && c.Common().Args[0] == operand {
				switch calleeName(c) {
				case "math.IsNaN":
					nan = true
				case "math.IsInf":
					inf = true
				}
			}
		}
	}
	// `if IsNaN(f) || IsInf(f,0) { ...; return }` puts the call after both false edges through an intermediate block:
	// also accept when every path from entry to the call passes the false edge of both tests
	if nan && inf {
		return true
	}
	fn := call.Parent()
	var tests []*ssa.Call
	allInstrs(fn, func(ins ssa.Instruction) {
		if c, ok := ins.(*ssa.Call); ok && len(c.Common().Args) > 0 && c.Common().Args[0] == operand {
			if n := calleeName(c); n == "math.IsNaN" || n == "math.IsInf" {
				tests = append(tests, c)
			}
		}
	})
	seen := map[string]bool{}
	for _, t := range tests {
		// block the false edge of this test: the call must become unreachable
		w := core.Walk{EdgeOK: func(b *ssa.BasicBlock, si int) bool {
			cond, truth, ok := core.IfEdge(b, si)
			if ok && cond == ssa.Value(t) && !truth {
				return false
			}
			return true
		}}
		if !w.ReachFromEntry(fn)[target] {
			seen[calleeName(t)] = true
		}
	}
	return seen["math.IsNaN"] && seen["math.IsInf"]
}

// fieldAlwaysTextSafe: every store to this string field anywhere in the repository stores JSON-safe text.
func fieldAlwaysTextSafe(prog *core.Program, owner types.Type, f *types.Var) (bool, string) {
	n := 0
	why := ""
	for _, fn := range prog.RepoFuncs() {
		allInstrs(fn, func(ins ssa.Instruction) {
			st, ok := ins.(*ssa.Store)
			if !ok {
				return
			}
			if _, fld, ok := core.FieldOf(st.Addr); ok && fld == f {
				n++
				if ok2, w := textSafeString(st.Val, 0); !ok2 {
					why = "stored at " + prog.Pos(st.Pos()) + ": " + w
				}
			}
		})
	}
	if n == 0 {
		return false, "never assigned"
	}
	return why == "", why
}

func checkC05(rep *core.Report) {
	rep.Explanation = "For the three hand-written encoders (IPFIX, NetFlow v9, NetFlow v5): (1) the set of Go types the field interpreter can return is a subset of the encoder's type-switch cases; (2) a position-sensitive typestate over every CFG path tracks whether the encoder is inside or outside a JSON string (driven by the unescaped quotes of its own constant writes) and every non-constant write is classified: number formatters and complete escaped strings only outside, canonical text (IP/MAC/hex) only inside, floats as numbers only under a finiteness test, raw wire strings/bytes and Go-syntax quoting never; (3) an encoder error stops the encoding before the next write; (4) integer conversions feeding the formatters preserve every value of the source type and floats are formatted with their own bit size; (5) sFlow publishes the unmodified encoding/json result and every string field of its result types holds JSON-safe text anyway. The comma/bracket skeleton is left to the existing tests (they fail on any skeleton change)."
	rep.Trust("strconv formatters, net.IP.String, net.HardwareAddr.String, hex.EncodeToString produce only [0-9a-fA-F.:+-eE] characters; encoding/json.Marshal produces a valid JSON value")
	prog := rep.Prog
	r1 := rep.Rule("R05.1", "every Go type the interpreter produces has an encoder case", 20)
	r2 := rep.Rule("R05.2", "every write into the encode buffer is JSON-safe for its position", 80)
	r3 := rep.Rule("R05.3", "an encoder error stops encoding before the next write", 4)
	r4 := rep.Rule("R05.4", "numbers are formatted exactly (value-preserving conversions, own bit size)", 40)
	r6 := rep.Rule("R05.6", "sFlow payload is the unmodified encoding/json result; its string fields hold JSON-safe text", 6)
	// what is published is what was on the wire only if the value handed to the encoder has the signedness and width
	// of the element's abstract type (the shared interpreter table, also decided in C03/C06)
	r8 := rep.Rule("R05.8", "the value handed to the encoders has the Go type, width and signedness of the element's abstract data type", 40)
	r8b := rep.Rule("R05.8b", "type names of the information model map to their own abstract types", 20)
	checkInterpretTable(rep, r8, r8b)
	// the encoded document is still what is published only if no back-end interprets it on the way out (also R14.1)
	r9 := rep.Rule("R05.9", "no back-end uses the encoded document as a printf-style format on its way to the queue", 5)
	checkPayloadNotFormat(prog, r9)
	r7 := rep.Rule("R05.7", "the encoders write only their own buffer and locals, never package-level scratch state", 1)
	{
		var encs []*ssa.Function
		for _, fn := range prog.RepoFuncs() {
			if fn.Name() == "JSONMarshal" && fn.Signature.Recv() != nil {
				encs = append(encs, fn)
			}
		}
		checkNoSharedWrites(prog, r7, encs, 12, func(sharedWrite) string { return "" }, "the encoders run concurrently in all workers; a value formatted through shared scratch memory can come out as another message's value - the JSON stays valid but no longer carries this datagram's decode")
	}

	// ---- R05.1 ----
	interp := prog.Func("ipfix", "Interpret")
	produced := map[string]types.Type{}
	if interp == nil {
		r1.Undecided("ipfix.Interpret", token.NoPos, "interpreter not found")
	} else {
		allInstrs(interp, func(ins ssa.Instruction) {
			if r, ok := ins.(*ssa.Return); ok {
				for v := range core.BackwardSlice(r.Results[0], core.SliceOpts{NoCallArgs: true}) {
					if mi, ok := v.(*ssa.MakeInterface); ok {
						produced[mi.X.Type().String()] = mi.X.Type()
					}
				}
			}
		})
	}
	for _, rel := range []string{"ipfix", "netflow/v9"} {
		wv := prog.Method(rel, "Message", "writeValue")
		if wv == nil {
			r1.Undecided(rel+":writeValue", token.NoPos, "value encoder not found")
			continue
		}
		var caseTypes []types.Type
		allInstrs(wv, func(ins ssa.Instruction) {
			if ta, ok := ins.(*ssa.TypeAssert); ok {
				caseTypes = append(caseTypes, ta.AssertedType)
			}
		})
		cases := map[string]bool{}
		for n, t := range produced {
			for _, ct := range caseTypes {
				if types.Identical(t, ct) {
					cases[n] = true
				}
			}
		}
		var names []string
		for n := range produced {
			names = append(names, n)
		}
		sort.Strings(names)
		for _, n := range names {
			r1.Check(cases[n], fmt.Sprintf("%s:case:%s", core.FuncName(wv), n), wv.Pos(), "",
				fmt.Sprintf("the interpreter can produce a value of type %s but the encoder has no case for it: such a field makes the whole message unencodable (or, if the error is dropped, leaves \"V\":} in the document)", n))
		}
	}
	// ---- R05.2 / R05.3 / R05.4 per encoder ----
	nEnc := 0
	for _, rel := range []string{"ipfix", "netflow/v9", "netflow/v5"} {
		e := findEncoder(prog, rel)
		if e.entry == nil {
			r2.Undecided(rel+":JSONMarshal", token.NoPos, "encoder entry not found")
			continue
		}
		nEnc++
		for _, fn := range e.fns {
			if bufParam(fn) == nil {
				continue
			}
			checkEncoderFunc(prog, r2, r3, r4, fn, e)
		}
	}
	if nEnc < 3 {
		r2.Undecided("anchors", token.NoPos, "fewer than three hand-written encoders found")
	}
	// ---- R05.6 ----
	for _, p := range findPipelines(prog) {
		if p.marshal == nil || calleeName(p.marshal) != "encoding/json.Marshal" {
			continue
		}
		name := core.FuncName(p.worker)
		res := extractOf(p.marshal, 0)
		allInstrs(p.worker, func(ins ssa.Instruction) {
			sel, ok := ins.(*ssa.Select)
			if !ok {
				return
			}
			for _, st := range sel.States {
				if st.Dir != types.SendOnly || !isMQChan(st.Chan) {
					continue
				}
				okv := false
				if ap, ok := st.Send.(*ssa.Call); ok && len(ap.Common().Args) == 2 {
					okv = ap.Common().Args[1] == ssa.Value(res)
				}
				r6.Check(okv, name+":payload-is-marshal-result", sel.Pos(), "payload = copy of json.Marshal's result", "the sFlow payload is not the unmodified result of encoding/json")
			}
		})
		// the marshalled value is the decode result itself
		r6.Check(core.BackwardSlice(p.marshal.Common().Args[0], core.SliceOpts{})[p.decode], name+":marshals-decoded-datagram", p.marshal.Pos(), "", "json.Marshal is not applied to this iteration's decoded datagram")
	}
	// string fields of the sFlow result types
	for _, rel := range []string{"sflow", "packet"} {
		pk := prog.Pkg(rel)
		if pk == nil {
			continue
		}
		sc := pk.Types.Scope()
		for _, n := range sc.Names() {
			tn, ok := sc.Lookup(n).(*types.TypeName)
			if !ok {
				continue
			}
			st, ok := tn.Type().Underlying().(*types.Struct)
			if !ok {
				continue
			}
			for i := 0; i < st.NumFields(); i++ {
				f := st.Field(i)
				if !f.Exported() || !isStringType(f.Type()) {
					continue
				}
				ok2, why := fieldAlwaysTextSafe(prog, tn.Type(), f)
				r6.Check(ok2, rel+"."+n+"."+f.Name()+":text", f.Pos(), "only canonical text is stored", "string field of an sFlow result can hold raw wire octets ("+why+"): encoding/json silently replaces invalid UTF-8, the published value differs from the decode")
			}
		}
	}
}

// checkEncoderFunc runs the typestate analysis and the numeric/error rules over one encoder function.
func checkEncoderFunc(prog *core.Program, r2, r3, r4 *core.RuleRun, fn *ssa.Function, e *encoderSet) {
	name := core.FuncName(fn)
	buf := bufParam(fn)
	isWrite := func(ins ssa.Instruction) (*ssa.Call, string) {
		c, ok := ins.(*ssa.Call)
		if !ok {
			return nil, ""
		}
		switch n := calleeName(c); n {
		case "(*bytes.Buffer).WriteString", "(*bytes.Buffer).WriteByte", "(*bytes.Buffer).Write", "(*bytes.Buffer).WriteRune":
			if c.Common().Args[0] == ssa.Value(buf) {
				return c, strings.TrimPrefix(n, "(*bytes.Buffer).")
			}
		}
		return nil, ""
	}
	// forward dataflow of the position state
	in := make([]int, len(fn.Blocks))
	for i := range in {
		in[i] = posUnknown
	}
	in[0] = posOutside
	nSite := map[string]int{}
	transfer := func(b *ssa.BasicBlock, st int, report bool) int {
		for _, ins := range b.Instrs {
			if c, kind := isWrite(ins); c != nil {
				cls := classifyWritten(prog, c.Common().Args[1], ins, 0)
				key := ""
				if report {
					nSite[cls.kind]++
					key = fmt.Sprintf("%s:write:%s#%d", name, cls.kind, nSite[cls.kind])
				}
				switch cls.kind {
				case "CONST":
					if quoteToggles(cls.text)%2 == 1 {
						if st == posOutside {
							st = posInside
						} else if st == posInside {
							st = posOutside
						}
					}
					if report {
						r2.OK(key, ins.Pos(), fmt.Sprintf("%s(%q)", kind, cls.text))
					}
				case "NUM", "BOOL", "FLOAT-GUARDED", "ESCAPED":
					if report {
						r2.Check(st == posOutside, key, ins.Pos(), cls.kind+" written outside a string", fmt.Sprintf("a %s value is written %s: the document is not what the decode says", cls.kind, posName(st)))
					}
				case "FLOAT":
					if report {
						r2.Check(st == posInside, key, ins.Pos(), "unguarded float written inside a string", "a float is written as a bare JSON number without testing that it is finite: NaN and +Inf/-Inf from the wire produce the tokens NaN/+Inf, which no JSON parser accepts")
					}
				case "TEXT":
					if report {
						r2.Check(st == posInside, key, ins.Pos(), "canonical text written inside a string", fmt.Sprintf("text is written %s (missing quotes)", posName(st)))
					}
				default:
					if report {
						r2.Fail(key, ins.Pos(), "unsafe write into the JSON document: "+cls.why)
					}
				}
				continue
			}
			// calls of other encoder functions taking the buffer: must be entered and left outside a string
			if c, ok := ins.(*ssa.Call); ok {
				if f := c.Common().StaticCallee(); f != nil && prog.IsRepoFunc(f) && bufParam(f) != nil {
					if report {
						r2.Check(st == posOutside, fmt.Sprintf("%s:call:%s", name, f.Name()), ins.Pos(), "helper entered outside a string", "an encoder helper is called "+posName(st))
					}
				}
			}
		}
		return st
	}
	work := []*ssa.BasicBlock{fn.Blocks[0]}
	for len(work) > 0 {
		b := work[0]
		work = work[1:]
		out := transfer(b, in[b.Index], false)
		for _, s := range b.Succs {
			n := in[s.Index]
			switch {
			case n == posUnknown:
				n = out
			case n != out:
				n = posConflict
			}
			if n != in[s.Index] {
				in[s.Index] = n
				work = append(work, s)
			}
		}
	}
	for _, b := range fn.Blocks {
		if in[b.Index] == posUnknown {
			continue
		}
		if in[b.Index] == posConflict {
			r2.Undecided(fmt.Sprintf("%s:join:block%d", name, b.Index), b.Instrs[0].Pos(), "paths reach this point with different quote parity: position cannot be decided")
			continue
		}
		out := transfer(b, in[b.Index], true)
		if _, isRet := b.Instrs[len(b.Instrs)-1].(*ssa.Return); isRet {
			r2.Check(out == posOutside, fmt.Sprintf("%s:return", name), b.Instrs[len(b.Instrs)-1].Pos(), "returns outside a string", "an encoder function returns "+posName(out)+": an unterminated string")
		}
	}
	// ---- R05.3 error discipline ----
	allInstrs(fn, func(ins ssa.Instruction) {
		c, ok := ins.(*ssa.Call)
		if !ok {
			return
		}
		f := c.Common().StaticCallee()
		if f == nil || !prog.IsRepoFunc(f) || bufParam(f) == nil {
			return
		}
		res := f.Signature.Results()
		if res.Len() == 0 || res.At(res.Len()-1).Type().String() != "error" {
			return
		}
		var errv ssa.Value = c
		if res.Len() > 1 {
			errv = extractOf(c, res.Len()-1)
		}
		key := fmt.Sprintf("%s:error-of:%s", name, f.Name())
		if errv == nil {
			r3.Fail(key, c.Pos(), "the error of an encoder helper is discarded: a value that could not be encoded leaves a hole in the document, which is still published")
			return
		}
		// from the call, on paths where the error is non-nil or untested, no further write may happen
		w := core.Walk{EdgeOK: func(b *ssa.BasicBlock, si int) bool {
			cond, truth, ok := core.IfEdge(b, si)
			if !ok {
				return true
			}
			if v, eqNil, ok := core.NilCompare(cond); ok && v == errv {
				return eqNil != truth // follow only the "error present" side
			}
			return true
		}}
		bad := false
		for i := range w.ReachInstrs(c) {
			if wc, _ := isWrite(i); wc != nil {
				bad = true
			}
			if c2, ok := i.(*ssa.Call); ok && c2 != c {
				if f2 := c2.Common().StaticCallee(); f2 != nil && prog.IsRepoFunc(f2) && bufParam(f2) != nil {
					bad = true
				}
			}
		}
		r3.Check(!bad, key, c.Pos(), "no write is reachable once the helper failed", "after an encoder helper fails the function keeps writing (the error is tested late, overwritten by the next field, or not tested): an incomplete document is published")
	})
	// ---- R05.4 exact numbers ----
	allInstrs(fn, func(ins ssa.Instruction) {
		c, ok := ins.(*ssa.Call)
		if !ok {
			return
		}
		n := calleeName(c)
		nSite["num"]++
		key := fmt.Sprintf("%s:%s#%d", name, strings.TrimPrefix(n, "strconv."), nSite["num"])
		switch n {
		case "strconv.FormatInt", "strconv.FormatUint":
			base, okb := ssaConstInt(c.Common().Args[1])
			src := c.Common().Args[0]
			okConv := true
			why := ""
			if cv, isConv := src.(*ssa.Convert); isConv {
				sb, _ := cv.X.Type().Underlying().(*types.Basic)
				if sb == nil || sb.Info()&types.IsInteger == 0 {
					okConv, why = false, "non-integer source"
				} else {
					unsignedSrc := sb.Info()&types.IsUnsigned != 0
					if n == "strconv.FormatInt" && unsignedSrc && intBits(sb) >= 64 {
						okConv, why = false, fmt.Sprintf("%s converted to int64: values above 2^63-1 are published as negative numbers", sb.Name())
					}
					if n == "strconv.FormatUint" && !unsignedSrc {
						okConv, why = false, fmt.Sprintf("%s converted to uint64: negative values are published as huge positive numbers", sb.Name())
					}
				}
			}
			r4.Check(okb && base == 10 && okConv, key, c.Pos(), "base 10, value-preserving conversion", "number is not formatted exactly: "+why)
		case "strconv.FormatFloat":
			prec, okp := ssaConstInt(c.Common().Args[2])
			bits, okbits := ssaConstInt(c.Common().Args[3])
			want := int64(64)
			if cv, isConv := c.Common().Args[0].(*ssa.Convert); isConv {
				if sb, ok := cv.X.Type().Underlying().(*types.Basic); ok && sb.Kind() == types.Float32 {
					want = 32
				}
			}
			// bit size may come through a parameter (helper): then check the helper's call sites instead
			if !okbits {
				if p, isParam := c.Common().Args[3].(*ssa.Parameter); isParam {
					okAll := true
					for _, cs := range prog.CG().In[fn] {
						args := cs.Instr.Common().Args
						idx := paramIndex(fn, p)
						fidx := paramIndexOfValue(fn, c.Common().Args[0])
						if idx < 0 || fidx < 0 {
							okAll = false
							continue
						}
						b, ok := ssaConstInt(args[idx])
						w := int64(64)
						if cv, isConv := args[fidx].(*ssa.Convert); isConv {
							if sb, ok := cv.X.Type().Underlying().(*types.Basic); ok && sb.Kind() == types.Float32 {
								w = 32
							}
						}
						if !ok || b != w {
							okAll = false
						}
					}
					r4.Check(okp && prec == -1 && okAll, key, c.Pos(), "shortest exact representation with the caller's own bit size", "float not formatted with precision -1 and the source's own bit size at every call site")
					return
				}
			}
			r4.Check(okp && prec == -1 && okbits && bits == want, key, c.Pos(), "shortest exact representation", fmt.Sprintf("float formatted with precision %d / bit size %d, want -1 / %d: the published number differs from the decoded one", prec, bits, want))
		}
	})
}

func paramIndex(fn *ssa.Function, p *ssa.Parameter) int {
	for i, q := range fn.Params {
		if q == p {
			return i
		}
	}
	return -1
}

func paramIndexOfValue(fn *ssa.Function, v ssa.Value) int {
	if p, ok := v.(*ssa.Parameter); ok {
		return paramIndex(fn, p)
	}
	return -1
}
