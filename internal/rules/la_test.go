package rules

import "testing"

func TestLookupAssumed(t *testing.T) {
	for _, k := range []string{"ipfix.combineErrors:K2:nonnil(errorSlice[(rangeindex+1)])", "(*vflow.IPFIX).ipfixWorker:K2:nonnil(msg.raddr)"} {
		if _, ok := lookupAssumed(c01Assumed, k); !ok {
			t.Errorf("no match for %s", k)
		}
	}
	if _, ok := lookupAssumed(c01Assumed, "ipfix.decodeSet:K2:nonnil(x)"); ok {
		t.Errorf("unexpected match")
	}
}
