package rules

import (
	"fmt"
	"go/token"
	"go/types"
	"sort"
	"strings"

	"golang.org/x/tools/go/ssa"

	"verif/internal/core"
)

// globalRoot follows an address or reference value back to the package-level variable it is rooted at
// (the variable itself, or an object reached through a pointer/slice/map stored in it).
func globalRoot(v ssa.Value, depth int, seen map[ssa.Value]bool) *ssa.Global {
	if depth > 12 || v == nil || seen[v] {
		return nil
	}
	seen[v] = true
	switch x := v.(type) {
	case *ssa.Global:
		return x
	case *ssa.IndexAddr:
		return globalRoot(x.X, depth+1, seen)
	case *ssa.FieldAddr:
		return globalRoot(x.X, depth+1, seen)
	case *ssa.Slice:
		return globalRoot(x.X, depth+1, seen)
	case *ssa.UnOp:
		if x.Op == token.MUL {
			return globalRoot(x.X, depth+1, seen)
		}
	case *ssa.ChangeType:
		return globalRoot(x.X, depth+1, seen)
	case *ssa.Convert:
		return globalRoot(x.X, depth+1, seen)
	case *ssa.MakeInterface:
		return globalRoot(x.X, depth+1, seen)
	case *ssa.Phi:
		for _, e := range x.Edges {
			if g := globalRoot(e, depth+1, seen); g != nil {
				return g
			}
		}
	case *ssa.Field:
		return globalRoot(x.X, depth+1, seen)
	}
	return nil
}

type sharedWrite struct {
	fn   *ssa.Function
	ins  ssa.Instruction
	g    *ssa.Global
	what string
}

// elemWriters: non-repository callees that write through an argument (index of the written argument).
var elemWriters = map[string]int{
	"(encoding/binary.bigEndian).PutUint16": 1, "(encoding/binary.bigEndian).PutUint32": 1, "(encoding/binary.bigEndian).PutUint64": 1,
	"(encoding/binary.littleEndian).PutUint16": 1, "(encoding/binary.littleEndian).PutUint32": 1, "(encoding/binary.littleEndian).PutUint64": 1,
	"encoding/binary.Read": 2, "io.ReadFull": 1, "io.ReadAtLeast": 1, "encoding/hex.Encode": 0, "encoding/json.Unmarshal": 1,
	"(*net/rpc.Client).Call": 3, "(*encoding/json.Decoder).Decode": 1, "(*encoding/gob.Decoder).Decode": 1, "gopkg.in/yaml.v2.Unmarshal": 1,
	"strconv.AppendInt": 0, "strconv.AppendUint": 0, "strconv.AppendFloat": 0, "strconv.AppendQuote": 0,
}

// syncPkgs: callees whose own synchronisation makes a shared receiver safe.
var syncPkgs = map[string]bool{"sync": true, "sync/atomic": true, "log": true, "time": true}

// sharedWritesIn lists the instructions of fn that write memory rooted at a package-level variable without going
// through a synchronised library object.
func sharedWritesIn(prog *core.Program, fn *ssa.Function) []sharedWrite {
	var out []sharedWrite
	root := func(v ssa.Value) *ssa.Global { return globalRoot(v, 0, map[ssa.Value]bool{}) }
	allInstrs(fn, func(ins ssa.Instruction) {
		switch x := ins.(type) {
		case *ssa.Store:
			if g := root(x.Addr); g != nil {
				out = append(out, sharedWrite{fn, ins, g, "store"})
			}
		case *ssa.MapUpdate:
			if g := root(x.Map); g != nil {
				out = append(out, sharedWrite{fn, ins, g, "map update"})
			}
		case ssa.CallInstruction:
			com := x.Common()
			if b, ok := com.Value.(*ssa.Builtin); ok {
				switch b.Name() {
				case "copy", "delete", "clear":
					if g := root(com.Args[0]); g != nil {
						out = append(out, sharedWrite{fn, ins, g, b.Name()})
					}
				case "append":
					// append(shared, ...) may write into the shared backing array
					if g := root(com.Args[0]); g != nil {
						out = append(out, sharedWrite{fn, ins, g, "append"})
					}
				}
				return
			}
			name := calleeName(x)
			if i, ok := elemWriters[name]; ok && i < len(com.Args) {
				if g := root(com.Args[i]); g != nil {
					out = append(out, sharedWrite{fn, ins, g, short(name)})
				}
				return
			}
			// a mutating method of an object kept in a package-level interface variable (`var h = fnv.New32()`)
			if com.IsInvoke() {
				if g := root(com.Value); g != nil && !readOnlyMethod(com.Method.Name()) {
					pk := ""
					if nt, ok := com.Value.Type().(*types.Named); ok && nt.Obj().Pkg() != nil {
						pk = nt.Obj().Pkg().Path()
					}
					if !syncPkgs[pk] {
						out = append(out, sharedWrite{fn, ins, g, "method " + com.Method.Name() + " of the shared " + com.Value.Type().String()})
					}
				}
				return
			}
			// a mutating method of a library object kept in a package-level variable
			if f := com.StaticCallee(); f != nil && !prog.IsRepoFunc(f) && f.Signature.Recv() != nil && len(com.Args) > 0 {
				if _, isPtr := f.Signature.Recv().Type().(*types.Pointer); isPtr && f.Pkg != nil && !syncPkgs[f.Pkg.Pkg.Path()] {
					if g := root(com.Args[0]); g != nil && !readOnlyMethod(f.Name()) {
						out = append(out, sharedWrite{fn, ins, g, short(name)})
					}
				}
			}
		}
	})
	return out
}

func readOnlyMethod(n string) bool {
	for _, p := range []string{"String", "Len", "Cap", "Bytes", "Error", "Get", "Load", "Is", "Has", "Equal", "To4", "To16", "Addr", "Local", "Remote", "Input", "Errors", "Successes"} {
		if strings.HasPrefix(n, p) {
			return true
		}
	}
	return false
}

// checkNoSharedWrites: functions reachable from the given roots write no package-level state.
func checkNoSharedWrites(prog *core.Program, rr *core.RuleRun, roots []*ssa.Function, minFns int, exempt func(sharedWrite) string, what string) {
	seen := map[*ssa.Function]bool{}
	var fns []*ssa.Function
	for _, r := range roots {
		for _, fn := range prog.CG().ReachableRepo(r) {
			if !seen[fn] {
				seen[fn] = true
				fns = append(fns, fn)
			}
		}
	}
	sort.Slice(fns, func(i, j int) bool { return core.FuncName(fns[i]) < core.FuncName(fns[j]) })
	n := 0
	for _, fn := range fns {
		ws := sharedWritesIn(prog, fn)
		perGlobal := map[string]bool{}
		for _, w := range ws {
			key := fmt.Sprintf("%s:writes:%s", core.FuncName(fn), w.g.Name())
			if perGlobal[key] {
				continue
			}
			perGlobal[key] = true
			if why := exempt(w); why != "" {
				rr.OK(key, w.ins.Pos(), why)
				continue
			}
			n++
			rr.Fail(key, w.ins.Pos(), fmt.Sprintf("%s (%s) writes memory reached from the package-level variable %s: %s", core.FuncName(fn), w.what, w.g.Name(), what))
		}
	}
	rr.Check(len(fns) >= minFns, "scope:functions", token.NoPos, fmt.Sprintf("%d functions examined, %d unsynchronised writes", len(fns), n), fmt.Sprintf("only %d functions found under the roots (at least %d expected): anchors not resolved", len(fns), minFns))
}
