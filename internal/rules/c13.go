package rules

import (
	"fmt"
	"go/token"
	"go/types"
	"strings"

	"golang.org/x/tools/go/ssa"

	"verif/internal/core"
)

func init() { register("C13", checkC13) }

func fmtRange(r core.CountResult, label string) string {
	mn, ok1 := r.Min[label]
	mx, ok2 := r.Max[label]
	if !ok1 && !ok2 {
		return "[no such path]"
	}
	m := fmt.Sprint(mx)
	if mx >= core.Inf {
		m = "inf"
	}
	return fmt.Sprintf("[%d,%s]", mn, m)
}

func exactly(r core.CountResult, label string, lo, hi int) bool {
	mn, ok1 := r.Min[label]
	mx, ok2 := r.Max[label]
	return ok1 && ok2 && mn >= lo && mx <= hi
}

func checkC13(rep *core.Report) {
	rep.Explanation = "Per-iteration event counting over every CFG path of the four receive loops and the four worker loops (min/max of each event between two loop-header visits, inner cycles with events count as unbounded): receive success => exactly one received-counter increment and one queue send of that datagram, receive error => none; every completed worker iteration => exactly one decode call, decoded-counter increment at most once and only on paths where a message was produced, at most one non-blocking publish and exactly one after a successful encode. Counters are only touched through sync/atomic by their own pipeline; only run loops send on the datagram queues and only workers send on the publish queues. Composed with the language guarantee that a channel delivers each sent value to exactly one receiver this gives the at-most-once/exactly-once statements for every schedule."
	rep.Assume("a value sent on a Go channel is received at most once (language semantics)")
	rep.Assume("'decodes successfully' is taken in the code's own sense: the decode entry point produced a message object (sFlow: and it carries samples and encodes)")
	prog := rep.Prog
	pipes := findPipelines(prog)
	r1 := rep.Rule("R13.1", "run loop: success edge of the socket read has exactly one received-count increment and one queue send of that datagram; error edge none", 8)
	r2 := rep.Rule("R13.2", "worker: each completed iteration has exactly one decode call; decoded-count incremented at most once, only after decode and only where a message exists", 8)
	r3 := rep.Rule("R13.3", "worker: publish is non-blocking, at most once per iteration, exactly once after a successful encode", 8)
	r4 := rep.Rule("R13.4", "UDPCount/DecodedCount only accessed through sync/atomic; incremented only by their own run loop / worker", 8)
	r5 := rep.Rule("R13.5", "only run loops send on datagram queues; only workers send on publish queues and receive from datagram queues", 8)

	runs, workers := map[*ssa.Function]*pipeline{}, map[*ssa.Function]*pipeline{}
	for _, p := range pipes {
		if p.run != nil {
			runs[p.run] = p
		}
		if p.worker != nil {
			workers[p.worker] = p
		}
	}
	if len(runs) < 4 || len(workers) < 4 {
		r1.Undecided("anchors", token.NoPos, fmt.Sprintf("found %d run loops and %d workers in package main, want 4 each", len(runs), len(workers)))
	}
	for _, p := range pipes {
		if p.run != nil {
			checkRunLoop(rep, r1, p)
			checkQueuedBufferKept(prog, r1, p)
		}
		if p.worker != nil && p.recv != nil {
			checkWorkerCounts(rep, r2, r3, p)
		}
	}
	// ---- R13.6: premise shared with C12: two in-flight datagrams never share a buffer ----
	r7 := rep.Rule("R13.7", "the stats snapshot reports every counter from its own field (and queue lengths from the protocol's own queues)", 12)
	checkStatsSnapshot(prog, r7)
	r6 := rep.Rule("R13.6", "premise (shared with C12): a datagram's receive buffer is released at most once per iteration and never used after release", 4)
	for _, p := range pipes {
		if p.worker != nil && p.recv != nil {
			checkReleaseDiscipline(prog, r6, r6, p.worker, p.recv, p.decode)
			// the mirror loop releases what it dequeues: the worker must queue a copy, or the receive buffer is
			// released a second time there
			checkMirrorOwnBuffer(r6, p.worker, core.LoopOf(p.worker, p.recv), core.FuncName(p.worker))
		}
	}
	// ---- R13.4 / R13.5 over the whole program ----
	for _, fn := range prog.RepoFuncs() {
		allInstrs(fn, func(ins ssa.Instruction) {
			switch x := ins.(type) {
			case *ssa.FieldAddr:
				_, fld, _ := core.FieldOf(x)
				if fld == nil || (fld.Name() != "UDPCount" && fld.Name() != "DecodedCount") || !strings.HasSuffix(namedOf(core.Deref(x.X.Type())).Obj().Name(), "Stats") {
					return
				}
				if core.PkgRel(fn) != "vflow" {
					return
				}
				key := core.FuncName(fn) + ":" + fld.Name()
				for _, ref := range referrers(x) {
					if an, _, ok := isAtomicOn(ref); ok {
						switch {
						case strings.HasPrefix(an, "Load"):
							r4.OK(key+":load", ref.Pos(), "atomic load")
						case an == "AddUint64":
							own := (fld.Name() == "UDPCount" && runs[fn] != nil) || (fld.Name() == "DecodedCount" && workers[fn] != nil)
							sameProto := sameStatsOwner(x, fn)
							r4.Check(own && sameProto, key+":add", ref.Pos(), "atomic add by its own loop", "counter incremented outside its own run loop/worker (or on another protocol's stats)")
						default:
							r4.Fail(key+":"+an, ref.Pos(), "counter modified through atomic."+an+" (only Add by 1 and Load are accepted)")
						}
						continue
					}
					if st, ok := ref.(*ssa.Store); ok && st.Addr == ssa.Value(x) {
						if _, fresh := core.AddrRoot(x.X).(*ssa.Alloc); fresh && !escapesBeforeStore(x) {
							r4.OK(key+":snapshot-store", ref.Pos(), "store into a freshly allocated snapshot struct")
							continue
						}
					}
					if ld, ok := ref.(*ssa.UnOp); ok && ld.Op == token.MUL {
						if c, ok := core.AddrRoot(x.X).(*ssa.Call); ok {
							if f := c.Common().StaticCallee(); f != nil && prog.IsRepoFunc(f) && returnsFreshStruct(f) {
								r4.OK(key+":snapshot-load", ref.Pos(), "read of a snapshot returned by "+core.FuncName(f))
								continue
							}
						}
					}
					r4.Fail(key+":plain", ref.Pos(), "counter accessed without sync/atomic: "+ref.String())
				}
			case *ssa.Send:
				checkSender(r5, fn, x.Chan, x.Pos(), runs, workers)
			case *ssa.Select:
				for _, st := range x.States {
					if st.Dir == types.SendOnly {
						checkSender(r5, fn, st.Chan, x.Pos(), runs, workers)
					} else if isUDPChan(st.Chan) && globalOf(st.Chan) != nil {
						r5.Check(workers[fn] != nil, core.FuncName(fn)+":recv:"+globalOf(st.Chan).Name(), x.Pos(), "worker receives", "datagram queue received from outside a worker: datagrams would bypass accounting")
					}
				}
			case *ssa.UnOp:
				if x.Op == token.ARROW && isUDPChan(x.X) && globalOf(x.X) != nil {
					r5.Check(workers[fn] != nil, core.FuncName(fn)+":recv:"+globalOf(x.X).Name(), x.Pos(), "worker receives", "datagram queue received from outside a worker: datagrams would bypass accounting")
				}
			}
		})
	}
}

// sameStatsOwner: the stats struct addressed belongs to the method's own receiver.
func sameStatsOwner(fa *ssa.FieldAddr, fn *ssa.Function) bool {
	root := resolveLocal(core.AddrRoot(fa))
	if len(fn.Params) == 0 {
		return false
	}
	return root == ssa.Value(fn.Params[0])
}

func escapesBeforeStore(fa *ssa.FieldAddr) bool { return false }

func checkSender(r5 *core.RuleRun, fn *ssa.Function, ch ssa.Value, pos token.Pos, runs, workers map[*ssa.Function]*pipeline) {
	g := globalOf(ch)
	switch {
	case isUDPChan(ch) && g != nil && isWorkQueue(g, workers):
		r5.Check(runs[fn] != nil, core.FuncName(fn)+":send:"+g.Name(), pos, "run loop sends", "datagram queue written outside a run loop: a datagram could be processed that was never received (or twice)")
	case isMQChan(ch) && g != nil:
		r5.Check(workers[fn] != nil, core.FuncName(fn)+":send:"+g.Name(), pos, "worker publishes", "publish queue written outside a worker: a message could be published twice or without a datagram")
	}
}

// isWorkQueue: the global is the channel some worker receives its datagrams from (mirror queues are not).
func isWorkQueue(g *ssa.Global, workers map[*ssa.Function]*pipeline) bool {
	for _, p := range workers {
		if p.udpCh == g {
			return true
		}
	}
	return false
}

func checkRunLoop(rep *core.Report, r1 *core.RuleRun, p *pipeline) {
	fn := p.run
	name := core.FuncName(fn)
	loop := core.LoopOf(fn, p.read)
	if loop == nil {
		r1.Undecided(name+":loop", p.read.Pos(), "socket read is not inside a loop")
		return
	}
	errv := extractOf(p.read, 2)
	if errv == nil {
		r1.Fail(name+":err", p.read.Pos(), "error result of ReadFromUDP is not examined")
		return
	}
	isInc := func(ins ssa.Instruction) int {
		if an, fld, ok := isAtomicOn(ins); ok && an == "AddUint64" && fld != nil && fld.Name() == "UDPCount" {
			if c, ok := ssaConstInt(ins.(ssa.CallInstruction).Common().Args[1]); ok && c == 1 {
				return 1
			}
			return 2 // increment by something else counts as a miscount
		}
		return 0
	}
	var sends []*ssa.Send
	isSend := func(ins ssa.Instruction) int {
		switch x := ins.(type) {
		case *ssa.Send:
			if isUDPChan(x.Chan) {
				sends = append(sends, x)
				return 1
			}
		case *ssa.Select:
			for _, st := range x.States {
				if st.Dir == types.SendOnly && isUDPChan(st.Chan) {
					return 1
				}
			}
		}
		return 0
	}
	stop := core.IterationStop(loop)
	for _, ev := range []struct {
		n string
		f func(ssa.Instruction) int
	}{{"UDPCount++", isInc}, {"queue-send", isSend}} {
		okRes := core.CountQuery{Fn: fn, Start: p.read, Stop: stop, Event: ev.f, EdgeOK: nilEdgeFilter(errv, true)}.Run()
		erRes := core.CountQuery{Fn: fn, Start: p.read, Stop: stop, Event: ev.f, EdgeOK: nilEdgeFilter(errv, false)}.Run()
		r1.Check(exactly(okRes, "latch", 1, 1) && okRes.Max["exit"] <= 1 && (len(okRes.Min) == 1 || okRes.Min["exit"] >= 1),
			name+":ok:"+ev.n, p.read.Pos(), "exactly one per successful read "+fmtRange(okRes, "latch"),
			fmt.Sprintf("after a successful read the event %s occurs %s times before the next read (want exactly 1); leaving the loop: %s", ev.n, fmtRange(okRes, "latch"), fmtRange(okRes, "exit")))
		r1.Check(maxAll(erRes) == 0, name+":err:"+ev.n, p.read.Pos(), "none on the error edge",
			fmt.Sprintf("on the read-error edge the event %s can occur (%s): a datagram that was not received is accounted/queued", ev.n, fmtRange(erRes, "latch")))
	}
	// the queued value is this datagram: derives from the read's n and address results and the buffer read into
	_ = core.CountQuery{Fn: fn, Start: p.read, Stop: stop, Event: isSend}.Run()
	nres, addr := extractOf(p.read, 0), extractOf(p.read, 1)
	buf := p.read.Common().Args[1]
	for _, s := range dedupSends(sends) {
		sl := core.BackwardSlice(s.X, core.SliceOpts{})
		good := nres != nil && addr != nil && sl[nres] && sl[addr] && sl[buf]
		r1.Check(good, name+":send-this-datagram", s.Pos(), "queued value derives from this read's buffer, length and source address",
			"the value queued is not built from this read's buffer, byte count and source address")
	}
}

func dedupSends(s []*ssa.Send) []*ssa.Send {
	seen := map[*ssa.Send]bool{}
	var out []*ssa.Send
	for _, x := range s {
		if !seen[x] {
			seen[x] = true
			out = append(out, x)
		}
	}
	return out
}

func maxAll(r core.CountResult) int {
	m := 0
	for _, v := range r.Max {
		if v > m {
			m = v
		}
	}
	return m
}

func checkWorkerCounts(rep *core.Report, r2, r3 *core.RuleRun, p *pipeline) {
	fn := p.worker
	name := core.FuncName(fn)
	loop := core.LoopOf(fn, p.recv)
	if loop == nil {
		r2.Undecided(name+":loop", p.recv.Pos(), "queue receive is not inside a loop")
		return
	}
	stop := core.IterationStop(loop)
	isDecode := func(ins ssa.Instruction) int {
		if c, ok := ins.(ssa.CallInstruction); ok && isDecodeEntry(c.Common().StaticCallee()) {
			return 1
		}
		return 0
	}
	isInc := func(ins ssa.Instruction) int {
		if an, fld, ok := isAtomicOn(ins); ok && an == "AddUint64" && fld != nil && fld.Name() == "DecodedCount" {
			if c, ok := ssaConstInt(ins.(ssa.CallInstruction).Common().Args[1]); ok && c == 1 {
				return 1
			}
			return 2
		}
		return 0
	}
	var pubs []*ssa.Select
	blockingPub := false
	isPub := func(ins ssa.Instruction) int {
		switch x := ins.(type) {
		case *ssa.Send:
			if isMQChan(x.Chan) {
				blockingPub = true
				return 1
			}
		case *ssa.Select:
			for _, st := range x.States {
				if st.Dir == types.SendOnly && isMQChan(st.Chan) {
					pubs = append(pubs, x)
					if x.Blocking {
						blockingPub = true
					}
					return 1
				}
			}
		}
		return 0
	}
	dec := core.CountQuery{Fn: fn, Start: p.recv, Stop: stop, Event: isDecode}.Run()
	r2.Check(exactly(dec, "latch", 1, 1), name+":decode-per-iteration", p.recv.Pos(), "exactly one decode call per completed iteration",
		fmt.Sprintf("a completed worker iteration makes %s decode calls (want exactly 1): a datagram would be skipped or decoded twice", fmtRange(dec, "latch")))
	r2.Check(maxAll(core.CountResult{Max: map[string]int{"exit": dec.Max["exit"]}}) <= 1, name+":decode-on-exit", p.recv.Pos(), "", "more than one decode call on a path leaving the loop")
	// the decode operates on the received message: its decoder was constructed from the received value
	recvVal := recvValue(p.recv)
	if recvVal != nil {
		sl := core.BackwardSlice(p.decode.Common().Args[0], core.SliceOpts{})
		r2.Check(sl[recvVal], name+":decode-of-received", p.decode.Pos(), "decoder built from the value received in this iteration", "the decoder is not built from the datagram received in this iteration")
	}
	inc := core.CountQuery{Fn: fn, Start: p.recv, Stop: stop, Event: isInc}.Run()
	r2.Check(maxAll(inc) <= 1, name+":DecodedCount-at-most-once", p.recv.Pos(), "decoded-count increment "+fmtRange(inc, "latch")+" per iteration",
		fmt.Sprintf("decoded-count can be incremented %s times for one datagram", fmtRange(inc, "latch")))
	// increments only after the decode and only where a message exists
	msgv, errv := ssa.Value(extractOf(p.decode, 0)), ssa.Value(extractOf(p.decode, 1))
	nInc := 0
	allInstrs(fn, func(ins ssa.Instruction) {
		if isInc(ins) == 0 {
			return
		}
		nInc++
		key := name + ":DecodedCount-guarded"
		if !core.InstrDominates(p.decode, ins) {
			r2.Fail(key, ins.Pos(), "decoded-count incremented on a path that did not call decode in this iteration")
			return
		}
		// block the "message exists" edges: err==nil or msg!=nil. If the increment is still reachable
		// from the decode within the iteration, it can count a datagram that produced no message.
		// A non-nil message is evidence of a (partly) successful decode only for the decoders that have a non-fatal
		// error class and return nil on a fatal error (IPFIX, NetFlow v9/v5). The sFlow decoder has no such class: it
		// hands back whatever it had decoded when it failed, so only 'error is nil' says the datagram decoded.
		msgMeansSuccess := false
		if df := p.decode.Common().StaticCallee(); df != nil && df.Pkg != nil {
			msgMeansSuccess = df.Pkg.Pkg.Scope().Lookup("nonfatalError") != nil
		}
		w := core.Walk{EdgeOK: func(b *ssa.BasicBlock, si int) bool {
			if b.Succs[si] == loop.Header {
				return false
			}
			cond, truth, ok := core.IfEdge(b, si)
			if !ok {
				return true
			}
			if v, eqNil, ok := core.NilCompare(cond); ok {
				isNil := eqNil == truth
				if v == errv && isNil {
					return false // decode succeeded: message exists
				}
				if v == msgv && !isNil && msgMeansSuccess {
					return false // message exists
				}
			}
			return true
		}}
		r2.Check(!w.CanReach(p.decode, ins), key, ins.Pos(), "every path from decode to the increment passes 'error is nil' or (for decoders with a non-fatal error class) 'message is not nil'",
			"decoded-count can be incremented although decode failed (an error and no message; for sFlow: any error, since its decoder returns the partial result with the error)")
	})
	if nInc == 0 {
		r2.Fail(name+":DecodedCount-missing", fn.Pos(), "worker never increments its decoded counter")
	}
	// the converse, for decoders with a non-fatal error class (IPFIX, NetFlow v9/v5): a non-fatal error comes back
	// together with the message holding what did decode, so the only way round the increment (and the publish
	// behind it) is "message is nil". Skipping on "error is not nil" alone drops datagrams that yielded records.
	// (sFlow: "decodes successfully" is the code's own conjunction of no error, samples present and encodable,
	// which sits between the decode and the increment; not judged here.)
	if df := p.decode.Common().StaticCallee(); nInc > 0 && df != nil && df.Pkg != nil && df.Pkg.Pkg.Scope().Lookup("nonfatalError") != nil {
		w := core.Walk{
			Blocked: func(ins ssa.Instruction) bool { return isInc(ins) != 0 },
			EdgeOK: func(b *ssa.BasicBlock, si int) bool {
				if !loop.Blocks[b.Succs[si]] {
					return false
				}
				cond, truth, ok := core.IfEdge(b, si)
				if !ok {
					return true
				}
				if v, eqNil, ok := core.NilCompare(cond); ok && v == msgv && eqNil == truth {
					return false // no message: nothing to count
				}
				return true
			}}
		reach := w.ReachInstrs(p.decode)
		skipped := len(loop.Header.Instrs) > 0 && reach[loop.Header.Instrs[0]]
		r2.Check(!skipped, name+":DecodedCount-when-message", p.decode.Pos(), "every path from decode to the next datagram that does not pass the increment passes 'message is nil'",
			"a datagram for which the decoder returned a message (a non-fatal error leaves the records that did decode) can complete the iteration uncounted and unpublished")
	}
	// ---- publish ----
	pub := core.CountQuery{Fn: fn, Start: p.recv, Stop: stop, Event: isPub}.Run()
	r3.Check(maxAll(pub) <= 1, name+":publish-at-most-once", p.recv.Pos(), "publish "+fmtRange(pub, "latch")+" per iteration", fmt.Sprintf("a datagram can be published %s times", fmtRange(pub, "latch")))
	r3.Check(!blockingPub, name+":publish-nonblocking", p.recv.Pos(), "select with default", "publish is a blocking send: a full queue stalls the worker and the accounting")
	if p.marshal != nil {
		merr := ssa.Value(extractOf(p.marshal, 1))
		after := core.CountQuery{Fn: fn, Start: p.marshal, Stop: stop, Event: isPub, EdgeOK: nilEdgeFilter(merr, true)}.Run()
		r3.Check(exactly(after, "latch", 1, 1) && len(after.Min) == 1, name+":publish-after-encode", p.marshal.Pos(), "exactly one publish attempt after a successful encode",
			fmt.Sprintf("after a successful encode there are %s publish attempts before the next datagram (exit paths: %s)", fmtRange(after, "latch"), fmtRange(after, "exit")))
		bad := core.CountQuery{Fn: fn, Start: p.marshal, Stop: stop, Event: isPub, EdgeOK: nilEdgeFilter(merr, false)}.Run()
		r3.Check(maxAll(bad) == 0, name+":no-publish-after-failed-encode", p.marshal.Pos(), "", "a message is published although encoding failed")
		// publish only after encode: every publish is dominated by the marshal call
		for _, s := range pubs {
			r3.Check(core.InstrDominates(p.marshal, s), name+":publish-dominated-by-encode", s.Pos(), "", "a publish is reachable without encoding in this iteration")
			// payload derives from this iteration's encode result
			for _, st := range s.States {
				if st.Dir == types.SendOnly && isMQChan(st.Chan) {
					sl := core.BackwardSlice(st.Send, core.SliceOpts{})
					r3.Check(sl[p.marshal], name+":publish-payload", s.Pos(), "payload derives from this iteration's encode result", "published payload does not derive from this iteration's encode result")
				}
			}
		}
	} else {
		r3.Undecided(name+":encode", fn.Pos(), "no JSON encode call found in worker")
	}
}

// recvValue returns the SSA value holding the message received by a Select/UnOp receive.
func recvValue(recv ssa.Instruction) ssa.Value {
	switch x := recv.(type) {
	case *ssa.UnOp:
		return x
	case *ssa.Select:
		idx := 2
		for _, st := range x.States {
			if st.Dir == types.RecvOnly {
				if isUDPChan(st.Chan) {
					return extractOf(x, idx)
				}
				idx++
			}
		}
	}
	return nil
}

// checkStatsSnapshot (R13.7): in every status() method the field F of the snapshot it returns is filled by an atomic
// load of the field of the same name of the protocol's counters (or by len of a queue). A snapshot that reports one
// counter under another's name makes the published/received/decoded accounting unverifiable from the stats API.
func checkStatsSnapshot(prog *core.Program, rr *core.RuleRun) {
	n := 0
	for _, fn := range prog.RepoFuncs() {
		if core.PkgRel(fn) != "vflow" || fn.Name() != "status" || fn.Signature.Recv() == nil {
			continue
		}
		name := core.FuncName(fn)
		allInstrs(fn, func(ins ssa.Instruction) {
			st, ok := ins.(*ssa.Store)
			if !ok {
				return
			}
			fa, ok := st.Addr.(*ssa.FieldAddr)
			if !ok {
				return
			}
			if _, isAlloc := fa.X.(*ssa.Alloc); !isAlloc {
				return
			}
			_, dst, ok := core.FieldOf(fa)
			if !ok {
				return
			}
			call, isCall := st.Val.(*ssa.Call)
			if !isCall {
				return
			}
			cn := calleeName(call)
			if !strings.HasPrefix(cn, "sync/atomic.Load") {
				return
			}
			n++
			_, src, ok2 := core.FieldOf(call.Common().Args[0])
			rr.Check(ok2 && src.Name() == dst.Name(), name+":"+dst.Name(), st.Pos(), "reported from the counter of the same name",
				fmt.Sprintf("the snapshot field %s is loaded from the counter %s: the stats API reports one quantity under another's name", dst.Name(), fname(src)))
		})
	}
	if n == 0 {
		rr.Undecided("status:snapshots", token.NoPos, "no status() snapshot with atomic loads found")
	}
}

// checkQueuedBufferKept: in a receive loop, a buffer that is handed to the workers (it backs the queued message's body)
// is not also returned to the pool in that iteration: ownership moves with the message, and the worker releases it.
// A receive loop that "gives every buffer back" makes the next read overwrite a datagram that is still queued.
func checkQueuedBufferKept(prog *core.Program, rr *core.RuleRun, p *pipeline) {
	fn := p.run
	if fn == nil || p.read == nil {
		return
	}
	name := core.FuncName(fn)
	loop := core.LoopOf(fn, p.read)
	if loop == nil {
		return
	}
	buf := p.read.Common().Args[len(p.read.Common().Args)-1] // the []byte read into
	derives := func(v ssa.Value) bool {
		sl := core.BackwardSlice(v, core.SliceOpts{})
		return sl[buf] || v == buf
	}
	var sends, puts []ssa.Instruction
	allInstrs(fn, func(ins ssa.Instruction) {
		if !loop.Blocks[ins.Block()] {
			return
		}
		switch x := ins.(type) {
		case *ssa.Send:
			if isUDPChan(x.Chan) && derives(x.X) {
				sends = append(sends, x)
			}
		case *ssa.Call:
			if g, op := poolOf(x); g != nil && op == "Put" && derives(x.Common().Args[1]) {
				puts = append(puts, x)
			}
		}
	})
	bad := false
	inIter := core.Walk{EdgeOK: func(b *ssa.BasicBlock, si int) bool { return b.Succs[si] != loop.Header }}
	for _, s := range sends {
		for _, pt := range puts {
			if inIter.CanReach(s, pt) || inIter.CanReach(pt, s) {
				bad = true
			}
		}
	}
	rr.Check(!bad, name+":queued-buffer-not-released", p.read.Pos(), fmt.Sprintf("%d queue send(s), %d release(s) of the read buffer, never both in one iteration", len(sends), len(puts)),
		"the receive loop returns to the pool a buffer whose bytes it has just queued for the workers: the next datagram is read over one that is still waiting or being decoded, so one datagram is published several times and others never")
}
