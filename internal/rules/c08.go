package rules

import (
	"fmt"
	"go/token"
	"go/types"
	"os"
	"regexp"
	"strings"

	"golang.org/x/tools/go/ssa"

	"verif/internal/core"
)

func init() { register("C08", checkC08) }

var v5HeaderSpec = []specField{{"Version", 2}, {"Count", 2}, {"SysUpTimeMSecs", 4}, {"UNIXSecs", 4}, {"UNIXNSecs", 4}, {"SeqNum", 4}, {"EngType", 1}, {"EngID", 1}, {"SmpInt", 2}}
var v5RecordSpec = []specField{{"SrcAddr", 4}, {"DstAddr", 4}, {"NextHop", 4}, {"Input", 2}, {"Output", 2}, {"PktCount", 4}, {"L3Octets", 4}, {"StartTime", 4}, {"EndTime", 4},
	{"SrcPort", 2}, {"DstPort", 2}, {"Padding1", 1}, {"TCPFlags", 1}, {"ProtType", 1}, {"Tos", 1}, {"SrcAsNum", 2}, {"DstAsNum", 2}, {"SrcMask", 1}, {"DstMask", 1}, {"Padding2", 2}}

// checkLayoutSeq runs mode A on the single filler of a type and compares with the spec.
func checkLayoutSeq(prog *core.Program, rr *core.RuleRun, rel, typ string, spec []specField, what string) (paths []layPath, fn *ssa.Function) {
	fillers := findFillers(prog, rel, typ)
	if len(fillers) == 0 {
		rr.Undecided(rel+"."+typ+":filler", token.NoPos, "no function fills "+typ+" from a reader")
		return nil, nil
	}
	for _, f := range fillers {
		ps := extractLayout(prog, f)
		if os.Getenv("VERIF_DEBUG") != "" {
			for _, p := range ps {
				fmt.Printf("LAYOUT %s: %s\n", core.FuncName(f), p)
			}
		}
		if len(ps) == 0 {
			rr.Undecided(core.FuncName(f)+":paths", f.Pos(), "no success path could be extracted")
			continue
		}
		if spec != nil {
			for _, p := range ps {
				diff := compareSeq(p, spec)
				rr.Check(diff == "", core.FuncName(f)+":layout", f.Pos(), fmt.Sprintf("%s: %d fields, %d octets, in format order", what, len(spec), p.total()), what+": "+diff)
			}
			// a field of the format holds what was read for it: no other assignment (masking, scaling, defaulting) follows
			specField := map[string]bool{}
			for _, sf := range spec {
				specField[sf.Name] = true
			}
			for _, p := range ps {
				for _, e := range p.Events {
					if e.Kind == "set" && specField[e.Dest] {
						rr.Fail(core.FuncName(f)+":rewrites:"+e.Dest, e.Pos, fmt.Sprintf("%s: field %s is assigned %s after (or instead of) being read: the decoded value is no longer the octets on the wire", what, e.Dest, e.Value))
					}
				}
			}
			// one instance per field for the evidence
			if len(ps) == 1 && compareSeq(ps[0], spec) == "" {
				for _, e := range ps[0].reads() {
					rr.OK(fmt.Sprintf("%s.%s.%s@%d/%d", rel, typ, e.Dest, e.Off, e.Width), e.Pos, "big-endian")
				}
			}
		}
		paths, fn = ps, f
	}
	return paths, fn
}

var jsonKeyRe = regexp.MustCompile(`"([A-Za-z0-9_]+)":`)

// keyValuePairs walks an encoder function in block order and pairs each constant key with the field the
// following value write derives from.
func keyValuePairs(prog *core.Program, fn *ssa.Function) (pairs [][2]string, problems []string) {
	buf := bufParam(fn)
	for _, b := range fn.DomPreorder() {
		pending := ""
		ipContent := map[ssa.Value]string{}
		for _, ins := range b.Instrs {
			c, ok := ins.(*ssa.Call)
			if !ok {
				continue
			}
			n := calleeName(c)
			if strings.HasPrefix(n, "(encoding/binary.bigEndian).PutUint") {
				ipContent[stripConv(c.Common().Args[1])] = fieldLoadName(c.Common().Args[2])
				continue
			}
			if !strings.HasPrefix(n, "(*bytes.Buffer).Write") || c.Common().Args[0] != ssa.Value(buf) {
				continue
			}
			arg := c.Common().Args[1]
			if cst, isC := arg.(*ssa.Const); isC && cst.Value != nil {
				s := strings.Trim(cst.Value.ExactString(), "\"")
				s = strings.ReplaceAll(s, `\"`, `"`)
				if m := jsonKeyRe.FindAllStringSubmatch(s, -1); len(m) > 0 {
					if pending != "" {
						problems = append(problems, "key "+pending+" has no value")
					}
					pending = m[len(m)-1][1]
					// keys that open an object ("Header":{ ) carry no scalar value
					if strings.HasSuffix(s, "{") || strings.HasSuffix(s, "[") {
						pending = ""
					}
				}
				continue
			}
			// value write
			src := ""
			for v := range core.BackwardSlice(arg, core.SliceOpts{}) {
				if f := fieldLoadName(v); f != "" && f != "Header" {
					src = f
				}
				if call, ok := v.(*ssa.Call); ok && calleeName(call) == "(net.IP).String" {
					if f, ok := ipContent[stripConv(call.Common().Args[0])]; ok {
						src = f
					}
				}
			}
			if pending == "" {
				problems = append(problems, "value from "+src+" without a key")
				continue
			}
			pairs = append(pairs, [2]string{pending, src})
			pending = ""
		}
	}
	return pairs, problems
}

func checkC08(rep *core.Report) {
	rep.Explanation = "The composition wire offset -> struct field -> JSON key is extracted statically and compared with the NetFlow v5 format: the header filler reads 9 fields/24 octets and the record filler 20 fields/48 octets in the format's order and widths through the big-endian reader; in the encoder every constant JSON key is followed by a value derived from the field of the same name (addresses through net.IP.String of the 4 big-endian octets of that field); the validation constants are 5 and 1..30; the length check uses the record size the layout adds up to, takes the reader's remaining length, and dominates the record loop; Flows is written only after validation and the length check, one element per successful record parse, from a record variable local to the iteration."
	prog := rep.Prog
	r1 := rep.Rule("R08.1", "header and record wire layouts equal the NetFlow v5 format", 30)
	r2 := rep.Rule("R08.2", "each JSON key is fed from the struct field of the same name", 29)
	r3 := rep.Rule("R08.3", "validation constants (version 5, count 1..30) and length check (count*48 <= remaining)", 5)
	r4 := rep.Rule("R08.4", "flows are emitted only after validation and the length check, one per successfully parsed record", 5)
	checkLayoutSeq(prog, r1, "netflow/v5", "PacketHeader", v5HeaderSpec, "NetFlow v5 header")
	recPaths, recFn := checkLayoutSeq(prog, r1, "netflow/v5", "FlowRecord", v5RecordSpec, "NetFlow v5 flow record")
	recSize := -1
	if len(recPaths) == 1 {
		recSize = recPaths[0].total()
	}
	// ---- R08.2 ----
	for _, mname := range []string{"encodeHeader", "encodeFlow"} {
		fn := prog.Method("netflow/v5", "Message", mname)
		if fn == nil {
			r2.Undecided("netflow/v5:"+mname, token.NoPos, "encoder function not found")
			continue
		}
		pairs, probs := keyValuePairs(prog, fn)
		for _, p := range probs {
			r2.Fail(core.FuncName(fn)+":structure", fn.Pos(), p)
		}
		for _, kv := range pairs {
			r2.Check(kv[0] == kv[1], fmt.Sprintf("%s:key:%s", core.FuncName(fn), kv[0]), fn.Pos(), "value derives from field "+kv[1],
				fmt.Sprintf("JSON key %q is fed from field %q: consumers read another field's value under this name", kv[0], kv[1]))
		}
	}
	// ---- R08.3 ----
	validate := prog.Method("netflow/v5", "PacketHeader", "validate")
	if validate == nil {
		r3.Undecided("netflow/v5:validate", token.NoPos, "header validation not found")
	} else {
		got := map[string]bool{}
		allInstrs(validate, func(ins ssa.Instruction) {
			if b, ok := ins.(*ssa.BinOp); ok {
				if c, isC := ssaConstInt(b.Y); isC {
					name := fieldLoadName(b.X)
					// the value tested is the field itself: a narrowing conversion on the way tests only some of its bits
					for v := b.X; ; {
						cv, isConv := v.(*ssa.Convert)
						if !isConv {
							break
						}
						sb, ok1 := cv.X.Type().Underlying().(*types.Basic)
						db, ok2 := cv.Type().Underlying().(*types.Basic)
						if ok1 && ok2 && intBits(db) < intBits(sb) {
							name = "narrowed(" + name + ")"
						}
						v = cv.X
					}
					got[fmt.Sprintf("%s %s %d", name, b.Op, c)] = true
				}
			}
		})
		for _, want := range []string{"Version != 5", "Count < 1", "Count > 30"} {
			r3.Check(got[want], "(*netflow/v5.PacketHeader).validate:"+strings.ReplaceAll(want, " ", ""), validate.Pos(), want+" rejects", fmt.Sprintf("validation does not reject on %q (tests present: %v)", want, keysOfStr(got)))
		}
	}
	dec := prog.Method("netflow/v5", "Decoder", "Decode")
	var flowsFn *ssa.Function
	var flowsCall *ssa.Call
	if dec != nil {
		allInstrs(dec, func(ins ssa.Instruction) {
			if c, ok := ins.(*ssa.Call); ok {
				if f := c.Common().StaticCallee(); f != nil && prog.IsRepoFunc(f) && recvTypeName(f) == "Decoder" && f != dec {
					flowsFn, flowsCall = f, c
				}
			}
		})
	}
	if flowsFn == nil {
		r3.Undecided("netflow/v5:decodeFlows", token.NoPos, "record loop function not found")
		return
	}
	name := core.FuncName(flowsFn)
	// validation dominates the call and its failure returns no message
	var valCall *ssa.Call
	allInstrs(dec, func(ins ssa.Instruction) {
		if c, ok := ins.(*ssa.Call); ok && c.Common().StaticCallee() == validate {
			valCall = c
		}
	})
	r4.Check(valCall != nil && dominatedByNilEdge(flowsCall, valCall, true), core.FuncName(dec)+":validated-before-records", flowsCall.Pos(), "record decoding only after validate() succeeded", "records are decoded although header validation may have failed (wrong version or count outside 1..30)")
	cntOK := false
	for v := range core.BackwardSlice(flowsCall.Common().Args[1], core.SliceOpts{}) {
		if fieldLoadName(v) == "Count" {
			cntOK = true
		}
	}
	r4.Check(cntOK, core.FuncName(dec)+":count-from-header", flowsCall.Pos(), "flow count is the header's Count", "the number of records decoded is not the header's Count")
	// length check
	var mul *ssa.BinOp
	var cmp *ssa.BinOp
	allInstrs(flowsFn, func(ins ssa.Instruction) {
		b, ok := ins.(*ssa.BinOp)
		if !ok {
			return
		}
		if b.Op == token.MUL {
			mul = b
		}
		if (b.Op == token.GTR || b.Op == token.LSS || b.Op == token.GEQ || b.Op == token.LEQ) && mul != nil && (b.X == ssa.Value(mul) || b.Y == ssa.Value(mul)) {
			cmp = b
		}
	})
	if mul == nil || cmp == nil {
		r3.Fail(name+":length-check", flowsFn.Pos(), "no count*recordsize comparison with the remaining octets: short packets are not rejected up front")
	} else {
		k, _ := ssaConstInt(mul.Y)
		r3.Check(int(k) == recSize && recSize == 48, name+":record-size", mul.Pos(), "expected length = count * 48 = count * (octets the record filler reads)", fmt.Sprintf("length check multiplies by %d but a record occupies %d octets", k, recSize))
		other := cmp.X
		if other == ssa.Value(mul) {
			other = cmp.Y
		}
		isLen := false
		if c, ok := other.(*ssa.Call); ok && strings.HasSuffix(calleeName(c), ".Reader).Len") {
			isLen = true
		}
		okOp := (cmp.X == ssa.Value(mul) && cmp.Op == token.GTR) || (cmp.Y == ssa.Value(mul) && cmp.Op == token.LSS)
		r3.Check(isLen && okOp, name+":length-compare", cmp.Pos(), "rejects when count*48 > remaining octets", "the length check does not compare the expected size with the reader's remaining length as 'expected > remaining => reject'")
	}
	// ---- R08.4: every write of Flows ----
	nW := 0
	for _, fn := range prog.RepoFuncs() {
		if core.PkgRel(fn) != "netflow/v5" {
			continue
		}
		allInstrs(fn, func(ins ssa.Instruction) {
			st, ok := ins.(*ssa.Store)
			if !ok {
				return
			}
			_, f, isF := core.FieldOf(st.Addr)
			isFlows := isF && f.Name() == "Flows"
			// element stores msg.Flows[i] = ...
			if ia, ok := st.Addr.(*ssa.IndexAddr); ok && fieldLoadName(ia.X) == "Flows" {
				isFlows = true
			}
			if !isFlows {
				return
			}
			nW++
			key := core.FuncName(fn) + ":Flows-store"
			if fn != flowsFn {
				r4.Fail(key, st.Pos(), "Flows is written outside the checked record loop (before the length check): a packet with too few octets yields (zero-valued) flows")
				return
			}
			// in the loop, value is append(Flows, fr) with fr loaded from a local filled by the record filler, on its err==nil edge
			ap, isAp := st.Val.(*ssa.Call)
			okAp := false
			if isAp {
				if b, ok := ap.Common().Value.(*ssa.Builtin); ok && b.Name() == "append" {
					okAp = fieldLoadName(ap.Common().Args[0]) == "Flows"
				}
			}
			var fill *ssa.Call
			allInstrs(fn, func(i2 ssa.Instruction) {
				if c, ok := i2.(*ssa.Call); ok && c.Common().StaticCallee() == recFn {
					fill = c
				}
			})
			okFill := fill != nil && dominatedByNilEdgeOrPhi(st, fill)
			localRec := false
			if fill != nil {
				_, localRec = fill.Common().Args[0].(*ssa.Alloc)
				if okAp {
					localRec = localRec && core.BackwardSlice(ap.Common().Args[1], core.SliceOpts{})[fill.Common().Args[0]]
				}
			}
			lenOK := cmp != nil && core.InstrDominates(cmp, st)
			r4.Check(okAp && okFill && localRec && lenOK, key, st.Pos(), "append of the record just parsed, on its success edge, after the length check",
				fmt.Sprintf("Flows is not extended exactly by the record just parsed on its success edge after the length check (append=%v parse-ok-edge=%v local-record=%v after-length-check=%v)", okAp, okFill, localRec, lenOK))
		})
	}
	// the record filler never fills an element of Flows in place
	if recFn != nil {
		for _, cs := range prog.CG().In[recFn] {
			if cs.Caller.Synthetic != "" {
				continue
			}
			_, local := cs.Instr.Common().Args[0].(*ssa.Alloc)
			r4.Check(local, core.FuncName(cs.Caller)+":record-parsed-into-local", cs.Instr.Pos(), "record parsed into a variable local to the iteration", "records are parsed in place into the output slice: a failed or skipped parse leaves a fabricated (zero or partial) flow in the message")
		}
	}
	if nW == 0 {
		r4.Fail("netflow/v5:Flows-store", token.NoPos, "no flow is ever emitted")
	}
	// loop emits one record per successful parse
	if recFn != nil {
		var fill *ssa.Call
		allInstrs(flowsFn, func(i2 ssa.Instruction) {
			if c, ok := i2.(*ssa.Call); ok && c.Common().StaticCallee() == recFn {
				fill = c
			}
		})
		if fill != nil {
			if loop := core.LoopOf(flowsFn, fill); loop != nil {
				isApp := func(i ssa.Instruction) int {
					if c, ok := i.(*ssa.Call); ok {
						if b, ok := c.Common().Value.(*ssa.Builtin); ok && b.Name() == "append" {
							return 1
						}
					}
					return 0
				}
				okRes := core.CountQuery{Fn: flowsFn, Start: fill, Stop: core.IterationStop(loop), Event: isApp, EdgeOK: nilEdgeFilter(fill, true)}.Run()
				erRes := core.CountQuery{Fn: flowsFn, Start: fill, Stop: core.IterationStop(loop), Event: isApp, EdgeOK: nilEdgeFilter(fill, false)}.Run()
				r4.Check(exactly(okRes, "latch", 1, 1) && maxAll(erRes) == 0, name+":one-flow-per-record", fill.Pos(), "one append per successful parse, none after a failed one", fmt.Sprintf("appends per successful parse %s, after a failed parse max %d", fmtRange(okRes, "latch"), maxAll(erRes)))
			} else {
				r4.Fail(name+":record-loop", fill.Pos(), "record parse is not in a loop")
			}
		}
	}
}

func keysOfStr(m map[string]bool) []string {
	var out []string
	for k := range m {
		out = append(out, k)
	}
	return out
}

// dominatedByNilEdgeOrPhi: ins lies under the "error is nil" edge of an If testing the call's result,
// directly or through the loop's error variable (phi) that the call's result is assigned to.
func dominatedByNilEdgeOrPhi(ins ssa.Instruction, call *ssa.Call) bool {
	if dominatedByNilEdge(ins, call, true) {
		return true
	}
	for _, ref := range referrers(call) {
		if phi, ok := ref.(*ssa.Phi); ok && dominatedByNilEdge(ins, phi, true) {
			return true
		}
	}
	return false
}
