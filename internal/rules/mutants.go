package rules

import (
	"encoding/json"
	"fmt"
	"os"
	"os/exec"
	"path/filepath"
	"regexp"
	"strings"
	"sync"

	"verif/internal/core"
)

// Mutant is one single-site edit of /repo used to test the checker itself. It is applied as an
// in-memory overlay (packages.Config.Overlay): no copy of the tree is made, /repo is not touched.
type Mutant struct {
	Name            string `json:"name"`
	File            string `json:"file"` // relative to the repo root
	Old             string `json:"old"`
	New             string `json:"new"`
	ExpectRule      string `json:"expect_rule,omitempty"`      // prefix of the rule id that must fire
	ExpectConstruct string `json:"expect_construct,omitempty"` // substring of the construct that must be named
	Canary          bool   `json:"canary,omitempty"`           // run in the quick tier too
	Expect          string `json:"expect,omitempty"`           // "hit" (default) | "silent" (behaviour-preserving edit)
	More            []Edit `json:"more,omitempty"`             // further edits of the same mutant (possibly other files)
}

// Edit is one additional replacement of a multi-site mutant.
type Edit struct {
	File string `json:"file"`
	Old  string `json:"old"`
	New  string `json:"new"`
}

// OverlayFor builds the overlay map for a mutant given as JSON.
func OverlayFor(repo, mutantJSON string) (map[string][]byte, error) {
	var m Mutant
	if err := json.Unmarshal([]byte(mutantJSON), &m); err != nil {
		return nil, err
	}
	out := map[string][]byte{}
	edits := append([]Edit{{m.File, m.Old, m.New}}, m.More...)
	for _, e := range edits {
		if e.File == "" {
			e.File = m.File
		}
		path := filepath.Join(repo, e.File)
		b, ok := out[path]
		if !ok {
			var err error
			if b, err = os.ReadFile(path); err != nil {
				return nil, err
			}
		}
		s := string(b)
		if n := strings.Count(s, e.Old); n != 1 {
			return nil, fmt.Errorf("old text occurs %d times in %s (need exactly 1)", n, e.File)
		}
		out[path] = []byte(strings.Replace(s, e.Old, e.New, 1))
	}
	return out, nil
}

// SelfTestRun is a set of mutant sub-processes in flight.
type SelfTestRun struct {
	muts    []Mutant
	results []mutResult
	wg      sync.WaitGroup
	skipped bool
}

type mutResult struct {
	status string // "applied", "not-applicable", "no-compile", "error"
	hits   [][2]string
	raw    string
}

var hitRe = regexp.MustCompile(`^MUTANT-HIT rule=(\S+) construct=(\S+) `)

// StartSelfTest launches the canary (quick) or the whole corpus (thorough) of a property.
func StartSelfTest(prop, tier, repo, verif string) *SelfTestRun {
	st := &SelfTestRun{}
	if os.Getenv("VERIF_NO_SELFTEST") != "" {
		st.skipped = true
		return st
	}
	b, err := os.ReadFile(filepath.Join(verif, "mutants", prop+".json"))
	if err != nil {
		return st
	}
	var all []Mutant
	if err := json.Unmarshal(b, &all); err != nil {
		panic(fmt.Sprintf("mutants/%s.json: %v", prop, err))
	}
	for _, m := range all {
		if tier == "thorough" || m.Canary {
			st.muts = append(st.muts, m)
		}
	}
	st.results = make([]mutResult, len(st.muts))
	exe, _ := os.Executable()
	sem := make(chan struct{}, 6)
	for i := range st.muts {
		st.wg.Add(1)
		go func(i int) {
			defer st.wg.Done()
			sem <- struct{}{}
			defer func() { <-sem }()
			mj, _ := json.Marshal(st.muts[i])
			cmd := exec.Command(exe, "-prop", prop, "-tier", tier, "-repo", repo, "-verif", verif, "-mutant", string(mj))
			cmd.Env = append(os.Environ(), "VERIF_NO_SELFTEST=1")
			out, err := cmd.CombinedOutput()
			r := mutResult{raw: string(out)}
			code := 0
			if ee, ok := err.(*exec.ExitError); ok {
				code = ee.ExitCode()
			} else if err != nil {
				code = -1
			}
			switch code {
			case 0:
				r.status = "applied"
				for _, l := range strings.Split(string(out), "\n") {
					if m := hitRe.FindStringSubmatch(l); m != nil {
						r.hits = append(r.hits, [2]string{m[1], m[2]})
					}
				}
			case 3:
				r.status = "not-applicable"
			case 4:
				r.status = "no-compile"
			default:
				r.status = "error"
			}
			st.results[i] = r
		}(i)
	}
	return st
}

// Finish waits for the sub-processes and records the kill matrix. It returns false if a mutant
// that applies was expected to be flagged and was not (the checker lost its power: no verdict).
func (st *SelfTestRun) Finish(rep *core.Report) bool {
	if st.skipped || len(st.muts) == 0 {
		return true
	}
	st.wg.Wait()
	base := map[[2]string]bool{}
	for _, in := range rep.Violations() {
		base[[2]string{in.Rule, in.Construct}] = true
	}
	ok := true
	var matrix []map[string]interface{}
	for i, m := range st.muts {
		r := st.results[i]
		var newHits []string
		matched := false
		for _, h := range r.hits {
			if base[h] {
				continue
			}
			newHits = append(newHits, h[0]+" "+h[1])
			if strings.HasPrefix(h[0], m.ExpectRule) && strings.Contains(h[1], strings.ReplaceAll(m.ExpectConstruct, " ", "")) {
				matched = true
			}
		}
		verdict := ""
		switch {
		case r.status == "not-applicable":
			verdict = "skipped: edit no longer applies to the current tree"
		case r.status == "no-compile":
			verdict = "skipped: edited tree does not type-check"
		case r.status != "applied":
			verdict = "error running mutant: " + firstLines(r.raw, 3)
			ok = false
		case m.Expect == "silent":
			if len(newHits) == 0 {
				verdict = "silent as expected (behaviour-preserving edit)"
			} else {
				verdict = "FALSE ALARM on behaviour-preserving edit"
				ok = false
			}
		case matched:
			verdict = "killed"
		case len(newHits) > 0:
			verdict = "killed by another rule/construct than expected"
			if m.Canary {
				// still flagged: acceptable, but note it
			}
		default:
			verdict = "SURVIVED"
			if m.Canary {
				ok = false
			}
		}
		matrix = append(matrix, map[string]interface{}{"mutant": m.Name, "file": m.File, "expect_rule": m.ExpectRule, "verdict": verdict, "new_hits": newHits, "canary": m.Canary})
		if !rep.Quiet {
			fmt.Printf("selftest %-40s %s\n", m.Name, verdict)
		}
	}
	rep.Extra["selftest"] = matrix
	return ok
}

func firstLines(s string, n int) string {
	l := strings.Split(strings.TrimSpace(s), "\n")
	if len(l) > n {
		l = l[:n]
	}
	return strings.Join(l, " | ")
}
