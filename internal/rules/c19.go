package rules

import (
	"fmt"
	"go/token"
	"os"
	"sort"
	"strings"

	"golang.org/x/tools/go/ssa"

	"verif/internal/core"
	"verif/internal/obl"
)

func init() { register("C19", checkC19) }

func checkC19(rep *core.Report) {
	rep.Explanation = "Complete for package reader modulo encoding/binary and Go slice semantics. (1) Every index, slice and library-precondition obligation of every exported method is discharged by abstract interpretation for all buffers and all arguments, negative lengths included. (2) Every path that returns an error executes no store and no call that stores. (3) On the success path of each reading method there is exactly one advance, after the value was taken, by the same width the length guard tests and the accessor reads (1/2/4/8 octets, or the requested n), and the value is taken from offset 0 in big-endian order. (4) The peeking and reporting methods reach no store. (5) advance is the only function that writes the position; it moves data and count by the same amount, unconditionally. (6) Len and ReadCount report exactly those two fields. The statement over all operation sequences follows by induction: each method preserves consumed + remaining = initial length."
	rep.Trust("encoding/binary.BigEndian.UintN reads exactly N/8 octets from offset 0 in big-endian order")
	prog := rep.Prog
	r1 := rep.Rule("R19.1", "no reader method can index or slice outside its buffer, for any buffer and argument", 8)
	r2 := rep.Rule("R19.2", "a failed read stores nothing", 7)
	r3 := rep.Rule("R19.3", "a successful read advances once, after reading, by exactly the guarded and returned width", 5)
	r4 := rep.Rule("R19.4", "peeks and reports never store", 4)
	r5 := rep.Rule("R19.5", "advance is the single writer and moves data and count by the same amount", 3)
	r6 := rep.Rule("R19.6", "Len and ReadCount report the remaining length and the consumed count", 2)

	var methods []*ssa.Function
	for _, fn := range prog.RepoFuncs() {
		if core.PkgRel(fn) == "reader" && fn.Synthetic == "" && fn.Parent() == nil {
			methods = append(methods, fn)
		}
	}
	sort.Slice(methods, func(i, j int) bool { return methods[i].Name() < methods[j].Name() })
	if len(methods) < 8 {
		r1.Undecided("package:reader", token.NoPos, fmt.Sprintf("%d functions found in package reader", len(methods)))
		return
	}
	// ---- R19.1 ----
	cfg := oblConfig(prog)
	cfg.StrictLen = func(fn *ssa.Function) bool { return core.PkgRel(fn) == "reader" }
	an := obl.New(cfg)
	for _, fn := range methods {
		if fn.Object() != nil && fn.Object().Exported() {
			an.AnalyzeRoot(fn, obl.RootOpts{NonNilParams: true})
		}
	}
	rep.Assume("A-nil: the receiver of an exported method is non-nil; A-int: int is 64 bits wide")
	total, _ := reportObligations(rep, r1, an, func(o *obl.Obligation) bool {
		return o.Kind == "K1" || o.Kind == "K7" || o.Kind == "K4" || o.Kind == "K5"
	}, nil)
	rep.Extra["obl_obligations"] = total
	rep.Extra["obl_functions_reached"] = len(an.Reached)
	if os.Getenv("VERIF_DEBUG") != "" {
		for _, o := range an.Obligations() {
			fmt.Printf("OBL %s %s failed=%d/%d %s\n", o.Kind, o.Key(core.FuncName), o.Failed, o.Contexts, o.Why)
		}
	}
	// ---- R19.2 ----
	checkReaderFailureStoreFree(rep, r2)
	// ---- R19.4/5 ----
	writers := readerWriters(prog)
	var advance *ssa.Function
	direct := 0
	for _, fn := range methods {
		stores := 0
		allInstrs(fn, func(ins ssa.Instruction) {
			if st, ok := ins.(*ssa.Store); ok {
				if _, local := core.AddrRoot(st.Addr).(*ssa.Alloc); !local {
					stores++
				}
			}
		})
		if stores > 0 {
			direct++
			advance = fn
		}
	}
	if direct != 1 || advance == nil {
		r5.Fail("reader:single-writer", token.NoPos, fmt.Sprintf("%d functions store to the reader's position fields, want exactly one", direct))
		return
	}
	aname := core.FuncName(advance)
	// shape of advance: data = data[num:], count = count + num, same num, single block
	var dataOK, countOK bool
	num := advance.Params[len(advance.Params)-1]
	allInstrs(advance, func(ins ssa.Instruction) {
		st, ok := ins.(*ssa.Store)
		if !ok {
			return
		}
		_, f, _ := core.FieldOf(st.Addr)
		if f == nil {
			return
		}
		switch v := st.Val.(type) {
		case *ssa.Slice:
			if v.High == nil && v.Low == ssa.Value(num) && fieldLoadName(v.X) == f.Name() {
				dataOK = true
			}
		case *ssa.BinOp:
			if v.Op == token.ADD && ((fieldLoadName(v.X) == f.Name() && v.Y == ssa.Value(num)) || (fieldLoadName(v.Y) == f.Name() && v.X == ssa.Value(num))) {
				countOK = true
			}
		}
	})
	r5.Check(dataOK, aname+":data", advance.Pos(), "data = data[num:]", "the remaining data is not advanced by exactly num")
	r5.Check(countOK, aname+":count", advance.Pos(), "count = count + num", "the consumed count is not increased by exactly num: consumed + remaining no longer equals the buffer length")
	r5.Check(len(advance.Blocks) == 1, aname+":unconditional", advance.Pos(), "both updates in one block", "the two updates of the position are conditional")
	for _, fn := range methods {
		n := fn.Name()
		if fn == advance || fn.Object() == nil || !fn.Object().Exported() {
			continue
		}
		isReport := fn.Signature.Results().Len() == 1 && fn.Signature.Params().Len() == 0
		isPeek := strings.HasPrefix(n, "Peek")
		if isReport || isPeek {
			r4.Check(!writers[fn], core.FuncName(fn)+":store-free", fn.Pos(), "reaches no store", "a peek/report method can move the reader's position")
		}
	}
	// ---- R19.6 ----
	for _, fn := range methods {
		if fn.Signature.Results().Len() != 1 || fn.Signature.Params().Len() != 0 || fn.Object() == nil || !fn.Object().Exported() || fn.Signature.Recv() == nil {
			continue
		}
		allInstrs(fn, func(ins ssa.Instruction) {
			r, ok := ins.(*ssa.Return)
			if !ok {
				return
			}
			desc := exprOfRet(r.Results[0])
			switch {
			case strings.Contains(fn.Name(), "Len"):
				r6.Check(desc == "len(data)", core.FuncName(fn)+":returns", r.Pos(), "returns len(data)", "Len returns "+desc)
			case strings.Contains(fn.Name(), "Count"):
				r6.Check(desc == "count", core.FuncName(fn)+":returns", r.Pos(), "returns count", "ReadCount returns "+desc)
			}
		})
	}
	// ---- R19.3 ----
	for _, fn := range methods {
		if fn == advance || fn.Object() == nil || !fn.Object().Exported() || fn.Signature.Results().Len() != 2 || !writers[fn] {
			continue
		}
		checkReadMethod(r3, fn, advance)
	}
}

func exprOfRet(v ssa.Value) string {
	switch x := v.(type) {
	case *ssa.Call:
		if b, ok := x.Common().Value.(*ssa.Builtin); ok && b.Name() == "len" {
			return "len(" + fieldLoadName(x.Common().Args[0]) + ")"
		}
	case *ssa.UnOp:
		return fieldLoadName(x)
	}
	return v.String()
}

// checkReadMethod: guard constant == accessor width == advance amount; accessor before advance; offset 0.
func checkReadMethod(r3 *core.RuleRun, fn, advance *ssa.Function) {
	name := core.FuncName(fn)
	var advCalls []*ssa.Call
	var guard ssa.Value // the value len(data) is compared with
	var accWidth ssa.Value
	accConst := int64(-1)
	var accessor ssa.Instruction
	var delegate *ssa.Call
	allInstrs(fn, func(ins ssa.Instruction) {
		switch x := ins.(type) {
		case *ssa.Call:
			if x.Common().StaticCallee() == advance {
				advCalls = append(advCalls, x)
			}
			// delegation to a non-consuming sibling (`b, err := r.Peek(n)`): that method tests and slices by its own
			// argument (checked on its body), so here the guard and the octets returned are those of the argument,
			// provided the position moves only when the sibling reported no error
			if f := x.Common().StaticCallee(); f != nil && f != fn && peekLike(f) && len(x.Common().Args) == 2 {
				guard, accWidth, accessor = x.Common().Args[1], x.Common().Args[1], x
				delegate = x
			}
			if n := calleeName(x); strings.HasPrefix(n, "(encoding/binary.bigEndian).Uint") && fieldLoadName(x.Common().Args[1]) == "data" {
				accConst = map[string]int64{"Uint16": 2, "Uint32": 4, "Uint64": 8}[x.Common().StaticCallee().Name()]
				accessor = x
			}
		case *ssa.BinOp:
			// "fails iff len(data) < v": len < v, len >= v, v > len, v <= len all split the same way
			isLenData := func(v ssa.Value) bool {
				c, ok := v.(*ssa.Call)
				if !ok {
					return false
				}
				if b, ok := c.Common().Value.(*ssa.Builtin); ok {
					return b.Name() == "len" && fieldLoadName(c.Common().Args[0]) == "data"
				}
				// the reader's own accessor for the remaining length (`r.Len()`), judged by its body
				if f := c.Common().StaticCallee(); f != nil && core.PkgRel(f) == "reader" && len(f.Blocks) == 1 && len(c.Common().Args) == 1 {
					if r, ok := f.Blocks[0].Instrs[len(f.Blocks[0].Instrs)-1].(*ssa.Return); ok && len(r.Results) == 1 {
						return exprOfRet(r.Results[0]) == "len(data)"
					}
				}
				return false
			}
			switch {
			case (x.Op == token.LSS || x.Op == token.GEQ) && isLenData(x.X):
				guard = x.Y
			case (x.Op == token.GTR || x.Op == token.LEQ) && isLenData(x.Y):
				guard = x.X
			}
		case *ssa.IndexAddr:
			if fieldLoadName(x.X) == "data" {
				if i, ok := ssaConstInt(x.Index); ok && i == 0 {
					accConst = 1
					accessor = x
				} else {
					accConst = -2 // not offset 0
					accessor = x
				}
			}
		case *ssa.Slice:
			if fieldLoadName(x.X) == "data" && x.Low == nil && x.High != nil {
				accWidth = x.High
				accessor = x
			}
		}
	})
	if len(advCalls) != 1 {
		r3.Fail(name+":one-advance", fn.Pos(), fmt.Sprintf("%d advance calls in a reading method, want exactly one", len(advCalls)))
		return
	}
	adv := advCalls[0]
	amount := adv.Common().Args[len(adv.Common().Args)-1]
	same := func(a, b ssa.Value) bool {
		if a == nil || b == nil {
			return false
		}
		ca, ok1 := ssaConstInt(a)
		cb, ok2 := ssaConstInt(b)
		if ok1 && ok2 {
			return ca == cb
		}
		return a == b
	}
	okGuard := same(guard, amount)
	okAcc := false
	switch {
	case accWidth != nil:
		okAcc = same(accWidth, amount)
	case accConst > 0:
		c, ok := ssaConstInt(amount)
		okAcc = ok && c == accConst
	}
	if delegate != nil && okGuard {
		// advance only on the sibling's success: dominated by the nil branch of a test of its error result
		okGuard = false
		for _, ref := range referrers(delegate) {
			ex, ok := ref.(*ssa.Extract)
			if !ok || ex.Index != 1 {
				continue
			}
			for _, r2 := range referrers(ex) {
				b, ok := r2.(*ssa.BinOp)
				if !ok || (b.Op != token.NEQ && b.Op != token.EQL) {
					continue
				}
				for _, r3i := range referrers(b) {
					if ifi, ok := r3i.(*ssa.If); ok {
						nilSucc := ifi.Block().Succs[1]
						if b.Op == token.EQL {
							nilSucc = ifi.Block().Succs[0]
						}
						if len(nilSucc.Preds) == 1 && nilSucc.Dominates(adv.Block()) {
							okGuard = true
						}
					}
				}
			}
		}
	}
	r3.Check(okGuard, name+":guard=advance", adv.Pos(), "length guard tests the width that is consumed", fmt.Sprintf("the length guard tests %s but the method advances by %s: it reads past the buffer or rejects reads that fit", exprVal(guard), exprVal(amount)))
	r3.Check(okAcc, name+":accessor=advance", adv.Pos(), "the octets returned are the octets consumed", fmt.Sprintf("the method returns %d/%s octets but advances by %s: following reads are misaligned", accConst, exprVal(accWidth), exprVal(amount)))
	r3.Check(accessor != nil && core.InstrDominates(accessor, adv), name+":read-before-advance", adv.Pos(), "value taken before the position moves", "the position moves before the value is taken: the method returns the octets after the ones it consumed")
	// exactly one advance on the success path, none elsewhere: advance dominated by the guard's false edge
	res := core.CountQuery{Fn: fn, StartBlock: fn.Blocks[0], Event: func(i ssa.Instruction) int {
		if i == ssa.Instruction(adv) {
			return 1
		}
		return 0
	}}.Run()
	r3.Check(res.Max["return"] == 1, name+":advance-at-most-once", adv.Pos(), "at most one advance per call", "advance can run more than once per call")
}

func exprVal(v ssa.Value) string {
	if v == nil {
		return "<none>"
	}
	if c, ok := ssaConstInt(v); ok {
		return fmt.Sprint(c)
	}
	return v.Name()
}

// peekLike: a reader method that consumes nothing and returns ([]byte, error) for an octet count n: it compares
// len(data) with n and returns data[:n].
func peekLike(f *ssa.Function) bool {
	if core.PkgRel(f) != "reader" || f.Signature.Recv() == nil || len(f.Params) != 2 || f.Signature.Results().Len() != 2 {
		return false
	}
	n := ssa.Value(f.Params[1])
	var guard, slice, stores bool
	allInstrs(f, func(ins ssa.Instruction) {
		switch x := ins.(type) {
		case *ssa.BinOp:
			isLen := func(v ssa.Value) bool {
				c, ok := v.(*ssa.Call)
				if !ok {
					return false
				}
				b, ok := c.Common().Value.(*ssa.Builtin)
				return ok && b.Name() == "len" && fieldLoadName(c.Common().Args[0]) == "data"
			}
			if ((x.Op == token.LSS || x.Op == token.GEQ) && isLen(x.X) && x.Y == n) || ((x.Op == token.GTR || x.Op == token.LEQ) && isLen(x.Y) && x.X == n) {
				guard = true
			}
		case *ssa.Slice:
			if fieldLoadName(x.X) == "data" && x.Low == nil && x.High == n {
				slice = true
			}
		case *ssa.Store:
			if _, local := core.AddrRoot(x.Addr).(*ssa.Alloc); !local {
				stores = true
			}
		case *ssa.Call:
			if c := x.Common().StaticCallee(); c != nil && core.PkgRel(c) == "reader" {
				stores = true // calls a sibling: not the simple shape
			}
		}
	})
	return guard && slice && !stores
}
