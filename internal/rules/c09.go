package rules

import (
	"fmt"
	"go/token"
	"go/types"
	"sort"
	"strings"

	"golang.org/x/tools/go/ssa"

	"verif/internal/core"
	"verif/internal/obl"
)

func init() { register("C09", checkC09) }

var errorIface = types.Universe.Lookup("error").Type().Underlying().(*types.Interface)

// setDecoder bundles the anchors of one template-driven decoder package.
type setDecoder struct {
	rel       string
	decode    *ssa.Function // exported Decode
	decodeSet *ssa.Function
	setCall   *ssa.Call // the call to decodeSet inside Decode's loop
	decodeDat *ssa.Function
	skip      *ssa.Call // reader.Read(leftover) in decodeSet
	skipGuard *ssa.BasicBlock
	nonfatal  types.Type // the asserted non-fatal type in Decode
}

func findSetDecoder(prog *core.Program, rel string) *setDecoder {
	sd := &setDecoder{rel: rel}
	sd.decode = prog.Method(rel, "Decoder", "Decode")
	if sd.decode == nil {
		return sd
	}
	for _, l := range core.NaturalLoops(sd.decode) {
		for b := range l.Blocks {
			for _, ins := range b.Instrs {
				if c, ok := ins.(*ssa.Call); ok {
					if f := c.Common().StaticCallee(); f != nil && prog.IsRepoFunc(f) && core.PkgRel(f) == rel && f.Signature.Recv() != nil && recvTypeName(f) == "Decoder" {
						sd.decodeSet, sd.setCall = f, c
					}
				}
			}
		}
	}
	if sd.decodeSet == nil {
		return sd
	}
	allInstrs(sd.decodeSet, func(ins ssa.Instruction) {
		c, ok := ins.(*ssa.Call)
		if !ok {
			return
		}
		f := c.Common().StaticCallee()
		if f == nil {
			return
		}
		if f.String() == "(*"+core.ModPath+"/reader.Reader).Read" {
			sl := core.BackwardSlice(c.Common().Args[1], core.SliceOpts{})
			hasLen, hasCount := false, false
			for v := range sl {
				if _, fld := fieldLoad(v); fld != nil && fld.Name() == "Length" {
					hasLen = true
				}
				if cc, ok := v.(*ssa.Call); ok && cc.Common().StaticCallee() != nil && cc.Common().StaticCallee().Name() == "ReadCount" {
					hasCount = true
				}
			}
			if hasLen && hasCount {
				sd.skip = c
			}
		}
		if f.Name() == "decodeData" && core.PkgRel(f) == rel {
			sd.decodeDat = f
		}
	})
	if sd.skip != nil {
		sd.skipGuard = sd.skip.Block()
		if id := sd.skip.Block().Idom(); id != nil {
			if _, isIf := id.Instrs[len(id.Instrs)-1].(*ssa.If); isIf && len(sd.skip.Block().Preds) == 1 {
				sd.skipGuard = id
			}
		}
	}
	return sd
}

// error value classes
const (
	clsNil = 1 << iota
	clsFatal
	clsNonfatal
)

func clsString(c int) string {
	var s []string
	if c&clsNil != 0 {
		s = append(s, "nil")
	}
	if c&clsFatal != 0 {
		s = append(s, "fatal")
	}
	if c&clsNonfatal != 0 {
		s = append(s, "non-fatal")
	}
	return "{" + strings.Join(s, ",") + "}"
}

// errClasses computes which classes an error-typed value may belong to. nonfatal is the type
// whose dynamic occurrence marks a non-fatal error.
func errClasses(prog *core.Program, v ssa.Value, nonfatal types.Type, depth int, seen map[ssa.Value]bool) int {
	if seen[v] {
		return 0
	}
	seen[v] = true
	all := clsNil | clsFatal | clsNonfatal
	if depth > 6 {
		return all
	}
	switch x := v.(type) {
	case *ssa.Const:
		if x.Value == nil {
			return clsNil
		}
		return all
	case *ssa.MakeInterface:
		if nonfatal != nil && types.Identical(x.X.Type(), nonfatal) {
			return clsNonfatal
		}
		return clsFatal
	case *ssa.ChangeInterface:
		return errClasses(prog, x.X, nonfatal, depth, seen)
	case *ssa.Phi:
		c := 0
		for _, e := range x.Edges {
			c |= errClasses(prog, e, nonfatal, depth, seen)
		}
		return c
	case *ssa.UnOp:
		if x.Op == token.MUL {
			if g, ok := x.X.(*ssa.Global); ok {
				// package-level error variable: classes of everything ever stored into it
				c := 0
				n := 0
				for _, fn := range prog.RepoFuncs() {
					allInstrs(fn, func(ins ssa.Instruction) {
						if st, ok := ins.(*ssa.Store); ok && st.Addr == ssa.Value(g) {
							n++
							c |= errClasses(prog, st.Val, nonfatal, depth+1, seen)
						}
					})
				}
				if n == 0 {
					return clsFatal // foreign sentinel such as io.ErrUnexpectedEOF: a plain error
				}
				return c
			}
			if a, ok := x.X.(*ssa.Alloc); ok {
				c := 0
				for _, sv := range core.StoresTo(a) {
					c |= errClasses(prog, sv, nonfatal, depth, seen)
				}
				if c == 0 {
					return clsNil
				}
				return c
			}
		}
		return all
	case *ssa.Extract:
		if call, ok := x.Tuple.(*ssa.Call); ok {
			return callClasses(prog, call, x.Index, nonfatal, depth, seen)
		}
		return all
	case *ssa.Call:
		return callClasses(prog, x, 0, nonfatal, depth, seen)
	}
	return all
}

func callClasses(prog *core.Program, call *ssa.Call, idx int, nonfatal types.Type, depth int, seen map[ssa.Value]bool) int {
	f := call.Common().StaticCallee()
	if f == nil {
		return clsNil | clsFatal | clsNonfatal
	}
	if n := f.String(); n == "fmt.Errorf" || n == "errors.New" {
		return clsFatal // error constructors never return nil
	}
	if !prog.IsRepoFunc(f) {
		// foreign constructors (fmt.Errorf, errors.New, ...) and foreign failures produce plain errors
		return clsNil | clsFatal
	}
	c := 0
	allInstrs(f, func(ins ssa.Instruction) {
		if r, ok := ins.(*ssa.Return); ok && idx < len(r.Results) {
			c |= errClasses(prog, r.Results[idx], nonfatal, depth+1, map[ssa.Value]bool{})
		}
	})
	return c
}

// edgeFactsAt removes the classes excluded by conditional edges that dominate block b:
// `v != nil` edges remove nil, failed `v.(nonfatal)` assertions remove non-fatal,
// successful ones leave only non-fatal.
func refineByDominatingEdges(v ssa.Value, b *ssa.BasicBlock, nonfatal types.Type, cls int) int {
	for cur := b; cur != nil; cur = cur.Idom() {
		id := cur.Idom()
		if id == nil || len(cur.Preds) != 1 || cur.Preds[0] != id {
			continue
		}
		si := -1
		for i, s := range id.Succs {
			if s == cur {
				si = i
			}
		}
		cond, truth, ok := core.IfEdge(id, si)
		if !ok {
			continue
		}
		if x, eqNil, ok := core.NilCompare(cond); ok && x == v {
			if eqNil == truth {
				cls &= clsNil
			} else {
				cls &^= clsNil
			}
		}
		if ex, ok := cond.(*ssa.Extract); ok && ex.Index == 1 {
			if ta, ok := ex.Tuple.(*ssa.TypeAssert); ok && ta.CommaOk && ta.X == v && nonfatal != nil && types.Identical(ta.AssertedType, nonfatal) {
				if truth {
					cls &= clsNonfatal
				} else {
					cls &^= clsNonfatal
				}
			}
		}
	}
	return cls
}

func checkC09(rep *core.Report) {
	rep.Explanation = "Decides the mechanisms the property names, for IPFIX and NetFlow v9: (a) in every switch/assertion that classifies decode errors the non-fatal case type is not satisfied by every error (types.Implements), so fatal errors exist as a class; (b) in the set decoder every return that can carry nil or a non-fatal error is dominated by the skip-by-declared-length, returns that bypass it carry only fatal-class values (value classes computed over the call graph and refined by dominating nil/type-assertion edges); (c) reserved set ids reach the skip without any parse call and the bounds are the RFC's 4..255; (d) the fatal branch of Decode returns a nil message so a truncated datagram yields nothing rather than a partial set; (e) a failed read of the byte reader stores nothing. Value-level equality of records with/without an inserted set is not decided."
	rep.Assume("a set cannot declare or consume more than 65535 octets within one UDP datagram (no 16-bit wrap of the leftover computation)")
	prog := rep.Prog
	r1 := rep.Rule("R09.1", "error classification distinguishes fatal from non-fatal at the type level", 3)
	r2 := rep.Rule("R09.2", "returns of the set decoder that may be nil/non-fatal pass the skip by declared length", 8)
	r3 := rep.Rule("R09.3", "reserved set ids 4..255 reach the skip without parsing", 2)
	r4 := rep.Rule("R09.4", "fatal error => nil message; non-fatal errors are only collected", 4)
	r5 := rep.Rule("R09.5", "a failed read of the byte reader stores nothing", 7)

	for _, rel := range []string{"ipfix", "netflow/v9"} {
		sd := findSetDecoder(prog, rel)
		if sd.decode == nil || sd.decodeSet == nil || sd.skip == nil {
			r2.Undecided(rel+":anchors", token.NoPos, fmt.Sprintf("decode=%v decodeSet=%v skip=%v: set decoder anchors not resolved", sd.decode != nil, sd.decodeSet != nil, sd.skip != nil))
			continue
		}
		// ---- R09.1: every comma-ok assertion / type switch on an error value in this package ----
		nAssert := 0
		for _, fn := range prog.RepoFuncs() {
			if core.PkgRel(fn) != rel {
				continue
			}
			allInstrs(fn, func(ins ssa.Instruction) {
				ta, ok := ins.(*ssa.TypeAssert)
				if !ok || !types.Identical(ta.X.Type(), types.Universe.Lookup("error").Type()) {
					return
				}
				nAssert++
				key := core.FuncName(fn) + ":assert:" + short(types.TypeString(ta.AssertedType, nil))
				if iface, isIface := ta.AssertedType.Underlying().(*types.Interface); isIface && types.Implements(types.Universe.Lookup("error").Type(), iface) {
					r1.Fail(key, ta.Pos(), "the asserted type is an interface every error satisfies: this case matches all errors, so a fatal error (e.g. a short read inside a record) is treated as non-fatal and decoding resumes mid-record")
				} else {
					r1.OK(key, ta.Pos(), "asserted type is not satisfied by arbitrary errors")
				}
				if fn == sd.decode && ta.X == ssa.Value(sd.setCall) {
					sd.nonfatal = ta.AssertedType
				}
			})
		}
		if sd.nonfatal == nil {
			r1.Fail(core.FuncName(sd.decode)+":classifies", sd.setCall.Pos(), "Decode does not classify the set decoder's error with a type assertion: fatal and non-fatal errors are not told apart")
			continue
		}
		// ---- R09.4 ----
		loop := core.LoopOf(sd.decode, sd.setCall)
		allInstrs(sd.decode, func(ins ssa.Instruction) {
			r, ok := ins.(*ssa.Return)
			if !ok || len(r.Results) != 2 {
				return
			}
			key := fmt.Sprintf("%s:return@%s", core.FuncName(sd.decode), retKind(r, loop))
			inLoop := loop != nil && loop.Contains(r)
			// returns inside the loop, or dominated by the failed non-fatal assertion, are the fatal path
			cls := refineByDominatingEdges(sd.setCall, r.Block(), sd.nonfatal, clsNil|clsFatal|clsNonfatal)
			if inLoop || (core.InstrDominates(sd.setCall, r) && cls&clsNonfatal == 0 && cls&clsNil == 0) {
				c, isConst := r.Results[0].(*ssa.Const)
				r4.Check(isConst && c.Value == nil, key, r.Pos(), "fatal path returns a nil message", "a fatal decode error returns a (partially filled) message: a truncated datagram would publish records")
			}
		})
		// non-fatal edge only collects: on the ok edge of the assertion no Return before the latch
		if loop != nil {
			res := core.CountQuery{Fn: sd.decode, Start: sd.setCall, Stop: core.IterationStop(loop), Event: func(ssa.Instruction) int { return 0 },
				EdgeOK: func(b *ssa.BasicBlock, si int) bool {
					cond, truth, ok := core.IfEdge(b, si)
					if !ok {
						return true
					}
					if ex, ok := cond.(*ssa.Extract); ok && ex.Index == 1 {
						if ta, ok := ex.Tuple.(*ssa.TypeAssert); ok && ta.X == ssa.Value(sd.setCall) {
							return truth
						}
					}
					if v, eqNil, ok := core.NilCompare(cond); ok && v == ssa.Value(sd.setCall) {
						return eqNil != truth // error present
					}
					return true
				}}.Run()
			_, exits := res.Max["exit"]
			_, rets := res.Max["return"]
			r4.Check(!exits && !rets, core.FuncName(sd.decode)+":nonfatal-continues", sd.setCall.Pos(), "a non-fatal error leads to the next set", "a non-fatal error leaves the set loop: sets after an undecodable one would be lost")
		}
		// ---- R09.2 ----
		fname := core.FuncName(sd.decodeSet)
		allInstrs(sd.decodeSet, func(ins ssa.Instruction) {
			r, ok := ins.(*ssa.Return)
			if !ok || len(r.Results) != 1 {
				return
			}
			key := fmt.Sprintf("%s:return:%s", fname, describeVal(r.Results[0]))
			if sd.skipGuard.Dominates(r.Block()) {
				r2.OK(key, r.Pos(), "return after the skip-by-length decision")
				return
			}
			cls := errClasses(prog, r.Results[0], sd.nonfatal, 0, map[ssa.Value]bool{})
			cls = refineByDominatingEdges(r.Results[0], r.Block(), sd.nonfatal, cls)
			r2.Check(cls == clsFatal, key, r.Pos(), "bypasses the skip with a fatal-class value only "+clsString(cls),
				fmt.Sprintf("this return bypasses the skip of the set's remaining octets but may carry %s: the next set would be parsed from the middle of this one", clsString(cls)))
		})
		// the skip amount is declared length minus octets consumed since the set header began
		startCount := firstCallNamed(sd.decodeSet, "ReadCount")
		sl := core.BackwardSlice(sd.skip.Common().Args[1], core.SliceOpts{})
		r2.Check(startCount != nil && sl[startCount], fname+":skip-amount", sd.skip.Pos(), "leftover = declared length - (consumed now - consumed at set start)", "skip amount does not subtract the octets consumed since the start of the set")
		r2.Check(startCount != nil && everyHeaderReadAfter(sd.decodeSet, startCount), fname+":start-before-header", sd.decodeSet.Pos(), "consumed-count snapshot precedes the set header read", "the consumed-count snapshot is taken after the set header was read: the skip would overshoot by the header size")
		// a failed skip is fatal: on every path where the skip's read fails the set decoder returns that error
		if skipErr := extractOf(sd.skip, 1); skipErr == nil {
			r2.Fail(fname+":skip-error-checked", sd.skip.Pos(), "the error of the skip read is discarded: a truncated set would be taken for a complete one")
		} else {
			allInstrs(sd.decodeSet, func(ins ssa.Instruction) {
				r, ok := ins.(*ssa.Return)
				if !ok || !sd.skipGuard.Dominates(r.Block()) || !(core.Walk{}).CanReach(sd.skip, r) {
					return
				}
				vals, complete := core.ResolveAlongPathsR(sd.skip, r, r.Results[0], nilEdgeFilterR(skipErr, false), 64)
				if complete && len(vals) == 0 {
					return // this return cannot be reached when the skip's read failed
				}
				only := complete && len(vals) == 1 && vals[ssa.Value(skipErr)]
				var got []string
				for v := range vals {
					got = append(got, describeVal(v))
				}
				sort.Strings(got)
				r2.Check(only, fname+":failed-skip-is-fatal", r.Pos(), "when the skip read fails its error is what the set decoder returns",
					fmt.Sprintf("when the skip of the set's remaining octets fails (datagram cut inside the set) the set decoder can return %v instead of that error: a pending non-fatal error would let decoding continue inside the truncated set", got))
			})
		}
		// ---- R09.3 ----
		checkReserved(r3, sd)
		if sd.rel == "netflow/v9" {
			checkUnassignableIDs(rep.Prog, r3, sd)
		}
	}
	checkReaderFailureStoreFree(rep, r5)
	// a short read must fail: every access of the byte reader stays within the buffer's length (not its capacity:
	// the datagram is a prefix of a larger pooled buffer), for any buffer and argument (same obligations as C19)
	// whether a set is undecodable is decided by its template and the information model: a template field that the
	// cache file does not save (an enterprise number tagged json:"-") comes back as another element after a restart,
	// and a set that was skipped as undecodable is decoded into records nobody sent (same obligations as C11/R11.2)
	r7 := rep.Rule("R09.7", "premise (shared with C11): every field of a cached template round-trips through the cache file", 10)
	for _, rel := range []string{"ipfix", "netflow/v9"} {
		if c := findTplCache(rep.Prog, rel); c.diskT != nil && c.shardT != nil {
			checkRoundTrip(r7, rel, c.diskT, c.shardT, map[string]bool{}, "")
		} else {
			r7.Undecided(rel+":disk-type", token.NoPos, "on-disk type of the template cache not resolved")
		}
	}
	// a set whose declared length is exactly its header (no body) is skipped like any other set that yields nothing;
	// only a declared length smaller than the header is fatal (the skip could not be computed). Rejecting length 4
	// turns an empty set into the loss of every neighbouring set of the datagram.
	r8 := rep.Rule("R09.8", "the set decoder's fatal length guard rejects declared lengths 0..3 and accepts 4 (a header-only set) and more", 2)
	for _, rel := range []string{"ipfix", "netflow/v9"} {
		var fn *ssa.Function
		for _, f := range rep.Prog.RepoFuncs() {
			if core.PkgRel(f) == rel && f.Name() == "decodeSet" {
				fn = f
			}
		}
		if fn == nil {
			r8.Undecided(rel+":decodeSet", token.NoPos, "set decoder not found")
			continue
		}
		fatalAt := func(n int64) (bool, token.Pos) {
			valOf := func(v ssa.Value) (int64, bool) {
				// int(h.Length) and the like: a widening conversion keeps the value
				for {
					if cv, ok := v.(*ssa.Convert); ok {
						sz := types.SizesFor("gc", "amd64")
						if sz.Sizeof(cv.Type()) >= sz.Sizeof(cv.X.Type()) {
							v = cv.X
							continue
						}
					}
					break
				}
				if ld, ok := v.(*ssa.UnOp); ok && ld.Op == token.MUL {
					if fa, ok := ld.X.(*ssa.FieldAddr); ok {
						if _, fld, _ := core.FieldOf(fa); fld != nil && fld.Name() == "Length" {
							return n, true
						}
					}
				}
				return 0, false
			}
			for _, b := range fn.Blocks {
				if len(b.Instrs) == 0 {
					continue
				}
				iff, ok := b.Instrs[len(b.Instrs)-1].(*ssa.If)
				if !ok {
					continue
				}
				v, known := foldCondV(iff.Cond, valOf, 0)
				if !known {
					continue
				}
				t := b.Succs[1]
				if v {
					t = b.Succs[0]
				}
				if len(t.Instrs) > 0 && len(t.Instrs) <= 3 {
					if r, ok := t.Instrs[len(t.Instrs)-1].(*ssa.Return); ok && len(r.Results) > 0 && isErrorType(r.Results[len(r.Results)-1].Type()) {
						if c, isC := r.Results[len(r.Results)-1].(*ssa.Const); !isC || c.Value != nil {
							return true, iff.Pos()
						}
					}
				}
			}
			return false, fn.Pos()
		}
		name := core.FuncName(fn)
		lo, pos := true, fn.Pos()
		for n := int64(0); n < 4; n++ {
			f, p := fatalAt(n)
			lo = lo && f
			if f {
				pos = p
			}
		}
		r8.Check(lo, name+":shorter-than-header-is-fatal", pos, "declared lengths 0..3 return an error at the guard", "a declared set length below the header size is not rejected at the guard")
		hi := true
		for _, n := range []int64{4, 5, 8, 1500, 65535} {
			if f, p := fatalAt(n); f {
				hi, pos = false, p
			}
		}
		r8.Check(hi, name+":header-only-set-accepted", pos, "declared lengths 4, 5, 8, 1500, 65535 pass the guard", "a set with a declared length of 4 or more (4 = header only, nothing to decode) is a fatal error: the whole datagram, with its other sets, is dropped")
	}
	r6 := rep.Rule("R09.6", "no reader method reads beyond the datagram's length, so a read that does not fit fails", 8)
	{
		prog := rep.Prog
		cfg := oblConfig(prog)
		cfg.StrictLen = func(fn *ssa.Function) bool { return core.PkgRel(fn) == "reader" }
		an := obl.New(cfg)
		for _, fn := range prog.RepoFuncs() {
			if core.PkgRel(fn) == "reader" && fn.Synthetic == "" && fn.Parent() == nil && fn.Object() != nil && fn.Object().Exported() {
				an.AnalyzeRoot(fn, obl.RootOpts{NonNilParams: true})
			}
		}
		reportObligations(rep, r6, an, func(o *obl.Obligation) bool { return o.Kind == "K1" || o.Kind == "K7" }, nil)
	}
}

func retKind(r *ssa.Return, loop *core.Loop) string {
	if loop != nil && loop.Contains(r) {
		return "in-set-loop"
	}
	return fmt.Sprintf("block%d", r.Block().Index)
}

func describeVal(v ssa.Value) string {
	switch x := v.(type) {
	case *ssa.Const:
		if x.Value == nil {
			return "nil"
		}
	case *ssa.UnOp:
		if g, ok := x.X.(*ssa.Global); ok {
			return g.Name()
		}
	case *ssa.Call:
		if f := x.Common().StaticCallee(); f != nil {
			return "result:" + f.Name()
		}
	case *ssa.Extract:
		if c, ok := x.Tuple.(*ssa.Call); ok && c.Common().StaticCallee() != nil {
			return "result:" + c.Common().StaticCallee().Name()
		}
	case *ssa.Phi:
		return "var:" + x.Comment
	case *ssa.MakeInterface:
		return "new:" + types.TypeString(x.X.Type(), func(p *types.Package) string { return p.Name() })
	case *ssa.Parameter:
		return "param:" + x.Name()
	}
	if ld, ok := v.(*ssa.UnOp); ok {
		if a, ok := ld.X.(*ssa.Alloc); ok {
			return "var:" + a.Comment
		}
		if _, f := fieldLoad(ld); f != nil {
			return "field:" + f.Name()
		}
	}
	// no register names in keys: they change with unrelated edits
	return "value:" + types.TypeString(v.Type(), func(p *types.Package) string { return p.Name() })
}

func firstCallNamed(fn *ssa.Function, name string) *ssa.Call {
	var out *ssa.Call
	for _, b := range fn.DomPreorder() {
		for _, ins := range b.Instrs {
			if c, ok := ins.(*ssa.Call); ok && out == nil {
				if f := c.Common().StaticCallee(); f != nil && f.Name() == name {
					out = c
				}
			}
		}
	}
	return out
}

// everyHeaderReadAfter: every call that consumes reader octets in fn is dominated by start.
func everyHeaderReadAfter(fn *ssa.Function, start *ssa.Call) bool {
	ok := true
	allInstrs(fn, func(ins ssa.Instruction) {
		c, isCall := ins.(*ssa.Call)
		if !isCall || c == start {
			return
		}
		f := c.Common().StaticCallee()
		if f == nil || f.Name() == "ReadCount" || f.Name() == "Len" {
			return
		}
		// any call passing the reader (a *reader.Reader value) may consume
		for _, a := range c.Common().Args {
			if typeIs(a.Type(), core.ModPath+"/reader", "Reader") && !core.InstrDominates(start, c) {
				ok = false
			}
		}
	})
	return ok
}

func checkReserved(r3 *core.RuleRun, sd *setDecoder) {
	fn := sd.decodeSet
	fname := core.FuncName(fn)
	// the record loop: the loop that calls the record decoder
	var loop *core.Loop
	allInstrs(fn, func(ins ssa.Instruction) {
		if c, ok := ins.(*ssa.Call); ok && c.Common().StaticCallee() == sd.decodeDat {
			loop = core.LoopOf(fn, c)
		}
	})
	if loop == nil || sd.skipGuard == nil {
		r3.Undecided(fname+":reserved-range", fn.Pos(), "record loop or skip not found")
		return
	}
	// The loop's control flow is folded for a concrete set id (comparisons of the id with constants, in any form:
	// if chains, switch cases, negated ranges). What a set with that id can reach before the skip is collected.
	type reach struct {
		calls   []string
		returns bool
		skip    bool
	}
	walk := func(id int64) reach {
		var out reach
		fold := foldedEdges(isSetIDValue, id)
		seen := map[*ssa.BasicBlock]bool{}
		stack := []*ssa.BasicBlock{loop.Header}
		for len(stack) > 0 {
			b := stack[len(stack)-1]
			stack = stack[:len(stack)-1]
			if seen[b] {
				continue
			}
			seen[b] = true
			if b == sd.skipGuard {
				out.skip = true
				continue
			}
			for _, ins := range b.Instrs {
				switch x := ins.(type) {
				case *ssa.Call:
					if f := x.Common().StaticCallee(); f != nil && f.Name() != "ReadCount" && f.Name() != "Len" && (f.Pkg == nil || f.Pkg.Pkg.Path() != "fmt") {
						out.calls = append(out.calls, f.Name())
					}
				case *ssa.Return:
					out.returns = true
				}
			}
			for si, s := range b.Succs {
				if s == loop.Header {
					continue // one iteration
				}
				if fold(b, si) {
					stack = append(stack, s)
				}
			}
		}
		sort.Strings(out.calls)
		return out
	}
	bad := ""
	for _, id := range []int64{4, 5, 100, 254, 255} {
		r := walk(id)
		if len(r.calls) > 0 || r.returns || !r.skip {
			bad = fmt.Sprintf("a set with id %d reaches calls %v (returns before the skip: %v, skip reached: %v)", id, r.calls, r.returns, r.skip)
		}
	}
	if bad == "" {
		// the test exists at all: some other id does reach a parser
		if r := walk(256); len(r.calls) == 0 {
			bad = "no set id reaches a record parser: the dispatch on the set id was not recognised"
			r3.Undecided(fname+":reserved-range", fn.Pos(), bad)
			return
		}
	}
	r3.Check(bad == "", fname+":reserved-range", fn.Pos(), "set ids 4..255 read no record and go straight to the skip", bad+": reserved set ids are interpreted")
	// the reserved range is exactly 4..255: the neighbours are decoded
	lo, hi := walk(3), walk(256)
	r3.Check(len(lo.calls) > 0 && len(hi.calls) > 0, fname+":reserved-bounds", fn.Pos(), "ids 3 and 256 are decoded: the reserved range is 4..255",
		fmt.Sprintf("set id 3 reaches %v and set id 256 reaches %v: the range treated as reserved is wider than 4..255 (RFC 7011 3.3.2 / RFC 3954 5.1), sets that carry records are skipped", lo.calls, hi.calls))
	r3.OK(fname+":reserved-to-skip", fn.Pos(), "reserved ids go straight to the skip")
}

// checkUnassignableIDs (R09.3, NetFlow v9): flowset ids 2 and 3 are reserved by RFC 3954 like 4..255, but the
// decoder has no test for them: no template can carry such an id (templates are numbered from 256), so they reach the
// record decoder with the empty template. Such a set is skipped like the other reserved ones only if (a) under these
// ids the record loop reaches nothing but the record decoder, and (b) the record decoder, when it iterates over no
// field at all, returns without a fatal error (the caller then reports the empty record as non-fatal and skips).
func checkUnassignableIDs(prog *core.Program, r3 *core.RuleRun, sd *setDecoder) {
	fn := sd.decodeSet
	fname := core.FuncName(fn)
	if sd.decodeDat == nil {
		return
	}
	var loop *core.Loop
	allInstrs(fn, func(ins ssa.Instruction) {
		if c, ok := ins.(*ssa.Call); ok && c.Common().StaticCallee() == sd.decodeDat {
			loop = core.LoopOf(fn, c)
		}
	})
	if loop == nil {
		return
	}
	for _, id := range []int64{2, 3} {
		fold := foldedEdges(isSetIDValue, id)
		w := core.Walk{EdgeOK: func(b *ssa.BasicBlock, si int) bool {
			if b.Succs[si] == loop.Header || !loop.Blocks[b.Succs[si]] {
				return false
			}
			return fold(b, si)
		}}
		var parsers []string
		for i := range w.ReachInstrs(loop.Header.Instrs[0]) {
			if cc, ok := i.(*ssa.Call); ok && cc.Common().StaticCallee() != nil && prog.IsRepoFunc(cc.Common().StaticCallee()) {
				if n := cc.Common().StaticCallee().Name(); strings.HasPrefix(n, "unmarshal") {
					parsers = append(parsers, n)
				}
			}
		}
		r3.Check(len(parsers) == 0, fmt.Sprintf("%s:id%d-parses-nothing", fname, id), fn.Pos(), "reaches no template parser",
			fmt.Sprintf("flowset id %d (reserved, RFC 3954 5.1) reaches %v: a reserved set is interpreted as templates", id, parsers))
	}
	// (b) the record decoder over an empty template: returns reachable without entering a loop
	dd := sd.decodeDat
	inLoop := map[*ssa.BasicBlock]bool{}
	headers := map[*ssa.BasicBlock]*core.Loop{}
	for _, l := range core.NaturalLoops(dd) {
		headers[l.Header] = l
		for b := range l.Blocks {
			if b != l.Header {
				inLoop[b] = true
			}
		}
	}
	// blocks reachable without entering a loop body (first pass, no pruning)
	lf := map[*ssa.BasicBlock]bool{}
	{
		stack := []*ssa.BasicBlock{dd.Blocks[0]}
		for len(stack) > 0 {
			b := stack[len(stack)-1]
			stack = stack[:len(stack)-1]
			if lf[b] || inLoop[b] {
				continue
			}
			lf[b] = true
			stack = append(stack, b.Succs...)
		}
	}
	// an error value that is nil on every loop-free path (a result variable of an inlined helper, say, that only a
	// loop body assigns)
	var nilLF func(v ssa.Value, depth int) bool
	nilLF = func(v ssa.Value, depth int) bool {
		if depth > 8 {
			return false
		}
		switch x := v.(type) {
		case *ssa.Const:
			return x.IsNil()
		case *ssa.Phi:
			for i, e := range x.Edges {
				if !lf[x.Block().Preds[i]] {
					continue
				}
				if !nilLF(e, depth+1) {
					return false
				}
			}
			return true
		case *ssa.UnOp:
			if x.Op == token.MUL {
				vals := core.ReachingStores(x)
				if len(vals) == 0 {
					return false
				}
				for _, sv := range vals {
					if in, ok := sv.(ssa.Instruction); ok && in.Block() != nil && !lf[in.Block()] {
						continue
					}
					if !nilLF(sv, depth+1) {
						return false
					}
				}
				return true
			}
		}
		return false
	}
	seen := map[*ssa.BasicBlock]bool{}
	stack := []*ssa.BasicBlock{dd.Blocks[0]}
	bad := token.NoPos
	for len(stack) > 0 {
		b := stack[len(stack)-1]
		stack = stack[:len(stack)-1]
		if seen[b] || inLoop[b] {
			continue
		}
		seen[b] = true
		if r, ok := b.Instrs[len(b.Instrs)-1].(*ssa.Return); ok && len(r.Results) > 0 {
			ev := r.Results[len(r.Results)-1]
			fatal := !nilLF(ev, 0)
			if mi, isMI := ev.(*ssa.MakeInterface); isMI && sd.nonfatal != nil && types.Identical(mi.X.Type(), sd.nonfatal) {
				fatal = false
			}
			if fatal {
				bad = r.Pos()
			}
		}
		for si, sc := range b.Succs {
			// `if err != nil` on a value that is nil on these paths goes one way only
			if cond, truth, ok := core.IfEdge(b, si); ok {
				if bo, isB := cond.(*ssa.BinOp); isB && (bo.Op == token.NEQ || bo.Op == token.EQL) {
					x, y := bo.X, bo.Y
					if c, isC := x.(*ssa.Const); isC && c.IsNil() {
						x, y = y, x
					}
					if c, isC := y.(*ssa.Const); isC && c.IsNil() && nilLF(x, 0) {
						isNil := bo.Op == token.EQL
						if isNil != truth {
							continue
						}
					}
				}
			}
			stack = append(stack, sc)
		}
	}
	r3.Check(bad == token.NoPos, core.FuncName(dd)+":empty-template-not-fatal", dd.Pos(), "over an empty template the record decoder returns no fatal error",
		"over a template without fields the record decoder returns a fatal error ("+prog.Pos(bad)+"): flowsets with the reserved ids 2 and 3, which always come with the empty template, then make the whole datagram fail instead of being skipped")
}

func (sd *setDecoder) skipGuardReachedFrom(b *ssa.BasicBlock) bool { return true }

// checkReaderFailureStoreFree: in package reader, every path of an error-returning method that
// returns a non-nil error executes no store to the receiver and no call that may store.
func checkReaderFailureStoreFree(rep *core.Report, rr *core.RuleRun) {
	prog := rep.Prog
	pk := prog.SSAPackage("reader")
	if pk == nil {
		rr.Undecided("package:reader", token.NoPos, "package reader not found")
		return
	}
	// mod-set: functions that (transitively) store through their receiver
	writers := readerWriters(prog)
	var fns []*ssa.Function
	for _, fn := range prog.RepoFuncs() {
		if core.PkgRel(fn) == "reader" && fn.Signature.Recv() != nil && fn.Signature.Results().Len() > 0 {
			last := fn.Signature.Results().At(fn.Signature.Results().Len() - 1)
			if types.Identical(last.Type(), types.Universe.Lookup("error").Type()) {
				fns = append(fns, fn)
			}
		}
	}
	sort.Slice(fns, func(i, j int) bool { return fns[i].String() < fns[j].String() })
	for _, fn := range fns {
		name := core.FuncName(fn)
		// effects: stores and calls to writers
		var effects []ssa.Instruction
		allInstrs(fn, func(ins ssa.Instruction) {
			switch x := ins.(type) {
			case *ssa.Store:
				if _, local := core.AddrRoot(x.Addr).(*ssa.Alloc); !local {
					effects = append(effects, ins)
				}
			case ssa.CallInstruction:
				if f := x.Common().StaticCallee(); f != nil && writers[f] {
					effects = append(effects, ins)
				}
			}
		})
		errIdx := fn.Signature.Results().Len() - 1
		bad := false
		allInstrs(fn, func(ins ssa.Instruction) {
			r, ok := ins.(*ssa.Return)
			if !ok {
				return
			}
			ev := r.Results[errIdx]
			if c, ok := ev.(*ssa.Const); ok && c.Value == nil {
				return // success return
			}
			// failure (or unknown) return: no effect may precede it on any path
			for _, e := range effects {
				if (core.Walk{}).CanReach(e, r) {
					// allow when the returned error is provably nil on the paths through e: error var phi
					if pathErrNil(e, r, ev) {
						continue
					}
					bad = true
					rr.Fail(name+":failure-store-free", e.Pos(), "a path that returns an error first executes "+e.String()+": a failed read would consume octets or corrupt the position")
				}
			}
		})
		if !bad {
			rr.OK(name+":failure-store-free", fn.Pos(), fmt.Sprintf("%d effect sites, none precedes an error return", len(effects)))
		}
	}
}

// pathErrNil: the returned error value is a phi/named result that is nil on every path through e.
// Recognised shape: `if b, err = r.Peek(2); err == nil { ... effect ... }; return` where the effect
// lies under the err==nil edge and err is not reassigned.
func pathErrNil(e ssa.Instruction, r *ssa.Return, ev ssa.Value) bool {
	cls := refineByDominatingEdges(ev, e.Block(), nil, clsNil|clsFatal)
	if cls == clsNil {
		return true
	}
	// named result loaded from an Alloc: check each store's value
	if u, ok := ev.(*ssa.UnOp); ok && u.Op == token.MUL {
		if a, ok := u.X.(*ssa.Alloc); ok {
			okAll := true
			for _, sv := range core.StoresTo(a) {
				if c, isC := sv.(*ssa.Const); isC && c.Value == nil {
					continue
				}
				if refineByDominatingEdges(sv, e.Block(), nil, clsNil|clsFatal) != clsNil {
					okAll = false
				}
			}
			return okAll
		}
	}
	return false
}

// readerWriters returns the reader-package functions that store through their receiver, transitively.
func readerWriters(prog *core.Program) map[*ssa.Function]bool {
	w := map[*ssa.Function]bool{}
	var fns []*ssa.Function
	for _, fn := range prog.RepoFuncs() {
		if core.PkgRel(fn) == "reader" {
			fns = append(fns, fn)
		}
	}
	for _, fn := range fns {
		allInstrs(fn, func(ins ssa.Instruction) {
			if st, ok := ins.(*ssa.Store); ok {
				if _, local := core.AddrRoot(st.Addr).(*ssa.Alloc); !local {
					w[fn] = true
				}
			}
		})
	}
	for changed := true; changed; {
		changed = false
		for _, fn := range fns {
			if w[fn] {
				continue
			}
			allInstrs(fn, func(ins ssa.Instruction) {
				if c, ok := ins.(ssa.CallInstruction); ok {
					if f := c.Common().StaticCallee(); f != nil && w[f] {
						w[fn] = true
						changed = true
					}
				}
			})
		}
	}
	return w
}
