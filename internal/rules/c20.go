package rules

import (
	"bufio"
	"fmt"
	"go/ast"
	"go/token"
	"go/types"
	"path/filepath"
	"regexp"
	"sort"
	"strings"

	"golang.org/x/tools/go/ssa"
	yaml "gopkg.in/yaml.v2"

	"verif/internal/core"
)

func init() { register("C20", checkC20) }

// modelEntry is one element of either information-model table.
type modelEntry struct {
	pen      uint32
	id       uint16
	fieldID  int64
	name     string
	typeName string // the IANA type name ("" if the Go table uses a constant directly)
	typeVal  int64  // resolved FieldType value (0 = Unknown)
	pos      token.Pos
}

// fieldTypesTable const-evaluates `var FieldTypes = map[string]FieldType{...}`.
func fieldTypesTable(rep *core.Report) (map[string]int64, map[int64]string, token.Pos) {
	pk := rep.Prog.Pkg("ipfix")
	if pk == nil {
		return nil, nil, token.NoPos
	}
	e, pos := varDeclValue(pk, "FieldTypes")
	lit, ok := e.(*ast.CompositeLit)
	if !ok {
		return nil, nil, pos
	}
	tbl := map[string]int64{}
	constName := map[int64]string{}
	for _, el := range lit.Elts {
		kv, ok := el.(*ast.KeyValueExpr)
		if !ok {
			continue
		}
		k, ok1 := constString(pk.TypesInfo, kv.Key)
		v, ok2 := constInt(pk.TypesInfo, kv.Value)
		if ok1 && ok2 {
			tbl[k] = v
			if o := objOf(pk.TypesInfo, kv.Value); o != nil {
				constName[v] = o.Name()
			}
		}
	}
	return tbl, constName, pos
}

// fieldTypeConsts returns name -> value of every constant of type ipfix.FieldType.
func fieldTypeConsts(rep *core.Report) map[string]int64 {
	out := map[string]int64{}
	pk := rep.Prog.Pkg("ipfix")
	if pk == nil {
		return out
	}
	ft := rep.Prog.NamedType("ipfix", "FieldType")
	sc := pk.Types.Scope()
	for _, n := range sc.Names() {
		if c, ok := sc.Lookup(n).(*types.Const); ok && ft != nil && types.Identical(c.Type(), ft) {
			if v, ok := constInt64(c); ok {
				out[n] = v
			}
		}
	}
	return out
}

func constInt64(c *types.Const) (int64, bool) {
	v := c.Val()
	if v == nil {
		return 0, false
	}
	i, ok := constantInt64(v)
	return i, ok
}

func checkC20(rep *core.Report) {
	rep.Explanation = "Exhaustive table agreement (no sampling): the built-in Go literal ipfix.InfoModel is constant-evaluated from the type-checked AST, scripts/ipfix.elements is parsed with the YAML library and target type the loader uses, and every entry of each is compared with the other (key set, name, type name), each entry with its own key, each type name with the type-name table; the loader's store is checked structurally on resolved identifiers. Decides the whole statement except 'matches the live IANA registry' (not available offline: each shipped snapshot is the oracle for the other)."
	rep.Trust("go/types constant evaluation; gopkg.in/yaml.v2 (the loader's own parser)")
	pk := rep.Prog.Pkg("ipfix")
	r1 := rep.Rule("R20.1", "built-in table and shipped file define the same keys with equal names and type names", 300)
	r2 := rep.Rule("R20.2", "every built-in entry is keyed by its own element id; the file has no duplicate keys and 2 items per entry", 300)
	r3 := rep.Rule("R20.3", "every type name used by either table is a key of the type-name table", 300)
	r4 := rep.Rule("R20.4", "loader stores {FieldID:id, Name:p[0], Type:FieldTypes[p[1]]} under {PEN,id}, replaces the table, tolerates an absent file, and is invoked at IPFIX start-up with the configured directory", 5)
	if pk == nil {
		r1.Undecided("package:ipfix", token.NoPos, "package ipfix not found")
		return
	}
	ftTbl, _, ftPos := fieldTypesTable(rep)
	if len(ftTbl) == 0 {
		r3.Undecided("var:ipfix.FieldTypes", ftPos, "type-name table not found as a constant map literal")
		return
	}
	// ---- Go literal ----
	e, mpos := varDeclValue(pk, "InfoModel")
	lit, ok := e.(*ast.CompositeLit)
	if !ok {
		r1.Undecided("var:ipfix.InfoModel", mpos, "built-in table is not a composite literal")
		return
	}
	info := pk.TypesInfo
	goTbl := map[[2]int64]*modelEntry{}
	for _, el := range lit.Elts {
		kv, ok := el.(*ast.KeyValueExpr)
		if !ok {
			r1.Undecided("InfoModel:entry", el.Pos(), "entry without key")
			continue
		}
		klit, ok1 := kv.Key.(*ast.CompositeLit)
		vlit, ok2 := kv.Value.(*ast.CompositeLit)
		if !ok1 || !ok2 {
			r1.Undecided("InfoModel:entry", el.Pos(), "entry key/value is not a struct literal")
			continue
		}
		kf := structLitFields(info, klit)
		vf := structLitFields(info, vlit)
		pen, okp := constInt(info, kf["EnterpriseNo"])
		id, oki := constInt(info, kf["ElementID"])
		if !okp || !oki {
			r1.Undecided("InfoModel:entry", el.Pos(), "key fields are not constants")
			continue
		}
		me := &modelEntry{pen: uint32(pen), id: uint16(id), pos: el.Pos(), fieldID: -1}
		if v, ok := constInt(info, vf["FieldID"]); ok {
			me.fieldID = v
		}
		if s, ok := constString(info, vf["Name"]); ok {
			me.name = s
		}
		keyStr := fmt.Sprintf("InfoModel[%d,%d]", pen, id)
		switch t := vf["Type"].(type) {
		case *ast.IndexExpr:
			if o := objOf(info, t.X); o != nil && o.Name() == "FieldTypes" && o.Pkg() == pk.Types {
				if s, ok := constString(info, t.Index); ok {
					me.typeName = s
					me.typeVal = ftTbl[s]
				}
			}
		case nil:
		default:
			if v, ok := constInt(info, t); ok {
				me.typeVal = v
				for n, tv := range ftTbl {
					if tv == v {
						me.typeName = n
					}
				}
			}
		}
		if _, dup := goTbl[[2]int64{pen, id}]; dup {
			r2.Fail(keyStr+":dup", el.Pos(), "duplicate key in built-in table")
		}
		goTbl[[2]int64{pen, id}] = me
		r2.Check(me.fieldID == id, keyStr+":FieldID", el.Pos(), "FieldID equals key id", fmt.Sprintf("entry keyed by element id %d carries FieldID %d", id, me.fieldID))
		if me.typeName == "" {
			r3.Fail(keyStr+":type", el.Pos(), "type is not FieldTypes[<const>] nor a FieldType constant present in FieldTypes")
		} else if _, ok := ftTbl[me.typeName]; !ok {
			r3.Fail(keyStr+":type", el.Pos(), fmt.Sprintf("type name %q is not a key of FieldTypes: the element silently becomes Unknown (variable-length encoding then unreadable)", me.typeName))
		} else {
			r3.OK(keyStr+":type", el.Pos(), me.typeName)
		}
	}
	// ---- YAML file ----
	b, err := rep.Prog.ReadFile(filepath.Join("scripts", "ipfix.elements"))
	if err != nil {
		r1.Undecided("file:scripts/ipfix.elements", token.NoPos, "shipped element file unreadable: "+err.Error())
		return
	}
	var y map[uint32]map[uint16][]string
	if err := yaml.Unmarshal(b, &y); err != nil {
		r1.Fail("file:scripts/ipfix.elements", token.NoPos, "does not parse into the loader's type: "+err.Error())
		return
	}
	// duplicate-key scan (the YAML library keeps the last one silently)
	dupScan(b, r2)
	yTbl := map[[2]int64]*modelEntry{}
	for pen, els := range y {
		for id, p := range els {
			keyStr := fmt.Sprintf("file[%d,%d]", pen, id)
			me := &modelEntry{pen: pen, id: id}
			if len(p) != 2 {
				r2.Fail(keyStr+":items", token.NoPos, fmt.Sprintf("entry has %d items, want 2 (name, type); the loader drops entries with fewer than 2", len(p)))
			} else {
				r2.OK(keyStr+":items", token.NoPos, "")
			}
			if len(p) > 0 {
				me.name = p[0]
			}
			if len(p) > 1 {
				me.typeName = p[1]
				if _, ok := ftTbl[p[1]]; !ok {
					r3.Fail(keyStr+":type", token.NoPos, fmt.Sprintf("type name %q is not a key of FieldTypes: the loader maps it to Unknown", p[1]))
				} else {
					r3.OK(keyStr+":type", token.NoPos, p[1])
				}
			}
			yTbl[[2]int64{int64(pen), int64(id)}] = me
		}
	}
	// ---- comparison ----
	var keys [][2]int64
	seen := map[[2]int64]bool{}
	for k := range goTbl {
		keys = append(keys, k)
		seen[k] = true
	}
	for k := range yTbl {
		if !seen[k] {
			keys = append(keys, k)
		}
	}
	sort.Slice(keys, func(i, j int) bool {
		if keys[i][0] != keys[j][0] {
			return keys[i][0] < keys[j][0]
		}
		return keys[i][1] < keys[j][1]
	})
	for _, k := range keys {
		g, y := goTbl[k], yTbl[k]
		keyStr := fmt.Sprintf("element[%d,%d]", k[0], k[1])
		switch {
		case g == nil:
			r1.Fail(keyStr, token.NoPos, fmt.Sprintf("present in scripts/ipfix.elements (%s) but absent from the built-in table", y.name))
		case y == nil:
			r1.Fail(keyStr, g.pos, fmt.Sprintf("present in the built-in table (%s) but absent from scripts/ipfix.elements", g.name))
		case g.name != y.name:
			r1.Fail(keyStr, g.pos, fmt.Sprintf("name differs: built-in %q, file %q", g.name, y.name))
		case g.typeName != y.typeName:
			r1.Fail(keyStr, g.pos, fmt.Sprintf("abstract data type differs: built-in %q, file %q", g.typeName, y.typeName))
		default:
			r1.OK(keyStr, g.pos, g.name+":"+g.typeName)
		}
	}
	// ---- R20.5: the two tables are not modified behind the literals' back ----
	r5 := rep.Rule("R20.5", "type-name table and built-in table are written only by their initialisers (and the built-in table by the loader)", 1)
	ftG, imG := rep.Prog.SSAPackage("ipfix").Var("FieldTypes"), rep.Prog.SSAPackage("ipfix").Var("InfoModel")
	nW := 0
	for _, fn := range rep.Prog.RepoFuncs() {
		allInstrs(fn, func(ins ssa.Instruction) {
			var tgt *ssa.Global
			what := ""
			switch x := ins.(type) {
			case *ssa.MapUpdate:
				tgt, what = globalOf(x.Map), "element store"
			case *ssa.Store:
				if g, ok := x.Addr.(*ssa.Global); ok {
					tgt, what = g, "assignment"
				}
			case *ssa.Call:
				if b, ok := x.Common().Value.(*ssa.Builtin); ok && (b.Name() == "delete" || b.Name() == "clear") {
					tgt, what = globalOf(x.Common().Args[0]), b.Name()
				}
			}
			if tgt == nil || (tgt != ftG && tgt != imG) {
				return
			}
			nW++
			isInit := fn.Name() == "init" && fn.Synthetic != ""
			isLoader := tgt == imG && fn.Name() == "LoadExtElements"
			key := core.FuncName(fn) + ":" + tgt.Name() + ":" + what
			if fn.Name() == "init" && fn.Synthetic != "" {
				key = "ipfix.init:" + tgt.Name() + ":" + what
			}
			r5.Check(isInit || isLoader, key, ins.Pos(), "initialiser/loader", "table "+tgt.Name()+" is modified at run time outside its initialiser: the literal no longer describes what decoding uses (e.g. entries added in an init() run after the built-in table was evaluated)")
		})
	}
	rep.Extra["table_writers"] = nW
	rep.Extra["builtin_entries"] = len(goTbl)
	rep.Extra["file_entries"] = len(yTbl)
	rep.Extra["exhaustive"] = true
	checkLoaderShape(rep, r4)
}

var yamlKeyRe = regexp.MustCompile(`^(\s*)(\d+):\s*$`)

func dupScan(b []byte, r2 *core.RuleRun) {
	sc := bufio.NewScanner(strings.NewReader(string(b)))
	pen := ""
	seen := map[string]bool{}
	n := 0
	for sc.Scan() {
		m := yamlKeyRe.FindStringSubmatch(sc.Text())
		if m == nil {
			continue
		}
		if m[1] == "" {
			pen = m[2]
			if seen["pen:"+pen] {
				r2.Fail("file:dup-pen:"+pen, token.NoPos, "enterprise number appears twice; YAML keeps only the last block")
			}
			seen["pen:"+pen] = true
			continue
		}
		k := pen + "/" + m[2]
		if seen[k] {
			r2.Fail("file:dup:"+k, token.NoPos, "duplicate element key in scripts/ipfix.elements; YAML keeps only the last")
		}
		seen[k] = true
		n++
	}
	r2.OK("file:dup-scan", token.NoPos, fmt.Sprintf("%d element keys scanned", n))
}

// checkLoaderShape verifies LoadExtElements structurally on the resolved AST.
func checkLoaderShape(rep *core.Report, r4 *core.RuleRun) {
	pk := rep.Prog.Pkg("ipfix")
	info := pk.TypesInfo
	// locate the loader semantically: the repo function (other than init) that assigns the InfoModel variable
	modelObj := pk.Types.Scope().Lookup("InfoModel")
	var loader *ast.FuncDecl
	for _, f := range pk.Syntax {
		for _, d := range f.Decls {
			fd, ok := d.(*ast.FuncDecl)
			if !ok || fd.Body == nil {
				continue
			}
			ast.Inspect(fd.Body, func(n ast.Node) bool {
				if as, ok := n.(*ast.AssignStmt); ok {
					for _, l := range as.Lhs {
						if id, ok := l.(*ast.Ident); ok && info.Uses[id] == modelObj {
							loader = fd
						}
					}
				}
				return true
			})
		}
	}
	if loader == nil {
		r4.Undecided("loader", token.NoPos, "no function assigns ipfix.InfoModel: loader not found")
		return
	}
	name := "ipfix." + loader.Name.Name
	// (a) whole-table replacement by a fresh map
	replaced := false
	var storeStmt *ast.AssignStmt
	ast.Inspect(loader.Body, func(n ast.Node) bool {
		as, ok := n.(*ast.AssignStmt)
		if !ok || len(as.Lhs) != 1 {
			return true
		}
		if id, ok := as.Lhs[0].(*ast.Ident); ok && info.Uses[id] == modelObj {
			if call, ok := as.Rhs[0].(*ast.CallExpr); ok {
				if fid, ok := call.Fun.(*ast.Ident); ok && fid.Name == "make" {
					replaced = true
				}
			}
		}
		if ix, ok := as.Lhs[0].(*ast.IndexExpr); ok {
			if id, ok := ix.X.(*ast.Ident); ok && info.Uses[id] == modelObj {
				storeStmt = as
			}
		}
		return true
	})
	r4.Check(replaced, name+":replace", loader.Pos(), "InfoModel = make(...) before filling", "loader does not replace the table with a fresh map (stale built-in entries would survive)")
	if storeStmt == nil {
		r4.Fail(name+":store", loader.Pos(), "no InfoModel[...] = ... store in loader")
		return
	}
	// find enclosing range statements to identify PEN (outer key), id (inner key), p (inner value)
	var ranges []*ast.RangeStmt
	ast.Inspect(loader.Body, func(n ast.Node) bool {
		if rs, ok := n.(*ast.RangeStmt); ok && rs.Pos() <= storeStmt.Pos() && storeStmt.End() <= rs.End() {
			ranges = append(ranges, rs)
		}
		return true
	})
	if len(ranges) != 2 {
		r4.Undecided(name+":store", storeStmt.Pos(), fmt.Sprintf("store is nested in %d range statements, want 2 (enterprise, element)", len(ranges)))
		return
	}
	penObj := objOf(info, ranges[0].Key)
	idObj := objOf(info, ranges[1].Key)
	pObj := objOf(info, ranges[1].Value)
	innerOverOuterVal := objOf(info, ranges[1].X) != nil && objOf(info, ranges[1].X) == objOf(info, ranges[0].Value)
	r4.Check(innerOverOuterVal, name+":nest", ranges[1].Pos(), "inner range iterates the outer range's value", "inner range does not iterate the outer entry's element map")
	// a local that is defined once (`name, typ := p[0], p[1]`) and never assigned again stands for its definition
	var defOf func(e ast.Expr, depth int) ast.Expr
	defOf = func(e ast.Expr, depth int) ast.Expr {
		id, ok := ast.Unparen(e).(*ast.Ident)
		if !ok || depth > 4 {
			return e
		}
		obj, _ := info.Uses[id].(*types.Var)
		if obj == nil || obj.Parent() == nil || obj.Parent() == obj.Pkg().Scope() || obj == pObj {
			return e
		}
		var def, assigned ast.Expr
		ndef, nassign, other, zeroDecl := 0, 0, false, false
		ast.Inspect(loader.Body, func(n ast.Node) bool {
			switch x := n.(type) {
			case *ast.AssignStmt:
				for i, l := range x.Lhs {
					lid, ok := l.(*ast.Ident)
					if !ok {
						continue
					}
					if info.Defs[lid] == types.Object(obj) {
						ndef++
						if len(x.Lhs) == len(x.Rhs) {
							def = x.Rhs[i]
						} else {
							other = true
						}
					} else if info.Uses[lid] == types.Object(obj) {
						// `var r T` followed by one `r = e` (the result variable of a helper placed at its call site)
						nassign++
						if len(x.Lhs) == len(x.Rhs) && x.Tok == token.ASSIGN {
							assigned = x.Rhs[i]
						} else {
							other = true
						}
					}
				}
			case *ast.ValueSpec:
				for i, nm := range x.Names {
					if info.Defs[nm] == types.Object(obj) {
						ndef++
						if len(x.Values) == len(x.Names) {
							def = x.Values[i]
						} else if len(x.Values) == 0 {
							zeroDecl = true
						} else {
							other = true
						}
					}
				}
			case *ast.IncDecStmt:
				if lid, ok := x.X.(*ast.Ident); ok && info.Uses[lid] == types.Object(obj) {
					other = true
				}
			case *ast.UnaryExpr:
				if lid, ok := x.X.(*ast.Ident); ok && x.Op == token.AND && info.Uses[lid] == types.Object(obj) {
					other = true
				}
			case *ast.RangeStmt:
				for _, kv := range []ast.Expr{x.Key, x.Value} {
					if lid, ok := kv.(*ast.Ident); ok && (info.Defs[lid] == types.Object(obj) || info.Uses[lid] == types.Object(obj)) {
						other = true
					}
				}
			}
			return true
		})
		if ndef == 1 && !other && def != nil && nassign == 0 {
			return defOf(def, depth+1)
		}
		if ndef == 1 && !other && zeroDecl && nassign == 1 && assigned != nil {
			return defOf(assigned, depth+1)
		}
		return e
	}
	ix := storeStmt.Lhs[0].(*ast.IndexExpr)
	klit, _ := ast.Unparen(defOf(ix.Index, 0)).(*ast.CompositeLit)
	vlit, _ := ast.Unparen(defOf(storeStmt.Rhs[0], 0)).(*ast.CompositeLit)
	if klit == nil || vlit == nil {
		r4.Undecided(name+":store", storeStmt.Pos(), "key or value is not a struct literal")
		return
	}
	kf, vf := structLitFields(info, klit), structLitFields(info, vlit)
	is := func(e ast.Expr, o types.Object) bool {
		return e != nil && o != nil && (objOf(info, e) == o || objOf(info, ast.Unparen(defOf(e, 0))) == o)
	}
	r4.Check(is(kf["EnterpriseNo"], penObj) && is(kf["ElementID"], idObj), name+":key", klit.Pos(),
		"key = {outer key, inner key}", "store key is not {enterprise number, element id} of the current entry")
	r4.Check(is(vf["FieldID"], idObj), name+":FieldID", vlit.Pos(), "FieldID = inner key", "FieldID is not the element id the entry is keyed by")
	idxOf := func(e ast.Expr) (types.Object, int64, bool) {
		x, ok := ast.Unparen(defOf(e, 0)).(*ast.IndexExpr)
		if !ok {
			return nil, 0, false
		}
		c, ok := constInt(info, x.Index)
		return objOf(info, ast.Unparen(defOf(x.X, 0))), c, ok
	}
	o, c, ok := idxOf(vf["Name"])
	r4.Check(ok && o == pObj && c == 0, name+":Name", vlit.Pos(), "Name = p[0]", "Name is not item 0 of the entry")
	typeOK := false
	if tx, ok := ast.Unparen(defOf(vf["Type"], 0)).(*ast.IndexExpr); ok {
		if fo := objOf(info, tx.X); fo != nil && fo.Name() == "FieldTypes" {
			o, c, ok := idxOf(tx.Index)
			typeOK = ok && o == pObj && c == 1
		}
	}
	r4.Check(typeOK, name+":Type", vlit.Pos(), "Type = FieldTypes[p[1]]", "Type is not FieldTypes[item 1 of the entry]")
	// guard: the store executes only when len(p) >= 2, in whichever form the control flow says so: an enclosing
	// `if len(p) > 1 {` (or its else branch with the opposite test) or an earlier `if len(p) < 2 { continue }`
	guardOK := false
	atLeast2 := func(e ast.Expr, pol bool) bool {
		be, ok := ast.Unparen(e).(*ast.BinaryExpr)
		if !ok {
			return false
		}
		isLenP := func(x ast.Expr) bool {
			call, ok := ast.Unparen(x).(*ast.CallExpr)
			if !ok || len(call.Args) != 1 || !is(call.Args[0], pObj) {
				return false
			}
			id, ok := call.Fun.(*ast.Ident)
			return ok && id.Name == "len"
		}
		op := be.Op
		var c int64
		var okc bool
		switch {
		case isLenP(be.X):
			c, okc = constInt(info, be.Y)
		case isLenP(be.Y):
			c, okc = constInt(info, be.X)
			op = map[token.Token]token.Token{token.LSS: token.GTR, token.GTR: token.LSS, token.LEQ: token.GEQ, token.GEQ: token.LEQ}[op]
		default:
			return false
		}
		if !okc {
			return false
		}
		// now: len(p) op c
		if pol {
			return (op == token.GTR && c == 1) || (op == token.GEQ && c == 2)
		}
		return (op == token.LSS && c == 2) || (op == token.LEQ && c == 1)
	}
	terminates := func(b *ast.BlockStmt) bool {
		if len(b.List) == 0 {
			return false
		}
		switch x := b.List[len(b.List)-1].(type) {
		case *ast.BranchStmt:
			return x.Tok == token.CONTINUE || x.Tok == token.BREAK || x.Tok == token.GOTO
		case *ast.ReturnStmt:
			return true
		}
		return false
	}
	contains := func(n ast.Node) bool { return n != nil && n.Pos() <= storeStmt.Pos() && storeStmt.End() <= n.End() }
	ast.Inspect(loader.Body, func(n ast.Node) bool {
		switch x := n.(type) {
		case *ast.IfStmt:
			if contains(x.Body) && atLeast2(x.Cond, true) {
				guardOK = true
			}
			if contains(x.Else) && atLeast2(x.Cond, false) {
				guardOK = true
			}
		case *ast.BlockStmt:
			if !contains(x) {
				return true
			}
			for _, st := range x.List {
				if contains(st) {
					break
				}
				if ifs, ok := st.(*ast.IfStmt); ok && ifs.Else == nil && ifs.Init == nil && terminates(ifs.Body) && atLeast2(ifs.Cond, false) {
					guardOK = true
				}
			}
		}
		return true
	})
	r4.Check(guardOK, name+":guard", storeStmt.Pos(), "store guarded by len(p) > 1", "store is not guarded by exactly 'entry has at least 2 items'")
	// ... and by nothing else: every entry of the file with two items is stored. Any other condition between the head
	// of the element loop and the store (an enclosing if/switch, or an earlier statement that can leave the iteration)
	// makes the loaded table a subset of the file.
	{
		parent := map[ast.Node]ast.Node{}
		var stack []ast.Node
		ast.Inspect(ranges[1].Body, func(n ast.Node) bool {
			if n == nil {
				stack = stack[:len(stack)-1]
				return true
			}
			if len(stack) > 0 {
				parent[n] = stack[len(stack)-1]
			}
			stack = append(stack, n)
			return true
		})
		isGuard := func(ifs *ast.IfStmt, viaBody bool) bool {
			if viaBody {
				return atLeast2(ifs.Cond, true)
			}
			return atLeast2(ifs.Cond, false)
		}
		leaves := func(n ast.Node) bool {
			found := false
			// labels declared inside n, and the breakable / loop statements nested in it: a break or continue that
			// targets one of them stays inside n (the `break L` of a helper placed at its call site, a break out of an
			// inner switch)
			localLabels := map[string]bool{}
			type span struct{ pos, end token.Pos }
			var breakables, loops []span
			ast.Inspect(n, func(m ast.Node) bool {
				switch x := m.(type) {
				case *ast.FuncLit:
					return false
				case *ast.LabeledStmt:
					localLabels[x.Label.Name] = true
				case *ast.ForStmt, *ast.RangeStmt:
					breakables = append(breakables, span{m.Pos(), m.End()})
					loops = append(loops, span{m.Pos(), m.End()})
				case *ast.SwitchStmt, *ast.TypeSwitchStmt, *ast.SelectStmt:
					breakables = append(breakables, span{m.Pos(), m.End()})
				}
				return true
			})
			within := func(list []span, at token.Pos) bool {
				for _, sp := range list {
					if sp.pos <= at && at < sp.end {
						return true
					}
				}
				return false
			}
			ast.Inspect(n, func(m ast.Node) bool {
				switch x := m.(type) {
				case *ast.FuncLit:
					return false
				case *ast.BranchStmt:
					switch {
					case x.Label != nil && localLabels[x.Label.Name] && x.Tok != token.GOTO:
					case x.Label == nil && x.Tok == token.BREAK && within(breakables, x.Pos()):
					case x.Label == nil && x.Tok == token.CONTINUE && within(loops, x.Pos()):
					case x.Tok == token.FALLTHROUGH:
					default:
						found = true
					}
				case *ast.ReturnStmt:
					found = true
				case *ast.CallExpr:
					if sel, ok := x.Fun.(*ast.SelectorExpr); ok && (sel.Sel.Name == "Fatal" || sel.Sel.Name == "Fatalf" || sel.Sel.Name == "Exit") {
						found = true
					}
					if id, ok := x.Fun.(*ast.Ident); ok && id.Name == "panic" {
						found = true
					}
				}
				return !found
			})
			return found
		}
		other := ""
		var child ast.Node = storeStmt
		for cur := parent[storeStmt]; cur != nil; child, cur = cur, parent[cur] {
			switch x := cur.(type) {
			case *ast.IfStmt:
				viaBody := child == ast.Node(x.Body)
				if child == ast.Node(x.Cond) || child == ast.Node(x.Init) {
					break
				}
				if !isGuard(x, viaBody) {
					other = "the store is inside a condition other than the length test (" + rep.Prog.Pos(x.Pos()) + ")"
				}
			case *ast.SwitchStmt, *ast.TypeSwitchStmt, *ast.SelectStmt, *ast.ForStmt, *ast.RangeStmt:
				other = "the store is inside another conditional construct (" + rep.Prog.Pos(cur.Pos()) + ")"
			case *ast.BlockStmt:
				for _, st := range x.List {
					if st == child {
						break
					}
					if ifs, ok := st.(*ast.IfStmt); ok && ifs.Else == nil && ifs.Init == nil && terminates(ifs.Body) && atLeast2(ifs.Cond, false) {
						continue // the length guard in its early-exit form
					}
					if leaves(st) {
						other = "an earlier statement can leave the iteration before the store (" + rep.Prog.Pos(st.Pos()) + ")"
					}
				}
			}
		}
		r4.Check(other == "", name+":only-guard", storeStmt.Pos(), "nothing but the length test decides whether an entry is stored",
			other+": entries of the shipped file that the built-in table has are dropped (or kept) on a condition the file format does not know, so the two models no longer agree")
	}
	// absent file => nil, and before any table replacement
	fn := rep.Prog.Func("ipfix", loader.Name.Name)
	absentOK := false
	if fn != nil {
		for _, b := range fn.Blocks {
			for _, ins := range b.Instrs {
				if core.IsCallTo(ins, "os.IsNotExist") {
					absentOK = true
				}
			}
		}
	}
	r4.Check(absentOK, name+":absent", loader.Pos(), "os.IsNotExist tested", "loader does not treat an absent file as 'keep the built-in table'")
	// invoked from IPFIX start-up with opts.VFlowConfigPath
	called := 0
	if fn != nil {
		for _, cs := range rep.Prog.CG().In[fn] {
			if core.PkgRel(cs.Caller) != "vflow" {
				continue
			}
			called++
			arg := cs.Instr.Common().Args[0]
			okArg := false
			if fld := fieldLoadName(arg); fld == "VFlowConfigPath" {
				okArg = true
			}
			r4.Check(okArg, "call:"+core.FuncName(cs.Caller)+"->"+name, cs.Instr.Pos(), "argument is Options.VFlowConfigPath", "loader not called with the configured directory")
			// the table is replaced before any datagram is read: a synchronous call in the function that owns the receive
			// loop, before that loop (not in a goroutine, not in a closure)
			sync := cs.Caller.Parent() == nil
			if _, isGo := cs.Instr.(*ssa.Go); isGo {
				sync = false
			}
			before := false
			if sync {
				allInstrs(cs.Caller, func(ins ssa.Instruction) {
					if c, ok := ins.(*ssa.Call); ok && strings.HasSuffix(calleeName(c), ".ReadFromUDP") && core.InstrDominates(cs.Instr, c) {
						before = true
					}
				})
			}
			r4.Check(sync && before, "call:"+core.FuncName(cs.Caller)+"->"+name+":before-receive-loop", cs.Instr.Pos(), "synchronous, before the first socket read",
				"the loader does not run to completion before the receive loop starts (it is started in a goroutine/closure or after the loop): datagrams are decoded against an empty or half-filled table, and the unsynchronised replacement of the table races with the decoders")
		}
	}
	r4.Check(called >= 1, name+":invoked", loader.Pos(), fmt.Sprintf("%d call site(s) in package main", called), "loader is never invoked from the collector")
}

// checkModelKeys: every entry of the built-in information model is keyed by its own element id and no key occurs
// twice in the literal (Go accepts duplicate struct keys in a map literal; the later entry silently wins). The
// decoders report the FieldID of the entry found under (enterprise, element id), so a transposed key makes one
// element decode as another. Shared by C03, C06 and C20.
func checkModelKeys(rep *core.Report, rr *core.RuleRun) {
	pk := rep.Prog.Pkg("ipfix")
	if pk == nil {
		rr.Undecided("package:ipfix", token.NoPos, "package ipfix not found")
		return
	}
	e, mpos := varDeclValue(pk, "InfoModel")
	lit, ok := e.(*ast.CompositeLit)
	if !ok {
		rr.Undecided("var:ipfix.InfoModel", mpos, "built-in table is not a composite literal")
		return
	}
	info := pk.TypesInfo
	ftTbl, _, _ := fieldTypesTable(rep)
	seen := map[[2]int64]bool{}
	bad, n := 0, 0
	for _, el := range lit.Elts {
		kv, ok := el.(*ast.KeyValueExpr)
		if !ok {
			continue
		}
		klit, ok1 := kv.Key.(*ast.CompositeLit)
		vlit, ok2 := kv.Value.(*ast.CompositeLit)
		if !ok1 || !ok2 {
			continue
		}
		kf, vf := structLitFields(info, klit), structLitFields(info, vlit)
		pen, okp := constInt(info, kf["EnterpriseNo"])
		id, oki := constInt(info, kf["ElementID"])
		fid, okf := constInt(info, vf["FieldID"])
		if !okp || !oki || !okf {
			continue
		}
		n++
		key := fmt.Sprintf("InfoModel[%d,%d]", pen, id)
		if seen[[2]int64{pen, id}] {
			bad++
			rr.Fail(key+":dup", el.Pos(), fmt.Sprintf("the key (%d,%d) occurs twice in the built-in table: the later entry replaces the earlier one, so element %d is decoded as whatever the later row says", pen, id, id))
		}
		seen[[2]int64{pen, id}] = true
		if fid != id {
			bad++
			rr.Fail(key+":FieldID", el.Pos(), fmt.Sprintf("entry keyed by element id %d carries FieldID %d: records using element %d are reported under id %d", id, fid, id, fid))
		}
		// the entry's type is a name the type-name table knows: a misspelt name is a silent lookup miss, the element
		// becomes Unknown and its values come out as raw octets
		if len(ftTbl) > 0 {
			if t, isIdx := vf["Type"].(*ast.IndexExpr); isIdx {
				if o := objOf(info, t.X); o != nil && o.Name() == "FieldTypes" && o.Pkg() == pk.Types {
					if nm, ok := constString(info, t.Index); ok {
						if _, known := ftTbl[nm]; !known {
							bad++
							rr.Fail(key+":type", el.Pos(), fmt.Sprintf("type name %q of element %d is not a key of FieldTypes: the lookup silently yields Unknown and the element's values are published as raw octets instead of being interpreted", nm, id))
						}
					}
				}
			}
		}
	}
	if bad == 0 {
		rr.Check(n >= 300, "InfoModel:keys", mpos, fmt.Sprintf("%d entries, each keyed once by its own element id, each with a known type name", n), fmt.Sprintf("only %d constant entries found in the built-in table", n))
	}
}
