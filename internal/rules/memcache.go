package rules

import (
	"go/token"
	"go/types"
	"strings"

	"golang.org/x/tools/go/ssa"

	"verif/internal/core"
)

// tplCache bundles the semantic anchors of one template cache implementation.
type tplCache struct {
	rel       string
	pkgPath   string
	shardT    *types.Named // struct with a map field guarded by an embedded RWMutex
	mapField  int
	muField   int
	cacheT    *types.Named // slice of *shardT
	diskT     types.Type
	getShard  *ssa.Function
	insert    *ssa.Function
	retrieve  *ssa.Function
	dump      *ssa.Function
	load      *ssa.Function // GetCache
	touchers  []*ssa.Function
	marshal   *ssa.Call // json.Marshal in dump
	unmarshal *ssa.Call // json.Unmarshal in load
}

func findTplCache(prog *core.Program, rel string) *tplCache {
	c := &tplCache{rel: rel, pkgPath: core.ModPath + "/" + rel, mapField: -1, muField: -1}
	pk := prog.Pkg(rel)
	if pk == nil {
		return c
	}
	sc := pk.Types.Scope()
	for _, n := range sc.Names() {
		tn, ok := sc.Lookup(n).(*types.TypeName)
		if !ok {
			continue
		}
		named, _ := tn.Type().(*types.Named)
		if named == nil {
			continue
		}
		if st, ok := named.Underlying().(*types.Struct); ok {
			mi, ui := -1, -1
			for i := 0; i < st.NumFields(); i++ {
				if _, isMap := st.Field(i).Type().Underlying().(*types.Map); isMap {
					mi = i
				}
				if fn := namedOf(st.Field(i).Type()); fn != nil && fn.Obj().Pkg() != nil && fn.Obj().Pkg().Path() == "sync" && (fn.Obj().Name() == "RWMutex" || fn.Obj().Name() == "Mutex") {
					ui = i
				}
			}
			if mi >= 0 && ui >= 0 && st.NumFields() == 2 {
				c.shardT, c.mapField, c.muField = named, mi, ui
			}
		}
	}
	if c.shardT == nil {
		return c
	}
	for _, n := range sc.Names() {
		tn, ok := sc.Lookup(n).(*types.TypeName)
		if !ok {
			continue
		}
		named, _ := tn.Type().(*types.Named)
		if named == nil {
			continue
		}
		if sl, ok := named.Underlying().(*types.Slice); ok {
			if p, ok := sl.Elem().(*types.Pointer); ok && types.Identical(p.Elem(), c.shardT) {
				c.cacheT = named
			}
		}
	}
	seen := map[*ssa.Function]bool{}
	for _, fn := range prog.RepoFuncs() {
		allInstrs(fn, func(ins ssa.Instruction) {
			if fa, ok := ins.(*ssa.FieldAddr); ok && c.isMapFieldAddr(fa) && !seen[fn] {
				seen[fn] = true
				c.touchers = append(c.touchers, fn)
			}
			if call, ok := ins.(*ssa.Call); ok && core.PkgRel(fn) == rel {
				switch calleeName(call) {
				case "encoding/json.Marshal":
					if containsType(underIface(call.Common().Args[0]).Type(), c.shardT, map[types.Type]bool{}) {
						c.dump, c.marshal = fn, call
						c.diskT = underIface(call.Common().Args[0]).Type()
					}
				case "encoding/json.Unmarshal":
					if t := underIface(call.Common().Args[1]).Type(); containsType(t, c.shardT, map[types.Type]bool{}) {
						c.load, c.unmarshal = fn, call
					}
				}
			}
		})
		if core.PkgRel(fn) != rel {
			continue
		}
		res := fn.Signature.Results()
		if res.Len() == 2 {
			if p, ok := res.At(0).Type().(*types.Pointer); ok && types.Identical(p.Elem(), c.shardT) {
				c.getShard = fn
			}
		}
	}
	for _, fn := range c.touchers {
		allInstrs(fn, func(ins ssa.Instruction) {
			switch x := ins.(type) {
			case *ssa.MapUpdate:
				if c.isMapValue(x.Map) && fn != c.load {
					c.insert = fn
				}
			case *ssa.Lookup:
				if c.isMapValue(x.X) {
					c.retrieve = fn
				}
			}
		})
	}
	return c
}

func calleeName(c ssa.CallInstruction) string {
	if f := c.Common().StaticCallee(); f != nil {
		return f.String()
	}
	return ""
}

func (c *tplCache) isMapFieldAddr(fa *ssa.FieldAddr) bool {
	return fa.Field == c.mapField && types.Identical(core.Deref(fa.X.Type()), c.shardT)
}

// isMapValue: v is a load of the guarded map field; returns true.
func (c *tplCache) isMapValue(v ssa.Value) bool {
	_, ok := c.mapBase(v)
	return ok
}

// mapBase returns the shard pointer a map value was loaded from.
func (c *tplCache) mapBase(v ssa.Value) (ssa.Value, bool) {
	u, ok := v.(*ssa.UnOp)
	if !ok || u.Op != token.MUL {
		return nil, false
	}
	fa, ok := u.X.(*ssa.FieldAddr)
	if !ok || !c.isMapFieldAddr(fa) {
		return nil, false
	}
	return fa.X, true
}

// containsType reports whether t transitively contains target (through pointers, slices, arrays, maps, structs).
func containsType(t, target types.Type, seen map[types.Type]bool) bool {
	if t == nil || seen[t] {
		return false
	}
	seen[t] = true
	if types.Identical(t, target) {
		return true
	}
	switch u := t.Underlying().(type) {
	case *types.Pointer:
		return containsType(u.Elem(), target, seen)
	case *types.Slice:
		return containsType(u.Elem(), target, seen)
	case *types.Array:
		return containsType(u.Elem(), target, seen)
	case *types.Map:
		return containsType(u.Key(), target, seen) || containsType(u.Elem(), target, seen)
	case *types.Struct:
		for i := 0; i < u.NumFields(); i++ {
			if containsType(u.Field(i).Type(), target, seen) {
				return true
			}
		}
	}
	return false
}

// reachableFromAPI: fn is reachable from main, an init, or an exported function/method of a non-main
// package (tests excluded: the program is loaded without test files).
func reachableFromAPI(prog *core.Program, fn *ssa.Function) bool {
	cg := prog.CG()
	seen := map[*ssa.Function]bool{}
	var up func(f *ssa.Function) bool
	up = func(f *ssa.Function) bool {
		if seen[f] {
			return false
		}
		seen[f] = true
		root := f
		for root.Parent() != nil {
			root = root.Parent()
		}
		if root.Name() == "main" || root.Name() == "init" || strings.HasPrefix(root.Name(), "init#") {
			return true
		}
		if obj := root.Object(); obj != nil && obj.Exported() {
			if recv := root.Signature.Recv(); recv == nil {
				return true
			} else if n := namedOf(recv.Type()); n != nil && n.Obj().Exported() {
				return true
			}
		}
		if f != root {
			// closure: reachable if its parent is
			if up(root) {
				return true
			}
		}
		for _, cs := range cg.In[f] {
			if up(cs.Caller) {
				return true
			}
		}
		return false
	}
	return up(fn)
}

// ---- lockset (must-held) analysis ----

type lockFact struct {
	base ssa.Value // shard pointer, or the container when all==true
	all  bool
	w    bool
}

type lockState map[lockFact]bool

func (s lockState) clone() lockState {
	n := lockState{}
	for k := range s {
		n[k] = true
	}
	return n
}

func meetLock(a, b lockState) lockState {
	n := lockState{}
	for k := range a {
		if b[k] {
			n[k] = true
		}
	}
	return n
}

func equalLock(a, b lockState) bool {
	if len(a) != len(b) {
		return false
	}
	for k := range a {
		if !b[k] {
			return false
		}
	}
	return true
}

// lockOp decodes a call on the shard's mutex: returns base, op ("Lock","RLock","Unlock","RUnlock").
func (c *tplCache) lockOp(ins ssa.Instruction) (base ssa.Value, op string, deferred bool, ok bool) {
	var com *ssa.CallCommon
	switch x := ins.(type) {
	case *ssa.Call:
		com = x.Common()
	case *ssa.Defer:
		com = x.Common()
		deferred = true
	default:
		return nil, "", false, false
	}
	f := com.StaticCallee()
	if f == nil || f.Pkg == nil || f.Pkg.Pkg.Path() != "sync" || len(com.Args) == 0 {
		return nil, "", false, false
	}
	switch f.Name() {
	case "Lock", "RLock", "Unlock", "RUnlock":
	default:
		return nil, "", false, false
	}
	fa, isFA := com.Args[0].(*ssa.FieldAddr)
	if !isFA || fa.Field != c.muField || !types.Identical(core.Deref(fa.X.Type()), c.shardT) {
		return nil, "", false, false
	}
	return fa.X, f.Name(), deferred, true
}

// allLoop recognises `for _, s := range container { s.<op>() }`: a natural loop whose body applies op
// unconditionally to the element of container at the loop's own index. Returns container and op.
func (c *tplCache) allLoop(fn *ssa.Function, l *core.Loop) (container ssa.Value, op string, ok bool) {
	var opIns ssa.Instruction
	n := 0
	for b := range l.Blocks {
		for _, ins := range b.Instrs {
			if _, o, _, isOp := c.lockOp(ins); isOp {
				n++
				opIns = ins
				op = o
			}
		}
	}
	if n != 1 {
		return nil, "", false
	}
	base, _, deferred, _ := c.lockOp(opIns)
	if deferred {
		return nil, "", false
	}
	// base = load of &container[idx] with idx the range index of this loop
	ld, isLd := base.(*ssa.UnOp)
	if !isLd || ld.Op != token.MUL {
		return nil, "", false
	}
	ia, isIA := ld.X.(*ssa.IndexAddr)
	if !isIA {
		return nil, "", false
	}
	// the op's block must dominate every latch (executed on every iteration)
	for _, latch := range l.Latch {
		if !opIns.Block().Dominates(latch) {
			return nil, "", false
		}
	}
	// index: phi(-1, +1) bounded by len(container) or phi(0,+1) < len(container)
	idxOK := false
	var phi *ssa.Phi
	switch x := ia.Index.(type) {
	case *ssa.BinOp: // rangeindex: t31 = t30 + 1
		if p, ok := x.X.(*ssa.Phi); ok && x.Op == token.ADD {
			phi = p
		}
	case *ssa.Phi:
		phi = x
	}
	if phi != nil && phi.Block() == l.Header && indexCoversAll(phi, l, ia.X) {
		idxOK = true
	}
	if !idxOK {
		return nil, "", false
	}
	return ia.X, op, true
}

// indexCoversAll: the loop counter phi visits every index of container: a range loop (-1, +1, next < len), an ascending
// loop (0, +1, i < len) or a descending one (len-1, -1, i >= 0). A loop that starts at 1 or stops before 0 leaves a
// shard out (its lock is then never taken, or never released).
func indexCoversAll(phi *ssa.Phi, l *core.Loop, container ssa.Value) bool {
	isLen := func(v ssa.Value) bool {
		c, ok := stripConv(v).(*ssa.Call)
		if !ok {
			return false
		}
		b, ok := c.Common().Value.(*ssa.Builtin)
		return ok && b.Name() == "len" && len(c.Common().Args) == 1 && c.Common().Args[0] == container
	}
	var init, step ssa.Value
	for i, e := range phi.Edges {
		if l.Blocks[phi.Block().Preds[i]] {
			step = e
		} else {
			init = e
		}
	}
	sb, ok := step.(*ssa.BinOp)
	if !ok || init == nil {
		return false
	}
	one := func(v ssa.Value) bool { c, ok := ssaConstInt(v); return ok && c == 1 }
	// exit test in the header
	ifi, ok := phi.Block().Instrs[len(phi.Block().Instrs)-1].(*ssa.If)
	if !ok {
		return false
	}
	cond, ok := ifi.Cond.(*ssa.BinOp)
	if !ok {
		return false
	}
	bodyOnTrue := l.Blocks[phi.Block().Succs[0]]
	if !bodyOnTrue {
		return false
	}
	c0, isC := ssaConstInt(init)
	switch {
	case sb.Op == token.ADD && sb.X == ssa.Value(phi) && one(sb.Y) && isC && c0 == -1:
		// range form: next = phi+1; next < len
		return cond.Op == token.LSS && cond.X == ssa.Value(sb) && isLen(cond.Y)
	case sb.Op == token.ADD && sb.X == ssa.Value(phi) && one(sb.Y) && isC && c0 == 0:
		return (cond.Op == token.LSS || cond.Op == token.NEQ) && cond.X == ssa.Value(phi) && isLen(cond.Y)
	case sb.Op == token.SUB && sb.X == ssa.Value(phi) && one(sb.Y):
		ib, ok := init.(*ssa.BinOp)
		if !ok || ib.Op != token.SUB || !isLen(ib.X) || !one(ib.Y) {
			return false
		}
		if k, ok := ssaConstInt(cond.Y); ok && cond.X == ssa.Value(phi) {
			return (cond.Op == token.GEQ && k == 0) || (cond.Op == token.GTR && k == -1)
		}
	}
	return false
}

// lockAnalysis computes, per instruction, the set of locks that must be held before it executes.
func (c *tplCache) lockAnalysis(fn *ssa.Function) map[ssa.Instruction]lockState {
	out := map[ssa.Instruction]lockState{}
	if len(fn.Blocks) == 0 {
		return out
	}
	loops := core.NaturalLoops(fn)
	type loopInfo struct {
		l         *core.Loop
		container ssa.Value
		op        string
	}
	var alls []loopInfo
	for _, l := range loops {
		if cont, op, ok := c.allLoop(fn, l); ok {
			alls = append(alls, loopInfo{l, cont, op})
		}
	}
	in := make([]lockState, len(fn.Blocks))
	in[0] = lockState{}
	work := []*ssa.BasicBlock{fn.Blocks[0]}
	transfer := func(b *ssa.BasicBlock, st lockState, record bool) lockState {
		s := st.clone()
		for _, ins := range b.Instrs {
			if record {
				out[ins] = s.clone()
			}
			base, op, deferred, ok := c.lockOp(ins)
			if !ok || deferred {
				continue
			}
			inAll := false
			for _, a := range alls {
				if a.l.Blocks[b] {
					inAll = true
				}
			}
			if inAll {
				continue // handled on loop exit
			}
			switch op {
			case "Lock":
				s[lockFact{base: base, w: true}] = true
			case "RLock":
				s[lockFact{base: base}] = true
			case "Unlock":
				delete(s, lockFact{base: base, w: true})
			case "RUnlock":
				delete(s, lockFact{base: base})
			}
		}
		return s
	}
	edgeEffect := func(from, to *ssa.BasicBlock, s lockState) lockState {
		for _, a := range alls {
			if a.l.Blocks[from] && !a.l.Blocks[to] && from == a.l.Header {
				// normal exit of an all-loop (from its header when the range is exhausted)
				s = s.clone()
				switch a.op {
				case "Lock":
					s[lockFact{base: a.container, all: true, w: true}] = true
				case "RLock":
					s[lockFact{base: a.container, all: true}] = true
				case "Unlock":
					delete(s, lockFact{base: a.container, all: true, w: true})
				case "RUnlock":
					delete(s, lockFact{base: a.container, all: true})
				}
			}
		}
		return s
	}
	for len(work) > 0 {
		b := work[0]
		work = work[1:]
		o := transfer(b, in[b.Index], false)
		for _, s := range b.Succs {
			e := edgeEffect(b, s, o)
			if in[s.Index] == nil {
				in[s.Index] = e.clone()
				work = append(work, s)
			} else {
				m := meetLock(in[s.Index], e)
				if !equalLock(m, in[s.Index]) {
					in[s.Index] = m
					work = append(work, s)
				}
			}
		}
	}
	for _, b := range fn.Blocks {
		if in[b.Index] != nil {
			transfer(b, in[b.Index], true)
		}
	}
	return out
}

func (s lockState) holds(base ssa.Value, needW bool) bool {
	if s[lockFact{base: base, w: true}] {
		return true
	}
	if !needW && s[lockFact{base: base}] {
		return true
	}
	return false
}

func (s lockState) holdsAll(needW bool) (ssa.Value, bool) {
	for k := range s {
		if k.all && (k.w || !needW) {
			return k.base, true
		}
	}
	return nil, false
}

// isLocalFresh: the address chain of v (loads, element and field addressing) ends in an object
// allocated in this function (make/new/composite literal), i.e. one not yet published.
func isLocalFresh(v ssa.Value) bool {
	for i := 0; i < 12; i++ {
		switch x := v.(type) {
		case *ssa.MakeSlice, *ssa.MakeMap:
			return true
		case *ssa.Alloc:
			return true
		case *ssa.IndexAddr:
			v = x.X
		case *ssa.FieldAddr:
			v = x.X
		case *ssa.Slice:
			v = x.X
		case *ssa.UnOp:
			if x.Op != token.MUL {
				return false
			}
			if a, ok := x.X.(*ssa.Alloc); ok {
				// a local variable: every value stored into it must be fresh
				st := core.StoresTo(a)
				if len(st) == 0 {
					return true
				}
				for _, sv := range st {
					if !isLocalFresh(sv) {
						return false
					}
				}
				return true
			}
			v = x.X
		default:
			return false
		}
	}
	return false
}
