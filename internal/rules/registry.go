// Package rules holds the repository-specific static rules, one file per property.
package rules

import (
	"go/ast"
	"go/constant"
	"go/token"
	"go/types"

	"golang.org/x/tools/go/packages"

	"verif/internal/core"
)

// Registry maps property ids to their check.
var Registry = map[string]func(*core.Report){}

func register(id string, f func(*core.Report)) { Registry[id] = f }

// ---------- AST/type helpers shared by TABLE rules ----------

// structLitFields maps field name -> expression for a struct composite literal (positional or keyed).
func structLitFields(info *types.Info, lit *ast.CompositeLit) map[string]ast.Expr {
	out := map[string]ast.Expr{}
	tv, ok := info.Types[lit]
	if !ok {
		return out
	}
	st, ok := tv.Type.Underlying().(*types.Struct)
	if !ok {
		return out
	}
	for i, el := range lit.Elts {
		if kv, ok := el.(*ast.KeyValueExpr); ok {
			if id, ok := kv.Key.(*ast.Ident); ok {
				out[id.Name] = kv.Value
			}
		} else if i < st.NumFields() {
			out[st.Field(i).Name()] = el
		}
	}
	return out
}

// constOf returns the constant value of an expression, if the type checker computed one.
func constOf(info *types.Info, e ast.Expr) constant.Value {
	if tv, ok := info.Types[e]; ok {
		return tv.Value
	}
	return nil
}

func constInt(info *types.Info, e ast.Expr) (int64, bool) {
	v := constOf(info, e)
	if v == nil || v.Kind() != constant.Int {
		return 0, false
	}
	return constant.Int64Val(v)
}

func constString(info *types.Info, e ast.Expr) (string, bool) {
	v := constOf(info, e)
	if v == nil || v.Kind() != constant.String {
		return "", false
	}
	return constant.StringVal(v), true
}

// varDeclValue finds the initialiser expression of package-level variable `name`.
func varDeclValue(pk *packages.Package, name string) (ast.Expr, token.Pos) {
	for _, f := range pk.Syntax {
		for _, d := range f.Decls {
			gd, ok := d.(*ast.GenDecl)
			if !ok || gd.Tok != token.VAR {
				continue
			}
			for _, sp := range gd.Specs {
				vs := sp.(*ast.ValueSpec)
				for i, n := range vs.Names {
					if n.Name == name && i < len(vs.Values) {
						return vs.Values[i], n.Pos()
					}
				}
			}
		}
	}
	return nil, token.NoPos
}

// funcDecl finds a function or method declaration: recv "" for functions, else receiver type name.
func funcDecl(pk *packages.Package, recv, name string) *ast.FuncDecl {
	for _, f := range pk.Syntax {
		for _, d := range f.Decls {
			fd, ok := d.(*ast.FuncDecl)
			if !ok || fd.Name.Name != name {
				continue
			}
			if recv == "" && fd.Recv == nil {
				return fd
			}
			if recv != "" && fd.Recv != nil && len(fd.Recv.List) == 1 {
				t := fd.Recv.List[0].Type
				if s, ok := t.(*ast.StarExpr); ok {
					t = s.X
				}
				if id, ok := t.(*ast.Ident); ok && id.Name == recv {
					return fd
				}
			}
		}
	}
	return nil
}

// objOf resolves an identifier expression to its object.
func objOf(info *types.Info, e ast.Expr) types.Object {
	switch x := e.(type) {
	case *ast.Ident:
		if o := info.Uses[x]; o != nil {
			return o
		}
		return info.Defs[x]
	case *ast.ParenExpr:
		return objOf(info, x.X)
	case *ast.SelectorExpr:
		return info.Uses[x.Sel]
	}
	return nil
}
