package rules

import (
	"fmt"
	"go/types"
	"sort"
	"strings"

	"golang.org/x/tools/go/ssa"

	"verif/internal/core"
	"verif/internal/obl"
)

// oblConfig builds the analysis configuration shared by the properties that use the OBL engine.
func oblConfig(prog *core.Program) obl.Config {
	pools := findPools(prog)
	poolOK := map[*ssa.Global]bool{}
	// pool uniformity (R12.7) evaluated silently: every Put uses the New size field
	for g, pi := range pools {
		ok := pi.newField != nil
		for _, fn := range prog.RepoFuncs() {
			allInstrs(fn, func(ins ssa.Instruction) {
				call, isCall := ins.(*ssa.Call)
				if !isCall {
					return
				}
				pg, op := poolOf(call)
				if pg != g || op != "Put" {
					return
				}
				v := underIface(call.Common().Args[1])
				sl, isSlice := v.(*ssa.Slice)
				if !isSlice || sl.Low != nil || sl.High == nil {
					ok = false
					return
				}
				if _, f := fieldLoad(sl.High); f == nil || f != pi.newField {
					ok = false
				}
			})
		}
		poolOK[g] = ok
	}
	cg := prog.CG()
	siteTargets := map[ssa.CallInstruction][]*ssa.Function{}
	for _, sites := range cg.Sites {
		for _, cs := range sites {
			var ts []*ssa.Function
			for _, t := range cs.Targets {
				if prog.IsRepoFunc(t) {
					ts = append(ts, t)
				}
			}
			siteTargets[cs.Instr] = ts
		}
	}
	// package-level variables written only by their package initialiser
	type ginfo struct {
		stores  int
		nonInit int
		nonnil  bool
		cval    int64
		isConst bool
	}
	globals := map[*ssa.Global]*ginfo{}
	for _, fn := range prog.RepoFuncs() {
		allInstrs(fn, func(ins ssa.Instruction) {
			st, ok := ins.(*ssa.Store)
			if !ok {
				return
			}
			g, isG := st.Addr.(*ssa.Global)
			if !isG {
				return
			}
			gi := globals[g]
			if gi == nil {
				gi = &ginfo{nonnil: true}
				globals[g] = gi
			}
			gi.stores++
			if !(fn.Name() == "init" && fn.Synthetic != "") {
				gi.nonInit++
			}
			switch v := st.Val.(type) {
			case *ssa.Call:
				if n := calleeName(v); n != "errors.New" && n != "fmt.Errorf" {
					gi.nonnil = false
				}
			case *ssa.Alloc, *ssa.MakeMap, *ssa.MakeChan, *ssa.MakeSlice, *ssa.MakeInterface:
			default:
				gi.nonnil = false
			}
			if c, ok := ssaConstInt(st.Val); ok {
				gi.cval, gi.isConst = c, true
			}
		})
	}
	return obl.Config{
		GlobalNonNil: func(g *ssa.Global) bool {
			gi := globals[g]
			return gi != nil && gi.stores == 1 && gi.nonInit == 0 && gi.nonnil
		},
		GlobalConst: func(g *ssa.Global) (int64, bool) {
			gi := globals[g]
			if gi != nil && gi.stores == 1 && gi.nonInit == 0 && gi.isConst {
				return gi.cval, true
			}
			return 0, false
		},
		IsRepo: prog.IsRepoFunc,
		ConfigField: func(owner types.Type, f *types.Var) bool {
			return typeIs(owner, core.ModPath+"/vflow", "Options")
		},
		PoolOK:  func(g *ssa.Global) bool { return poolOK[g] },
		Resolve: func(site ssa.CallInstruction) []*ssa.Function { return siteTargets[site] },
	}
}

// reportObligations turns the analyser's obligations into rule instances. `filter` selects the
// obligations a rule is responsible for; assumed maps construct keys to reviewed reasons.
func reportObligations(rep *core.Report, rr *core.RuleRun, an *obl.Analyzer, filter func(*obl.Obligation) bool, assumed map[string]string) (total, open int) {
	seen := map[string]bool{}
	for _, o := range an.Obligations() {
		if filter != nil && !filter(o) {
			continue
		}
		key := o.Key(core.FuncName)
		if seen[key] {
			// same construct recorded from another instruction (e.g. inlined copies): merge verdicts conservatively
			if o.Failed > 0 && o.Assumed == "" {
				rr.Fail(key+"#2", o.Pos, o.Why)
				open++
			}
			continue
		}
		seen[key] = true
		total++
		switch {
		case o.Failed == 0 && o.Assumed == "":
			rr.OK(key, o.Pos, fmt.Sprintf("proved in %d context(s)", o.Contexts))
		case o.Failed == 0 && o.Assumed != "":
			rr.OK(key, o.Pos, "discharged by: "+o.Assumed)
			rep.Assume(o.Assumed)
		default:
			if reason, ok := assumed[key]; ok {
				rr.OK(key, o.Pos, "reviewed assumption: "+reason)
				rep.Assume("reviewed assumption for " + key + ": " + reason)
				continue
			}
			open++
			rr.Fail(key, o.Pos, fmt.Sprintf("%s not discharged in %d of %d context(s): %s", kindName(o.Kind), o.Failed, o.Contexts, o.Why))
		}
	}
	return total, open
}

func kindName(k string) string {
	return map[string]string{"K1": "index/slice bounds", "K2": "nil dereference", "K3": "type assertion", "K4": "division by zero", "K5": "allocation size", "K6": "process exit / explicit panic",
		"K7": "precondition of a library call", "K10": "shift count", "K11": "bounded call depth"}[k]
}

// externSummary lists the non-repository callees the analysis met, for the evidence.
func externSummary(an *obl.Analyzer) (all []string, unknown []string) {
	for n, c := range an.Externs {
		all = append(all, fmt.Sprintf("%s x%d", n, c))
	}
	for n := range an.Unknown {
		unknown = append(unknown, n)
	}
	sort.Strings(all)
	sort.Strings(unknown)
	return
}

func inPkgs(fn *ssa.Function, rels ...string) bool {
	r := core.PkgRel(fn)
	for _, x := range rels {
		if r == x {
			return true
		}
	}
	return false
}

var _ = strings.Contains
