package rules

import (
	"fmt"
	"go/token"
	"go/types"
	"sort"
	"strings"

	"golang.org/x/tools/go/ssa"

	"verif/internal/core"
	"verif/internal/obl"
)

// oblConfig builds the analysis configuration shared by the properties that use the OBL engine.
func oblConfig(prog *core.Program) obl.Config {
	pools := findPools(prog)
	poolOK := map[*ssa.Global]bool{}
	// pool uniformity (R12.7) evaluated silently: every Put uses the New size field
	for g, pi := range pools {
		ok := pi.newField != nil
		for _, fn := range prog.RepoFuncs() {
			allInstrs(fn, func(ins ssa.Instruction) {
				call, isCall := ins.(*ssa.Call)
				if !isCall {
					return
				}
				pg, op := poolOf(call)
				if pg != g || op != "Put" {
					return
				}
				v := underIface(call.Common().Args[1])
				sl, isSlice := v.(*ssa.Slice)
				if !isSlice || sl.Low != nil || sl.High == nil {
					ok = false
					return
				}
				if _, f := fieldLoad(sl.High); f == nil || f != pi.newField {
					ok = false
				}
			})
		}
		poolOK[g] = ok
	}
	cg := prog.CG()
	siteTargets := map[ssa.CallInstruction][]*ssa.Function{}
	for _, sites := range cg.Sites {
		for _, cs := range sites {
			var ts []*ssa.Function
			for _, t := range cs.Targets {
				if prog.IsRepoFunc(t) {
					ts = append(ts, t)
				}
			}
			siteTargets[cs.Instr] = ts
		}
	}
	// package-level variables written only by their package initialiser
	type ginfo struct {
		stores  int
		nonInit int
		nonnil  bool
		cval    int64
		isConst bool
	}
	globals := map[*ssa.Global]*ginfo{}
	for _, fn := range prog.RepoFuncs() {
		allInstrs(fn, func(ins ssa.Instruction) {
			st, ok := ins.(*ssa.Store)
			if !ok {
				return
			}
			g, isG := st.Addr.(*ssa.Global)
			if !isG {
				return
			}
			gi := globals[g]
			if gi == nil {
				gi = &ginfo{nonnil: true}
				globals[g] = gi
			}
			gi.stores++
			if !(fn.Name() == "init" && fn.Synthetic != "") {
				gi.nonInit++
			}
			switch v := st.Val.(type) {
			case *ssa.Call:
				if n := calleeName(v); n != "errors.New" && n != "fmt.Errorf" {
					gi.nonnil = false
				}
			case *ssa.Alloc, *ssa.MakeMap, *ssa.MakeChan, *ssa.MakeSlice, *ssa.MakeInterface:
			default:
				gi.nonnil = false
			}
			if c, ok := ssaConstInt(st.Val); ok {
				gi.cval, gi.isConst = c, true
			}
		})
	}
	// the template-cache shape invariant (rule R11.4) decides what may be assumed about cache values
	type cacheInv struct {
		cacheT, shardT types.Type
		mapField       int
		n              int64
		ok             bool
	}
	var invs []cacheInv
	for _, rel := range []string{"ipfix", "netflow/v9"} {
		c := findTplCache(prog, rel)
		if c.cacheT == nil || c.load == nil {
			continue
		}
		tmp := core.NewReport("tmp", "quick", 0, prog, "")
		tmp.Quiet = true
		checkConstructorShape(prog, tmp.Rule("R11.4", "", 0), c)
		inv := cacheInv{cacheT: c.cacheT, shardT: c.shardT, mapField: c.mapField, ok: len(tmp.Violations()) == 0}
		if g := prog.SSAPackage(rel).Var("shardNo"); g != nil {
			if gi := globals[g]; gi != nil && gi.stores == 1 && gi.nonInit == 0 && gi.isConst {
				inv.n = gi.cval
			} else {
				inv.ok = false
			}
		}
		invs = append(invs, inv)
	}
	// package variables of package main assigned once, in main, from a constructor: set before any pipeline starts
	setOnceInMain := func(g *ssa.Global) bool {
		gi := globals[g]
		if gi == nil || gi.stores != 1 {
			return false
		}
		okv := false
		for _, fn := range prog.RepoFuncs() {
			allInstrs(fn, func(ins ssa.Instruction) {
				if st, ok := ins.(*ssa.Store); ok && st.Addr == ssa.Value(g) && fn.Name() == "main" {
					if call, ok := st.Val.(*ssa.Call); ok {
						if f := call.Common().StaticCallee(); f != nil && prog.IsRepoFunc(f) && alwaysFresh(prog, f, 0) {
							okv = true
						}
					}
					if ld, ok := st.Val.(*ssa.UnOp); ok {
						// logger = opts.Logger: a field of the options set by the defaults constructor
						if _, fld := fieldLoad(ld); fld != nil && fld.Name() == "Logger" {
							okv = true
						}
					}
				}
			})
		}
		return okv
	}
	srcAddr := sourceAddrFields(prog)
	return obl.Config{
		SliceInvariant: func(t types.Type) (int64, bool, bool) {
			for _, inv := range invs {
				if inv.ok && types.Identical(t, inv.cacheT) {
					return inv.n, true, true
				}
			}
			return 0, false, false
		},
		FieldNonNil: func(owner types.Type, idx int) bool {
			for _, inv := range invs {
				if inv.ok && types.Identical(owner, inv.shardT) && idx == inv.mapField {
					return true
				}
			}
			for _, sa := range srcAddr {
				if types.Identical(owner, sa.owner) && idx == sa.idx {
					return true
				}
			}
			return false
		},
		GlobalNonNil: func(g *ssa.Global) bool {
			gi := globals[g]
			if gi != nil && gi.stores == 1 && gi.nonInit == 0 && gi.nonnil {
				return true
			}
			return setOnceInMain(g)
		},
		GlobalConst: func(g *ssa.Global) (int64, bool) {
			gi := globals[g]
			if gi != nil && gi.stores == 1 && gi.nonInit == 0 && gi.isConst {
				return gi.cval, true
			}
			return 0, false
		},
		IsRepo: prog.IsRepoFunc,
		ConfigField: func(owner types.Type, f *types.Var) bool {
			return typeIs(owner, core.ModPath+"/vflow", "Options")
		},
		PoolOK:  func(g *ssa.Global) bool { return poolOK[g] },
		Resolve: func(site ssa.CallInstruction) []*ssa.Function { return siteTargets[site] },
	}
}

// reportObligations turns the analyser's obligations into rule instances. `filter` selects the
// obligations a rule is responsible for; assumed maps construct keys to reviewed reasons.
func reportObligations(rep *core.Report, rr *core.RuleRun, an *obl.Analyzer, filter func(*obl.Obligation) bool, assumed map[string]string) (total, open int) {
	seen := map[string]bool{}
	for _, o := range an.Obligations() {
		if filter != nil && !filter(o) {
			continue
		}
		key := o.Key(core.FuncName)
		if seen[key] {
			// same construct recorded from another instruction (e.g. inlined copies): merge verdicts conservatively
			if o.Failed > 0 && o.Assumed == "" {
				rr.Fail(key+"#2", o.Pos, o.Why)
				open++
			}
			continue
		}
		seen[key] = true
		total++
		switch {
		case o.Failed == 0 && o.Assumed == "":
			rr.OK(key, o.Pos, fmt.Sprintf("proved in %d context(s)", o.Contexts))
		case o.Failed == 0 && o.Assumed != "":
			rr.OK(key, o.Pos, "discharged by: "+o.Assumed)
			rep.Assume(o.Assumed)
		default:
			if reason, ok := lookupAssumed(assumed, key); ok {
				rr.OK(key, o.Pos, "reviewed assumption: "+reason)
				rep.Assume("reviewed assumption for " + key + ": " + reason)
				continue
			}
			open++
			rr.Fail(key, o.Pos, fmt.Sprintf("%s not discharged in %d of %d context(s): %s", kindName(o.Kind), o.Failed, o.Contexts, o.Why))
		}
	}
	return total, open
}

func kindName(k string) string {
	return map[string]string{"K1": "index/slice bounds", "K2": "nil dereference", "K3": "type assertion", "K4": "division by zero", "K5": "make size valid", "K6": "process exit / explicit panic",
		"K7": "precondition of a library call", "K10": "shift count", "K11": "bounded call depth", "K12": "allocation size bounded"}[k]
}

// externSummary lists the non-repository callees the analysis met, for the evidence.
func externSummary(an *obl.Analyzer) (all []string, unknown []string) {
	for n, c := range an.Externs {
		all = append(all, fmt.Sprintf("%s x%d", n, c))
	}
	for n := range an.Unknown {
		unknown = append(unknown, n)
	}
	sort.Strings(all)
	sort.Strings(unknown)
	return
}

func inPkgs(fn *ssa.Function, rels ...string) bool {
	r := core.PkgRel(fn)
	for _, x := range rels {
		if r == x {
			return true
		}
	}
	return false
}

var _ = strings.Contains

// alwaysFresh: every return of fn yields a freshly allocated object (directly or through such a function).
func alwaysFresh(prog *core.Program, fn *ssa.Function, depth int) bool {
	if depth > 4 {
		return false
	}
	ok, n := true, 0
	allInstrs(fn, func(ins ssa.Instruction) {
		r, isRet := ins.(*ssa.Return)
		if !isRet || len(r.Results) != 1 {
			return
		}
		n++
		switch v := r.Results[0].(type) {
		case *ssa.Alloc:
		case *ssa.Call:
			if f := v.Common().StaticCallee(); f == nil || !prog.IsRepoFunc(f) || !alwaysFresh(prog, f, depth+1) {
				ok = false
			}
		default:
			ok = false
		}
	})
	return ok && n > 0
}

type ownerField struct {
	owner types.Type
	idx   int
}

// sourceAddrFields: struct fields of type *net.UDPAddr (the datagram's source address in the queued message types)
// that are only ever filled from the address result of a (*net.UDPConn).ReadFromUDP call on its nil-error path, or
// copied from the same field of another message. Loads of such a field yield a non-nil address (ReadFromUDP returns
// a non-nil address together with a nil error); an explicitly zero message is not covered by the hook.
func sourceAddrFields(prog *core.Program) []ownerField {
	type cand struct {
		of  ownerField
		ok  bool
		n   int
		why string
	}
	cands := map[string]*cand{}
	keyOf := func(t types.Type, i int) string { return fmt.Sprintf("%s#%d", t.String(), i) }
	var fromRead func(v ssa.Value, at *ssa.BasicBlock, owner types.Type, idx int, seen map[ssa.Value]bool) bool
	fromRead = func(v ssa.Value, at *ssa.BasicBlock, owner types.Type, idx int, seen map[ssa.Value]bool) bool {
		if seen[v] {
			return true
		}
		seen[v] = true
		switch x := v.(type) {
		case *ssa.Extract:
			call, ok := x.Tuple.(*ssa.Call)
			if !ok || x.Index != 1 || calleeName(call) != "(*net.UDPConn).ReadFromUDP" {
				return false
			}
			errV := extractOf(call, 2)
			return errV != nil && blockDominatedByNilEdge(at, errV)
		case *ssa.Phi:
			for _, e := range x.Edges {
				if !fromRead(e, at, owner, idx, seen) {
					return false
				}
			}
			return true
		case *ssa.UnOp:
			if x.Op == token.MUL {
				if fa, ok := x.X.(*ssa.FieldAddr); ok && fa.Field == idx && types.Identical(core.Deref(fa.X.Type()), owner) {
					return true // copy of the same field of another message
				}
			}
		}
		return false
	}
	for _, fn := range prog.RepoFuncs() {
		allInstrs(fn, func(ins ssa.Instruction) {
			st, ok := ins.(*ssa.Store)
			if !ok {
				return
			}
			fa, ok := st.Addr.(*ssa.FieldAddr)
			if !ok || !typeIs(core.Deref(st.Val.Type()), "net", "UDPAddr") {
				return
			}
			owner := core.Deref(fa.X.Type())
			if !isUDPMsgType(owner) {
				return
			}
			k := keyOf(owner, fa.Field)
			c := cands[k]
			if c == nil {
				c = &cand{of: ownerField{owner, fa.Field}, ok: true}
				cands[k] = c
			}
			c.n++
			if !fromRead(st.Val, st.Block(), owner, fa.Field, map[ssa.Value]bool{}) {
				c.ok = false
			}
		})
	}
	var out []ownerField
	for _, c := range cands {
		if c.ok && c.n > 0 {
			out = append(out, c.of)
		}
	}
	return out
}

// blockDominatedByNilEdge: every path to b passes an If edge on which errV is nil.
func blockDominatedByNilEdge(b *ssa.BasicBlock, errV ssa.Value) bool {
	for cur := b; cur != nil; cur = cur.Idom() {
		id := cur.Idom()
		if id == nil {
			return false
		}
		for si, s := range id.Succs {
			if s != cur {
				continue
			}
			cond, truth, ok := core.IfEdge(id, si)
			if !ok {
				continue
			}
			if x, eqNil, ok := core.NilCompare(cond); ok && x == errV && eqNil == truth {
				// the nil edge must be the only way into cur
				if len(cur.Preds) == 1 {
					return true
				}
			}
		}
	}
	return false
}

// lookupAssumed finds a reviewed assumption for a construct key. Table keys may contain '*' (any text), so that an
// entry names the function, the obligation kind and the shape of the expression rather than local variable names.
func lookupAssumed(assumed map[string]string, key string) (string, bool) {
	if r, ok := assumed[key]; ok {
		return r, true
	}
	var pats []string
	for p := range assumed {
		if strings.Contains(p, "*") {
			pats = append(pats, p)
		}
	}
	sort.Strings(pats)
	for _, p := range pats {
		parts := strings.Split(p, "*")
		rest := key
		ok := strings.HasPrefix(rest, parts[0])
		if ok {
			rest = rest[len(parts[0]):]
			for i := 1; i < len(parts) && ok; i++ {
				if i == len(parts)-1 {
					ok = strings.HasSuffix(rest, parts[i])
					break
				}
				j := strings.Index(rest, parts[i])
				if j < 0 {
					ok = false
					break
				}
				rest = rest[j+len(parts[i]):]
			}
		}
		if ok {
			return assumed[p], true
		}
	}
	return "", false
}
