package rules

import (
	"fmt"
	"go/token"
	"go/types"
	"sort"
	"strings"

	"golang.org/x/tools/go/ssa"

	"verif/internal/core"
)

// ---------------------------------------------------------------------------------------------
// LAYOUT mode A: sequential readers. A function that fills a struct from a byte reader is walked
// along each of its success paths (error tests are followed on their nil side only); every consuming
// call advances a symbolic offset and is attributed to the destination it stores into.
// ---------------------------------------------------------------------------------------------

type layEvent struct {
	Kind  string // "read" (width octets into Dest), "skip", "set" (store of a computed value into Dest)
	Off   int    // offset from the start of the function's input; -1 once a variable-length part was passed
	Width int    // -1 = variable
	Dest  string // receiver field name, or "local:<n>" / "buf:<n>"
	Value string // for "set": printed expression
	Pos   token.Pos
	ins   ssa.Instruction
}

type layPath struct {
	Events []layEvent
	Guards []string
	OK     bool // ends in a success return
}

func (p layPath) reads() []layEvent {
	var out []layEvent
	for _, e := range p.Events {
		if e.Kind == "read" || e.Kind == "skip" {
			out = append(out, e)
		}
	}
	return out
}

func (p layPath) total() int {
	n := 0
	for _, e := range p.reads() {
		if e.Width < 0 {
			return -1
		}
		n += e.Width
	}
	return n
}

func (p layPath) String() string {
	var s []string
	for _, e := range p.Events {
		switch e.Kind {
		case "read":
			s = append(s, fmt.Sprintf("%s@%d/%d", e.Dest, e.Off, e.Width))
		case "skip":
			s = append(s, fmt.Sprintf("skip@%d/%d", e.Off, e.Width))
		case "set":
			s = append(s, fmt.Sprintf("%s:=%s", e.Dest, e.Value))
		}
	}
	g := ""
	if len(p.Guards) > 0 {
		g = " when " + strings.Join(p.Guards, " && ")
	}
	return strings.Join(s, " ") + g
}

func sizeofType(t types.Type) int {
	switch u := t.Underlying().(type) {
	case *types.Basic:
		switch u.Kind() {
		case types.Uint8, types.Int8, types.Bool:
			return 1
		case types.Uint16, types.Int16:
			return 2
		case types.Uint32, types.Int32, types.Float32:
			return 4
		case types.Uint64, types.Int64, types.Float64:
			return 8
		}
	case *types.Array:
		if n := sizeofType(u.Elem()); n > 0 {
			return n * int(u.Len())
		}
	}
	return -1
}

// destOfAddr names the destination an address designates relative to the receiver.
func destOfAddr(fn *ssa.Function, addr ssa.Value) string {
	switch x := addr.(type) {
	case *ssa.FieldAddr:
		_, f, _ := core.FieldOf(x)
		root := resolveLocal(core.AddrRoot(x))
		if len(fn.Params) > 0 && root == ssa.Value(fn.Params[0]) {
			if inner, ok := x.X.(*ssa.FieldAddr); ok {
				_, f0, _ := core.FieldOf(inner)
				return f0.Name() + "." + f.Name()
			}
			return f.Name()
		}
		if a, ok := root.(*ssa.Alloc); ok {
			// a local object is named after its type, not after the variable
			if n := namedOf(a.Type()); n != nil {
				return "obj:" + n.Obj().Name() + "." + f.Name()
			}
			return "obj:" + a.Comment + "." + f.Name()
		}
		return "?." + f.Name()
	case *ssa.Alloc:
		return "local:" + x.Comment
	}
	return "?"
}

// consume classifies an instruction as a consuming call: returns width, destination, ok.
func consumeOf(prog *core.Program, fn *ssa.Function, ins ssa.Instruction) (ev layEvent, ok bool) {
	c, isCall := ins.(*ssa.Call)
	if !isCall {
		return ev, false
	}
	com := c.Common()
	name := calleeName(c)
	readerPkg := core.ModPath + "/reader"
	switch {
	case strings.HasPrefix(name, "(*"+readerPkg+".Reader).Uint"):
		w := map[string]int{"Uint8": 1, "Uint16": 2, "Uint32": 4, "Uint64": 8}[com.StaticCallee().Name()]
		ev = layEvent{Kind: "read", Width: w, Dest: "?", Pos: c.Pos(), ins: c}
		if ex := extractOf(c, 0); ex != nil {
			for _, ref := range referrers(ex) {
				if st, ok := ref.(*ssa.Store); ok && st.Val == ssa.Value(ex) {
					ev.Dest = destOfAddr(fn, st.Addr)
				}
			}
			if ev.Dest == "?" {
				ev.Dest = "local:" + ex.Name()
			}
		}
		return ev, true
	case name == "(*"+readerPkg+".Reader).Read":
		ev = layEvent{Kind: "read", Width: -1, Dest: "bytes", Pos: c.Pos(), ins: c}
		if n, ok := ssaConstInt(com.Args[1]); ok {
			ev.Width = int(n)
		}
		return ev, true
	case name == "encoding/binary.Read" || (com.StaticCallee() != nil && prog.IsRepoFunc(com.StaticCallee()) && isBinaryReadWrapper(com.StaticCallee())):
		target := underIface(com.Args[len(com.Args)-1])
		ev = layEvent{Kind: "read", Width: -1, Dest: "?", Pos: c.Pos(), ins: c}
		if p, ok := target.Type().Underlying().(*types.Pointer); ok {
			if sl, isSlice := p.Elem().Underlying().(*types.Slice); isSlice {
				// *[]byte: width = current length of the slice stored in the variable
				_ = sl
				if a, ok := target.(*ssa.Alloc); ok {
					ev.Dest = "buf:" + a.Comment
					for _, sv := range core.StoresTo(a) {
						if n, ok := sliceConstLen(sv); ok {
							ev.Width = n
						}
					}
				}
			} else {
				ev.Width = sizeofType(p.Elem())
				ev.Dest = destOfAddr(fn, target)
			}
		}
		return ev, true
	}
	// io.Reader.Read(buf) on an interface
	if com.IsInvoke() && com.Method.Name() == "Read" && len(com.Args) == 1 {
		ev = layEvent{Kind: "read", Width: -1, Dest: "bytes", Pos: c.Pos(), ins: c}
		if n, ok := sliceConstLen(com.Args[0]); ok {
			ev.Width = n
		}
		// destination: the field the buffer was loaded from, or where it ends up
		if u, ok := com.Args[0].(*ssa.UnOp); ok && u.Op == token.MUL {
			if fa, ok := u.X.(*ssa.FieldAddr); ok {
				ev.Dest = destOfAddr(fn, fa)
			}
		} else if dst := bufferDest(fn, com.Args[0]); dst != "" {
			ev.Dest = dst
		}
		return ev, true
	}
	if off, isSeek := isSeekCur(ins); isSeek {
		ev = layEvent{Kind: "skip", Width: -1, Dest: "skip", Pos: c.Pos(), ins: c}
		if n, ok := ssaConstInt(stripConv(off)); ok {
			ev.Width = int(n)
		}
		return ev, true
	}
	return ev, false
}

func isBinaryReadWrapper(f *ssa.Function) bool {
	n := 0
	isW := false
	allInstrs(f, func(ins ssa.Instruction) {
		if c, ok := ins.(*ssa.Call); ok {
			n++
			if calleeName(c) == "encoding/binary.Read" {
				if g, ok := c.Common().Args[1].(*ssa.MakeInterface); ok {
					if u, ok := g.X.(*ssa.UnOp); ok {
						if gl, ok := u.X.(*ssa.Global); ok && gl.Name() == "BigEndian" {
							isW = true
						}
					}
					if gl, ok := g.X.(*ssa.Global); ok && gl.Name() == "BigEndian" {
						isW = true
					}
					if strings.Contains(g.X.Type().String(), "bigEndian") {
						isW = true
					}
				}
			}
		}
	})
	return isW && n == 1
}

func sliceConstLen(v ssa.Value) (int, bool) {
	switch x := v.(type) {
	case *ssa.MakeSlice:
		if n, ok := ssaConstInt(x.Len); ok {
			return int(n), true
		}
	case *ssa.Slice:
		if a, ok := x.X.(*ssa.Alloc); ok {
			if arr, ok := core.Deref(a.Type()).Underlying().(*types.Array); ok {
				if x.High == nil {
					return int(arr.Len()), true
				}
				if n, ok := ssaConstInt(x.High); ok {
					return int(n), true
				}
			}
		}
	case *ssa.UnOp:
		if a, ok := x.X.(*ssa.Alloc); ok && x.Op == token.MUL {
			for _, sv := range core.StoresTo(a) {
				if n, ok := sliceConstLen(sv); ok {
					return n, true
				}
			}
		}
	}
	return 0, false
}

// bufferDest: the receiver field a buffer value is stored into later in the function.
func bufferDest(fn *ssa.Function, buf ssa.Value) string {
	for _, ref := range referrers(buf) {
		if st, ok := ref.(*ssa.Store); ok && st.Val == buf {
			if d := destOfAddr(fn, st.Addr); !strings.HasPrefix(d, "?") {
				return d
			}
		}
		if ch, ok := ref.(*ssa.ChangeType); ok {
			if d := bufferDest(fn, ch); d != "" {
				return d
			}
		}
	}
	return ""
}

// sliceLiteralTargets: for `for _, f := range []interface{}{&a.X, &a.Y...} { read(r, f) }` returns the
// ordered destinations (addresses) of the literal the loop at header ranges over.
func sliceLiteralTargets(fn *ssa.Function, loop *core.Loop) (targets []ssa.Value, readCall *ssa.Call, ok bool) {
	// the loop body contains exactly one consuming call whose target is *(&slice[idx])
	for b := range loop.Blocks {
		for _, ins := range b.Instrs {
			c, isCall := ins.(*ssa.Call)
			if !isCall {
				continue
			}
			args := c.Common().Args
			if len(args) == 0 {
				continue
			}
			ld, isLd := args[len(args)-1].(*ssa.UnOp)
			if !isLd || ld.Op != token.MUL {
				continue
			}
			ia, isIA := ld.X.(*ssa.IndexAddr)
			if !isIA {
				continue
			}
			sl, isSl := ia.X.(*ssa.Slice)
			if !isSl {
				continue
			}
			arr, isAlloc := sl.X.(*ssa.Alloc)
			if !isAlloc {
				continue
			}
			at, _ := core.Deref(arr.Type()).Underlying().(*types.Array)
			if at == nil {
				continue
			}
			out := make([]ssa.Value, at.Len())
			for _, ref := range referrers(arr) {
				if ea, ok := ref.(*ssa.IndexAddr); ok {
					if i, ok := ssaConstInt(ea.Index); ok {
						for _, r2 := range referrers(ea) {
							if st, ok := r2.(*ssa.Store); ok {
								out[i] = underIface(st.Val)
							}
						}
					}
				}
			}
			for _, t := range out {
				if t == nil {
					return nil, nil, false
				}
			}
			return out, c, true
		}
	}
	return nil, nil, false
}

// printExpr renders a value as an expression over receiver fields, locals and constants.
func printExpr(fn *ssa.Function, v ssa.Value, depth int) string {
	if depth > 8 {
		return "..."
	}
	switch x := v.(type) {
	case *ssa.Const:
		if x.Value == nil {
			return "nil"
		}
		return x.Value.ExactString()
	case *ssa.Convert:
		return printExpr(fn, x.X, depth+1)
	case *ssa.ChangeType:
		return printExpr(fn, x.X, depth+1)
	case *ssa.BinOp:
		return "(" + printExpr(fn, x.X, depth+1) + x.Op.String() + printExpr(fn, x.Y, depth+1) + ")"
	case *ssa.UnOp:
		if x.Op == token.MUL {
			switch a := x.X.(type) {
			case *ssa.FieldAddr:
				return destOfAddr(fn, a)
			case *ssa.IndexAddr:
				return printExpr(fn, a.X, depth+1) + "[" + printExpr(fn, a.Index, depth+1) + "]"
			case *ssa.Alloc:
				return a.Comment
			}
		}
		return x.Op.String() + printExpr(fn, x.X, depth+1)
	case *ssa.Extract:
		if c, ok := x.Tuple.(*ssa.Call); ok {
			return fmt.Sprintf("%s()#%d", c.Common().StaticCallee().Name(), x.Index)
		}
	case *ssa.Slice:
		lo, hi := "", ""
		if x.Low != nil {
			lo = printExpr(fn, x.Low, depth+1)
		}
		if x.High != nil {
			hi = printExpr(fn, x.High, depth+1)
		}
		return printExpr(fn, x.X, depth+1) + "[" + lo + ":" + hi + "]"
	case *ssa.Parameter:
		return x.Name()
	case *ssa.Call:
		if f := x.Common().StaticCallee(); f != nil {
			var a []string
			for _, arg := range x.Common().Args {
				a = append(a, printExpr(fn, arg, depth+1))
			}
			return f.Name() + "(" + strings.Join(a, ",") + ")"
		}
	case *ssa.Phi:
		return "phi:" + x.Comment
	case *ssa.MakeSlice:
		return "make(" + printExpr(fn, x.Len, depth+1) + ")"
	}
	return v.Name()
}

// extractLayout enumerates the success paths of a sequential reader function.
func extractLayout(prog *core.Program, fn *ssa.Function) []layPath {
	var out []layPath
	loops := core.NaturalLoops(fn)
	loopAt := map[*ssa.BasicBlock]*core.Loop{}
	for _, l := range loops {
		loopAt[l.Header] = l
	}
	readDest := map[ssa.Instruction]bool{}
	var walk func(b, prev *ssa.BasicBlock, p layPath, off int, seen map[*ssa.BasicBlock]bool)
	walk = func(b, prev *ssa.BasicBlock, p layPath, off int, seen map[*ssa.BasicBlock]bool) {
		if len(out) > 64 {
			return
		}
		if seen[b] {
			return
		}
		seen = cloneSeen(seen)
		seen[b] = true
		// range-over-literal loop: expand
		if l := loopAt[b]; l != nil {
			if targets, rc, ok := sliceLiteralTargets(fn, l); ok {
				for _, t := range targets {
					w := -1
					if pt, ok := t.Type().Underlying().(*types.Pointer); ok {
						w = sizeofType(pt.Elem())
					}
					p.Events = append(p.Events, layEvent{Kind: "read", Off: off, Width: w, Dest: destOfAddr(fn, t), Pos: t.Pos(), ins: rc})
					if off >= 0 && w >= 0 {
						off += w
					} else {
						off = -1
					}
				}
				// continue at the loop's normal exit (from the header)
				for _, s := range b.Succs {
					if !l.Blocks[s] {
						for lb := range l.Blocks {
							seen[lb] = true
						}
						delete(seen, s)
						walk(s, b, p, off, seen)
					}
				}
				return
			}
		}
		for _, ins := range b.Instrs {
			if ev, ok := consumeOf(prog, fn, ins); ok {
				ev.Off = off
				p.Events = append(p.Events, ev)
				readDest[ins] = true
				if off >= 0 && ev.Width >= 0 {
					off += ev.Width
				} else {
					off = -1
				}
				continue
			}
			if st, ok := ins.(*ssa.Store); ok {
				// stores of read results are attributed to the read; others are "set" events on receiver fields
				if ex, ok := st.Val.(*ssa.Extract); ok {
					if c, ok := ex.Tuple.(*ssa.Call); ok {
						if _, isC := consumeOf(prog, fn, c); isC {
							continue
						}
					}
				}
				d := destOfAddr(fn, st.Addr)
				if !strings.HasPrefix(d, "?") && !strings.HasPrefix(d, "local:") && !strings.HasPrefix(d, "buf:") && !strings.HasPrefix(d, "obj:") {
					p.Events = append(p.Events, layEvent{Kind: "set", Off: off, Dest: d, Value: printExpr(fn, st.Val, 0), Pos: st.Pos(), ins: st})
				}
			}
		}
		last := b.Instrs[len(b.Instrs)-1]
		switch t := last.(type) {
		case *ssa.Return:
			p.OK = true
			if n := len(t.Results); n > 0 {
				ev := t.Results[n-1]
				// a result merged from several paths (`r = nil; break L` / `r = err; break L` of an inlined helper): the
				// value that arrives on this path
				for depth := 0; depth < 4; depth++ {
					phi, isPhi := ev.(*ssa.Phi)
					if !isPhi || phi.Block() != b || prev == nil {
						break
					}
					resolved := false
					for i, pb := range b.Preds {
						if pb == prev {
							ev, resolved = phi.Edges[i], true
							break
						}
					}
					if !resolved {
						break
					}
				}
				if c, isConst := ev.(*ssa.Const); isConst && c.Value == nil {
					p.OK = true
				} else if types.Identical(ev.Type(), types.Universe.Lookup("error").Type()) {
					// returning the error of the last consuming call: success path includes that call
					p.OK = false
					if call, ok := ev.(*ssa.Call); ok {
						if _, isC := consumeOf(prog, fn, call); isC {
							p.OK = true
						}
					}
					if ex, ok := ev.(*ssa.Extract); ok {
						if call, ok := ex.Tuple.(*ssa.Call); ok {
							if _, isC := consumeOf(prog, fn, call); isC && ex.Index == call.Common().Signature().Results().Len()-1 {
								p.OK = true
							}
						}
					}
				}
			}
			if p.OK {
				out = append(out, p)
			}
		case *ssa.If:
			if v, eqNil, ok := core.NilCompare(t.Cond); ok && types.Identical(v.Type(), types.Universe.Lookup("error").Type()) {
				// follow only "no error"
				if eqNil {
					walk(b.Succs[0], b, p, off, seen)
				} else {
					walk(b.Succs[1], b, p, off, seen)
				}
				return
			}
			g := printExpr(fn, t.Cond, 0)
			pt, pf := p, p
			pt.Events = append([]layEvent(nil), p.Events...)
			pf.Events = append([]layEvent(nil), p.Events...)
			pt.Guards = append(append([]string(nil), p.Guards...), g)
			pf.Guards = append(append([]string(nil), p.Guards...), negGuard(g))
			walk(b.Succs[0], b, pt, off, seen)
			walk(b.Succs[1], b, pf, off, seen)
		default:
			for _, s := range b.Succs {
				walk(s, b, p, off, seen)
			}
		}
	}
	if len(fn.Blocks) > 0 {
		walk(fn.Blocks[0], nil, layPath{}, 0, map[*ssa.BasicBlock]bool{})
	}
	return out
}

func cloneSeen(m map[*ssa.BasicBlock]bool) map[*ssa.BasicBlock]bool {
	n := make(map[*ssa.BasicBlock]bool, len(m)+1)
	for k, v := range m {
		n[k] = v
	}
	return n
}

// findFiller returns the functions with receiver *T (named T in package rel) that consume from a reader.
func findFillers(prog *core.Program, rel, typ string) []*ssa.Function {
	var out []*ssa.Function
	for _, fn := range prog.RepoFuncs() {
		if core.PkgRel(fn) != rel || fn.Signature.Recv() == nil || recvTypeName(fn) != typ || fn.Synthetic != "" {
			continue
		}
		has := false
		allInstrs(fn, func(ins ssa.Instruction) {
			if _, ok := consumeOf(prog, fn, ins); ok {
				has = true
			}
		})
		if has {
			out = append(out, fn)
		}
	}
	sort.Slice(out, func(i, j int) bool { return out[i].Name() < out[j].Name() })
	return out
}

// specField is one entry of an embedded wire-format table.
type specField struct {
	Name  string
	Width int
}

// compareSeq compares the read/skip events of a path with a spec sequence; returns "" when equal.
func compareSeq(p layPath, spec []specField) string {
	rs := p.reads()
	var got []string
	// a local scratch buffer is named after the variable only for the report: which local holds the octets is the
	// code's business, so both sides compare as "buf"
	anon := func(n string) string {
		if strings.HasPrefix(n, "buf:") {
			return "buf"
		}
		return n
	}
	for _, e := range rs {
		got = append(got, fmt.Sprintf("%s/%d", anon(e.Dest), e.Width))
	}
	var want []string
	for _, s := range spec {
		want = append(want, fmt.Sprintf("%s/%d", anon(s.Name), s.Width))
	}
	if strings.Join(got, " ") == strings.Join(want, " ") {
		return ""
	}
	// first difference
	for i := 0; i < len(got) || i < len(want); i++ {
		g, w := "<end>", "<end>"
		if i < len(got) {
			g = got[i]
		}
		if i < len(want) {
			w = want[i]
		}
		if g != w {
			off := 0
			for j := 0; j < i && j < len(spec); j++ {
				off += spec[j].Width
			}
			return fmt.Sprintf("at octet %d the format has %s but the code reads %s (code order: %s)", off, w, g, strings.Join(got, " "))
		}
	}
	return "sequence differs"
}

// ---------------------------------------------------------------------------------------------
// LAYOUT mode B: bit provenance of expressions over indexed bytes.
// ---------------------------------------------------------------------------------------------

type bitSrc struct {
	Base string // which byte sequence
	Byte int    // -1: constant zero
	Bit  int
}

var zeroBit = bitSrc{Byte: -1}

type bitVec []bitSrc // LSB first, length 64

func newVec() bitVec {
	v := make(bitVec, 64)
	for i := range v {
		v[i] = zeroBit
	}
	return v
}

func (v bitVec) String() string {
	// compress as runs: bits i..j <- base[byte] bits a..b
	var parts []string
	for i := 0; i < 64; {
		if v[i].Byte < 0 {
			i++
			continue
		}
		j := i
		for j+1 < 64 && v[j+1].Byte == v[i].Byte && v[j+1].Base == v[i].Base && v[j+1].Bit == v[j].Bit+1 {
			j++
		}
		parts = append(parts, fmt.Sprintf("%d..%d<-%s[%d].%d..%d", i, j, v[i].Base, v[i].Byte, v[i].Bit, v[j].Bit))
		i = j + 1
	}
	if len(parts) == 0 {
		return "0"
	}
	return strings.Join(parts, ",")
}

func equalVec(a, b bitVec) bool {
	for i := 0; i < 64; i++ {
		if a[i].Byte != b[i].Byte || (a[i].Byte >= 0 && (a[i].Bit != b[i].Bit)) {
			return false
		}
	}
	return true
}

// beField builds the expected vector of a big-endian unsigned field of nbits starting at bit offset
// (msb-first numbering within the octet stream: bit offset 0 is the msb of octet `byte0`).
func beField(byte0 int, bitoff int, nbits int) bitVec {
	v := newVec()
	// stream bit k (0 = msb of byte0) -> result bit nbits-1-(k-bitoff)
	for k := bitoff; k < bitoff+nbits; k++ {
		by := byte0 + k/8
		bit := 7 - k%8
		v[nbits-1-(k-bitoff)] = bitSrc{Byte: by, Bit: bit}
	}
	return v
}

// byteBase identifies the byte sequence a slice value denotes and a constant offset into it.
func byteBase(fn *ssa.Function, v ssa.Value) (base string, off int, ok bool) {
	switch x := v.(type) {
	case *ssa.Parameter:
		return "param:" + x.Name(), 0, true
	case *ssa.UnOp:
		if x.Op == token.MUL {
			switch a := x.X.(type) {
			case *ssa.FieldAddr:
				return "field:" + destOfAddr(fn, a), 0, true
			case *ssa.Alloc:
				return "local:" + a.Comment, 0, true
			}
		}
	case *ssa.Slice:
		b, o, ok := byteBase(fn, x.X)
		if !ok {
			return "", 0, false
		}
		lo := 0
		if x.Low != nil {
			c, isC := ssaConstInt(x.Low)
			if !isC {
				return "", 0, false
			}
			lo = int(c)
		}
		return b, o + lo, true
	case *ssa.ChangeType:
		return byteBase(fn, x.X)
	case *ssa.Convert:
		return byteBase(fn, x.X)
	case *ssa.MakeSlice:
		return "make:" + x.Name(), 0, true
	case *ssa.Alloc:
		return "local:" + x.Comment, 0, true
	}
	return "", 0, false
}

// bitsOf computes the bit provenance of an integer expression.
func bitsOf(fn *ssa.Function, v ssa.Value, depth int) (bitVec, bool) {
	if depth > 12 {
		return nil, false
	}
	switch x := v.(type) {
	case *ssa.Const:
		c, ok := ssaConstInt(x)
		if !ok || c != 0 {
			return nil, false
		}
		return newVec(), true
	case *ssa.UnOp:
		if x.Op == token.MUL {
			if ia, ok := x.X.(*ssa.IndexAddr); ok {
				idx, isC := ssaConstInt(ia.Index)
				base, off, okb := byteBase(fn, ia.X)
				if isC && okb {
					out := newVec()
					for i := 0; i < 8; i++ {
						out[i] = bitSrc{Base: base, Byte: off + int(idx), Bit: i}
					}
					return out, true
				}
			}
		}
	case *ssa.Convert:
		in, ok := bitsOf(fn, x.X, depth+1)
		if !ok {
			return nil, false
		}
		w := sizeofType(x.Type()) * 8
		if w <= 0 {
			w = 64
		}
		out := newVec()
		copy(out[:w], in[:w])
		return out, true
	case *ssa.ChangeType:
		return bitsOf(fn, x.X, depth+1)
	case *ssa.BinOp:
		switch x.Op {
		case token.SHL, token.SHR:
			in, ok := bitsOf(fn, x.X, depth+1)
			n, okc := ssaConstInt(x.Y)
			if !ok || !okc {
				return nil, false
			}
			w := sizeofType(x.Type()) * 8
			if w <= 0 {
				w = 64
			}
			out := newVec()
			for i := 0; i < w; i++ {
				var src int
				if x.Op == token.SHL {
					src = i - int(n)
				} else {
					src = i + int(n)
				}
				if src >= 0 && src < w {
					out[i] = in[src]
				}
			}
			return out, true
		case token.AND:
			in, ok := bitsOf(fn, x.X, depth+1)
			m, okc := ssaConstInt(x.Y)
			if !ok || !okc {
				if in2, ok2 := bitsOf(fn, x.Y, depth+1); ok2 {
					if m2, okc2 := ssaConstInt(x.X); okc2 {
						in, m, ok, okc = in2, m2, true, true
					}
				}
			}
			if !ok || !okc {
				return nil, false
			}
			out := newVec()
			for i := 0; i < 64; i++ {
				if uint64(m)&(1<<uint(i)) != 0 {
					out[i] = in[i]
				}
			}
			return out, true
		case token.OR, token.ADD, token.XOR:
			a, ok1 := bitsOf(fn, x.X, depth+1)
			b, ok2 := bitsOf(fn, x.Y, depth+1)
			if !ok1 || !ok2 {
				return nil, false
			}
			out := newVec()
			for i := 0; i < 64; i++ {
				switch {
				case a[i].Byte >= 0 && b[i].Byte >= 0:
					return nil, false // overlapping sources: not a pure field extraction
				case a[i].Byte >= 0:
					out[i] = a[i]
				default:
					out[i] = b[i]
				}
			}
			return out, true
		}
	case *ssa.Call:
		if f := x.Common().StaticCallee(); f != nil && strings.HasPrefix(f.String(), "(encoding/binary.bigEndian).Uint") {
			n := map[string]int{"Uint16": 2, "Uint32": 4, "Uint64": 8}[f.Name()]
			base, off, ok := byteBase(fn, x.Common().Args[1])
			if !ok || n == 0 {
				return nil, false
			}
			out := beField(off, 0, n*8)
			for i := range out {
				if out[i].Byte >= 0 {
					out[i].Base = base
				}
			}
			return out, true
		}
	}
	return nil, false
}

func vecBases(v bitVec) []string {
	m := map[string]bool{}
	for _, b := range v {
		if b.Byte >= 0 {
			m[b.Base] = true
		}
	}
	var out []string
	for k := range m {
		out = append(out, k)
	}
	sort.Strings(out)
	return out
}

// negGuard negates a printed comparison: !(a<=b) is written a>b, so that a test and its inverted form read alike.
func negGuard(g string) string {
	inner := g
	for strings.HasPrefix(inner, "(") && strings.HasSuffix(inner, ")") && balanced(inner[1:len(inner)-1]) {
		inner = inner[1 : len(inner)-1]
	}
	if strings.HasPrefix(inner, "!") {
		return strings.TrimPrefix(inner, "!")
	}
	for _, pr := range [][2]string{{"<=", ">"}, {">=", "<"}, {"==", "!="}, {"!=", "=="}, {"<", ">="}, {">", "<="}} {
		if i := strings.Index(inner, pr[0]); i > 0 && !strings.ContainsAny(inner, "&|") && strings.Count(inner, pr[0]) == 1 {
			// make sure we matched the whole operator (not the '<' of '<=')
			rest := inner[i+len(pr[0]):]
			if strings.HasPrefix(rest, "=") {
				continue
			}
			return inner[:i] + pr[1] + rest
		}
	}
	return "!" + g
}

func balanced(s string) bool {
	d := 0
	for _, c := range s {
		switch c {
		case '(':
			d++
		case ')':
			d--
			if d < 0 {
				return false
			}
		}
	}
	return d == 0
}
