package rules

import (
	"fmt"
	"go/token"
	"go/types"
	"os"
	"sort"
	"strings"

	"golang.org/x/tools/go/ssa"

	"verif/internal/core"
	"verif/internal/obl"
)

func init() { register("C16", checkC16) }

var c16Assumed = map[string]string{
	// normally discharged by the source-address provenance hook (oblrun.go: sourceAddrFields)
	"vflow.mirror*:K2:nonnil(*.raddr)": "A-raddr: every message queued for mirroring carries the address ReadFromUDP returned with a nil error",
}

func mirrorLoops(prog *core.Program) (loops []*ssa.Function, dispatchers []*ssa.Function) {
	for _, fn := range prog.RepoFuncs() {
		if core.PkgRel(fn) != "vflow" || fn.Parent() != nil || fn.Synthetic != "" {
			continue
		}
		recvs, sendsRaw := false, false
		allInstrs(fn, func(ins ssa.Instruction) {
			if u, ok := ins.(*ssa.UnOp); ok && u.Op == token.ARROW && isUDPChan(u.X) && isParam(fn, u.X) {
				recvs = true
			}
			if c, ok := ins.(*ssa.Call); ok && strings.HasSuffix(calleeName(c), "mirror.Conn).Send") {
				sendsRaw = true
			}
		})
		if recvs && sendsRaw {
			loops = append(loops, fn)
		} else if recvs {
			dispatchers = append(dispatchers, fn)
		}
	}
	return
}

func checkC16(rep *core.Report) {
	rep.Explanation = "The mirror path is analysed like the decode path: every panic-capable instruction of the dispatcher, the mirror loops and package mirror's header helpers (in the loops' calling context, for IPv4 and IPv6 targets separately) is discharged for any payload length and either form of the exporter address; the payload buffer handed to the mirror loop is the worker's own copy and is released exactly once after its last use, with the size the pool was created with; the rewritten header fields are written at the offsets the IPv4/UDP formats assign from the right quantities (total length = 20 + 8 + payload, UDP length = 8 + payload, both from the same payload length; source = exporter address, destination = configured address and port, protocol 17, version/IHL 0x45); the slice sent is headers + payload; the worker's mirror branch does not write the datagram it decodes."
	rep.Assume("A-int: int is 64 bits; A-config: option values are sane (sizes non-negative)")
	rep.Trust("(*net.UDPConn).ReadFromUDP returns a non-nil source address together with a nil error; the queued message types take their address only from that result on the nil-error path (checked: oblrun.go sourceAddrFields)")
	prog := rep.Prog
	r1 := rep.Rule("R16.1", "no panic-capable instruction on the mirror path can fail", 55)
	r2 := rep.Rule("R16.2", "mirror buffers: own copy from the protocol's own pool, released once after last use, with the pool's size", 8)
	r3 := rep.Rule("R16.3", "rewritten header fields come from the right quantities at the right offsets", 24)
	r4 := rep.Rule("R16.4", "the mirror branch of the worker only copies and queues", 2)
	r5 := rep.Rule("R16.5", "a datagram queue is closed only by its single sending function (never under the workers that still send on it)", 4)
	checkQueueClosers(prog, r5)
	loops, disps := mirrorLoops(prog)
	if len(loops) < 2 {
		r1.Undecided("anchors", token.NoPos, fmt.Sprintf("%d mirror loops found, want 2", len(loops)))
		return
	}
	an := obl.New(oblConfig(prog))
	for _, fn := range append(append([]*ssa.Function{}, loops...), disps...) {
		an.AnalyzeRoot(fn, obl.RootOpts{NonNilParams: true})
	}
	if os.Getenv("VERIF_DEBUG") != "" {
		for _, o := range an.Obligations() {
			if o.Failed > 0 {
				fmt.Printf("OBL %s %s failed=%d/%d %s\n", o.Kind, o.Key(core.FuncName), o.Failed, o.Contexts, o.Why)
			}
		}
		fmt.Println("warnings:", an.Warnings)
	}
	total, open := reportObligations(rep, r1, an, func(o *obl.Obligation) bool { return o.Kind != "K12" }, c16Assumed)
	rep.Extra["obligations_total"] = total
	rep.Extra["obligations_open"] = open
	all, unknown := externSummary(an)
	rep.Extra["external_callees"] = all
	rep.Extra["unreviewed_external_callees"] = unknown
	// ---- R16.2 ----
	pools := findPools(prog)
	r7 := r2
	// the workers make the mirror copies and dispose of those the full mirror queue refuses: a copy returned to the
	// receive pool with the datagram's own length truncates a later, longer datagram on receive
	poolFns := append([]*ssa.Function{}, loops...)
	for _, p := range findPipelines(prog) {
		if p.worker != nil {
			poolFns = append(poolFns, p.worker)
		}
	}
	checkPoolUniformityFor(prog, r7, pools, poolFns)
	for _, fn := range loops {
		var recv *ssa.UnOp
		allInstrs(fn, func(ins ssa.Instruction) {
			if u, ok := ins.(*ssa.UnOp); ok && u.Op == token.ARROW && isUDPChan(u.X) {
				recv = u
			}
		})
		if recv != nil {
			checkReleaseDiscipline(prog, r2, r2, fn, recv, recv)
		}
	}
	checkPoolPerPipeline(prog, r2)
	// ---- R16.3 ----
	for _, fn := range loops {
		checkMirrorHeaderWrites(prog, r3, fn)
	}
	checkMirrorHelpers(prog, r3)
	// ---- R16.4 ----
	for _, p := range findPipelines(prog) {
		if p.worker == nil || p.decode == nil {
			continue
		}
		// the decoder's arguments do not depend on anything stored in the mirror branch: the body passed to the
		// decoder is the received message's own field, and no store into the received body's elements exists
		name := core.FuncName(p.worker)
		hasMirror := false
		bad := ""
		allInstrs(p.worker, func(ins ssa.Instruction) {
			if sel, ok := ins.(*ssa.Select); ok {
				for _, st := range sel.States {
					if isUDPChan(st.Chan) && st.Dir == 1 { // send
						hasMirror = true
					}
				}
			}
			if st, ok := ins.(*ssa.Store); ok {
				if ia, ok := st.Addr.(*ssa.IndexAddr); ok && isByteSlice(ia.X.Type()) {
					bad = "element store into a byte slice at " + prog.Pos(st.Pos())
				}
			}
		})
		if hasMirror {
			r4.Check(bad == "", name+":mirror-branch-readonly", p.worker.Pos(), "the worker never writes datagram octets", "the worker writes into a byte buffer ("+bad+"): mirroring could change what is decoded")
		}
	}
}

// checkPoolUniformityFor: Put sites inside the given functions use the pool's own size field.
func checkPoolUniformityFor(prog *core.Program, rr *core.RuleRun, pools map[*ssa.Global]*poolInfo, fns []*ssa.Function) {
	for _, fn := range fns {
		allInstrs(fn, func(ins ssa.Instruction) {
			call, ok := ins.(*ssa.Call)
			if !ok {
				return
			}
			g, op := poolOf(call)
			if g == nil || pools[g] == nil || op != "Put" {
				return
			}
			pi := pools[g]
			key := fmt.Sprintf("%s:%s:Put", core.FuncName(fn), g.Name())
			v := underIface(call.Common().Args[1])
			sl, isSlice := v.(*ssa.Slice)
			if !isSlice || sl.Low != nil || sl.High == nil {
				rr.Fail(key, call.Pos(), "the buffer is not returned as buf[:size]")
				return
			}
			_, f := fieldLoad(sl.High)
			rr.Check(f != nil && f == pi.newField, key, call.Pos(), "returned as buf[:"+fname(f)+"], the size New uses",
				fmt.Sprintf("the mirrored payload buffer is returned to %s sliced to option %s but the pool makes buffers of option %s: with different settings later datagrams are truncated or the slice panics", g.Name(), fname(f), fname(pi.newField)))
		})
	}
}

// checkMirrorHeaderWrites: in a mirror loop, SetLen/SetAddrs/udp.SetLen get the right quantities and the send covers headers+payload.
func checkMirrorHeaderWrites(prog *core.Program, r3 *core.RuleRun, fn *ssa.Function) {
	name := core.FuncName(fn)
	var pLen ssa.Value // len(msg.body)
	var recv *ssa.UnOp
	allInstrs(fn, func(ins ssa.Instruction) {
		if u, ok := ins.(*ssa.UnOp); ok && u.Op == token.ARROW && isUDPChan(u.X) {
			recv = u
		}
	})
	isBodyLen := func(v ssa.Value) bool {
		c, ok := v.(*ssa.Call)
		if !ok {
			return false
		}
		b, ok := c.Common().Value.(*ssa.Builtin)
		return ok && b.Name() == "len" && isByteSlice(c.Common().Args[0].Type()) && core.BackwardSlice(c.Common().Args[0], core.SliceOpts{})[recv]
	}
	_ = pLen
	var ipSetLen, udpSetLen, setAddrs ssa.CallInstruction
	var send *ssa.Call
	allInstrs(fn, func(ins ssa.Instruction) {
		c, ok := ins.(ssa.CallInstruction)
		if !ok {
			return
		}
		com := c.Common()
		switch {
		case com.IsInvoke() && com.Method.Name() == "SetLen":
			ipSetLen = c
		case com.IsInvoke() && com.Method.Name() == "SetAddrs":
			setAddrs = c
		case strings.HasSuffix(calleeName(c), "mirror.UDP).SetLen"):
			udpSetLen = c
		case strings.HasSuffix(calleeName(c), "mirror.Conn).Send"):
			send, _ = c.(*ssa.Call)
		}
	})
	if ipSetLen == nil || udpSetLen == nil || setAddrs == nil || send == nil {
		r3.Fail(name+":header-updates", fn.Pos(), fmt.Sprintf("mirror loop lacks a header update (ip length=%v udp length=%v addresses=%v send=%v)", ipSetLen != nil, udpSetLen != nil, setAddrs != nil, send != nil))
		return
	}
	// lenPlus: v = len(body of the received message) + k, nothing else
	lenPlus := func(v ssa.Value) (int64, bool) {
		terms, k := linTerms(v)
		if len(terms) != 1 {
			return 0, false
		}
		for t, c := range terms {
			if c != 1 || !isBodyLen(t) {
				return 0, false
			}
		}
		return k, true
	}
	// hdrPlusLen: v = ipHLen (the per-family header length) + k (+ len(body) when withLen)
	var ipHLen ssa.Value
	hdrPlus := func(v ssa.Value, withLen bool) (int64, bool) {
		terms, k := linTerms(v)
		nLen, nHdr := 0, 0
		for t, c := range terms {
			switch {
			case c == 1 && isBodyLen(t):
				nLen++
			case c == 1 && isHdrLenPhi(t):
				if ipHLen != nil && ipHLen != t {
					return 0, false
				}
				ipHLen = t
				nHdr++
			default:
				return 0, false
			}
		}
		if nHdr != 1 || (withLen && nLen != 1) || (!withLen && nLen != 0) {
			return 0, false
		}
		return k, true
	}
	k, ok := lenPlus(ipSetLen.Common().Args[1])
	r3.Check(ok && k == 8, name+":ip-length", ipSetLen.Pos(), "IP payload length = payload + 8 (UDP header)", "the IP length is not computed as payload length + UDP header length (8)")
	k, ok = lenPlus(udpSetLen.Common().Args[2])
	r3.Check(ok && k == 0, name+":udp-length", udpSetLen.Pos(), "UDP length from the same payload length", "the UDP length is not computed from the payload length alone")
	// the header buffers the lengths/addresses are written to are the ones copied into the packet
	// addresses: src from the message's source address, dst the configured target
	srcOK := false
	for v := range core.BackwardSlice(setAddrs.Common().Args[1], core.SliceOpts{}) {
		if v == ssa.Value(recv) {
			srcOK = true
		}
	}
	dstOK := isParam(fn, setAddrs.Common().Args[2])
	r3.Check(srcOK && dstOK, name+":addresses", setAddrs.Pos(), "source = exporter address of this datagram, destination = configured target", fmt.Sprintf("header addresses: source-from-datagram=%v destination-is-target=%v", srcOK, dstOK))
	// send covers ipHLen + 8 + pLen from offset 0
	okSend := false
	var packetBuf ssa.Value
	if sl, ok := send.Common().Args[1].(*ssa.Slice); ok {
		lo, isC := int64(0), true
		if sl.Low != nil {
			lo, isC = ssaConstInt(sl.Low)
		}
		if sl.High != nil {
			k, ok := hdrPlus(sl.High, true)
			okSend = isC && lo == 0 && ok && k == 8
		}
		packetBuf = sl.X
	}
	r3.Check(okSend, name+":sent-slice", send.Pos(), "sends packet[0 : ipHLen+8+payload]", "the slice sent is not exactly IP header + UDP header (8) + payload from offset 0")
	// the three copies: IP header at 0, UDP header at ipHLen, payload at ipHLen+8, into the buffer that is sent
	okIPc, okUDPc, okPay := false, false, false
	allInstrs(fn, func(ins ssa.Instruction) {
		c, ok := ins.(*ssa.Call)
		if !ok {
			return
		}
		if b, ok := c.Common().Value.(*ssa.Builtin); !ok || b.Name() != "copy" {
			return
		}
		sl, ok := c.Common().Args[0].(*ssa.Slice)
		if !ok || !samePacket(sl.X, packetBuf) {
			return
		}
		src := c.Common().Args[1]
		switch {
		case core.BackwardSlice(src, core.SliceOpts{})[recv]:
			if sl.Low != nil {
				if k, ok := hdrPlus(sl.Low, false); ok && k == 8 && sl.High == nil {
					okPay = true
				}
			}
		case src == ipSetLen.Common().Args[0] && src == setAddrs.Common().Args[0]:
			lo := int64(0)
			if sl.Low != nil {
				lo, _ = ssaConstInt(sl.Low)
			}
			if sl.High != nil {
				if k, ok := hdrPlus(sl.High, false); ok && k == 0 && lo == 0 {
					okIPc = true
				}
			}
		case src == udpSetLen.Common().Args[1]:
			if sl.Low != nil && sl.High != nil {
				k1, ok1 := hdrPlus(sl.Low, false)
				k2, ok2 := hdrPlus(sl.High, false)
				okUDPc = ok1 && ok2 && k1 == 0 && k2 == 8
			}
		}
	})
	r3.Check(okIPc, name+":ip-header-offset", fn.Pos(), "the IP header whose length and addresses were set is copied to packet[0:ipHLen]", "the IP header that was updated is not the one copied to the front of the packet")
	r3.Check(okUDPc, name+":udp-header-offset", fn.Pos(), "the UDP header whose length was set is copied to packet[ipHLen:ipHLen+8]", "the UDP header that was updated is not copied right behind the IP header")
	r3.Check(okPay, name+":payload-offset", fn.Pos(), "payload copied at offset ipHLen+8", "the payload is not copied behind the IP and UDP headers")
	// per-family header length agrees with the header type
	if phi, ok := ipHLen.(*ssa.Phi); ok {
		okFam := true
		var ipPhi *ssa.Phi
		for _, ins := range phi.Block().Instrs {
			if p2, ok := ins.(*ssa.Phi); ok && p2 != phi && types.IsInterface(p2.Type()) {
				ipPhi = p2
			}
		}
		if ipPhi == nil {
			okFam = false
		} else {
			for i, e := range phi.Edges {
				if e == ssa.Value(phi) && ipPhi.Edges[i] == ssa.Value(ipPhi) {
					continue
				}
				c, _ := ssaConstInt(e)
				mi, ok := ipPhi.Edges[i].(*ssa.MakeInterface)
				if !ok {
					okFam = false
					continue
				}
				tn := mi.X.Type().String()
				switch {
				case strings.HasSuffix(tn, "mirror.IPv4") && c == 20, strings.HasSuffix(tn, "mirror.IPv6") && c == 40:
				default:
					okFam = false
				}
			}
		}
		r3.Check(okFam, name+":header-length-per-family", phi.Pos(), "20 with the IPv4 header, 40 with the IPv6 header", "the header length used for the offsets does not match the header type")
	} else {
		r3.Fail(name+":header-length-per-family", fn.Pos(), "no per-family header length found")
	}
}

func isHdrLenPhi(v ssa.Value) bool {
	phi, ok := v.(*ssa.Phi)
	if !ok {
		return false
	}
	n := 0
	for _, e := range phi.Edges {
		if e == ssa.Value(phi) {
			continue
		}
		if _, ok := ssaConstInt(e); !ok {
			return false
		}
		n++
	}
	return n > 0
}

// samePacket: a and b denote the same local buffer variable (phi of the initial and the regrown buffer).
func samePacket(a, b ssa.Value) bool {
	return a != nil && a == b
}

// checkMirrorHelpers: package mirror's writers put the fields at the offsets the formats assign.
func checkMirrorHelpers(prog *core.Program, r3 *core.RuleRun) {
	type put struct {
		off, end int64 // end -1: open
		width    int
		val      ssa.Value
	}
	scan := func(fn *ssa.Function) []put {
		var out []put
		allInstrs(fn, func(ins ssa.Instruction) {
			switch x := ins.(type) {
			case *ssa.Call:
				if n := calleeName(x); strings.HasPrefix(n, "(encoding/binary.bigEndian).PutUint16") {
					off := int64(0)
					if sl, ok := x.Common().Args[1].(*ssa.Slice); ok && sl.Low != nil {
						off, _ = ssaConstInt(sl.Low)
					}
					out = append(out, put{off, off + 2, 2, x.Common().Args[2]})
				}
				if b, ok := x.Common().Value.(*ssa.Builtin); ok && b.Name() == "copy" {
					if sl, ok := x.Common().Args[0].(*ssa.Slice); ok && sl.Low != nil {
						off, _ := ssaConstInt(sl.Low)
						end := int64(-1)
						if sl.High != nil {
							end, _ = ssaConstInt(sl.High)
						}
						out = append(out, put{off, end, 0, x.Common().Args[1]})
					}
				}
			case *ssa.Store:
				if ia, ok := x.Addr.(*ssa.IndexAddr); ok {
					if off, ok := ssaConstInt(ia.Index); ok {
						out = append(out, put{off, off + 1, 1, x.Val})
					}
				}
			}
		})
		return out
	}
	at := func(ps []put, off int64) *put {
		var r *put
		for i := range ps {
			if ps[i].off == off {
				if r != nil {
					return nil // two writers of one offset: undecided
				}
				r = &ps[i]
			}
		}
		return r
	}
	// valuePlus: v == param + k modulo integer conversions
	// parameters are identified by position (receiver = 0), not by name
	paramPlus := func(fn *ssa.Function, v ssa.Value, pidx int) (int64, bool) {
		pname := "\x00"
		if pidx < len(fn.Params) {
			pname = fn.Params[pidx].Name()
		}
		var walk func(v ssa.Value) (int64, bool)
		walk = func(v ssa.Value) (int64, bool) {
			switch x := v.(type) {
			case *ssa.Parameter:
				return 0, x.Name() == pname
			case *ssa.Convert:
				return walk(x.X)
			case *ssa.ChangeType:
				return walk(x.X)
			case *ssa.BinOp:
				if x.Op == token.ADD {
					if c, ok := ssaConstInt(x.X); ok {
						k, ok2 := walk(x.Y)
						return k + c, ok2
					}
					if c, ok := ssaConstInt(x.Y); ok {
						k, ok2 := walk(x.X)
						return k + c, ok2
					}
				}
			}
			return 0, false
		}
		return walk(v)
	}
	fromParam := func(fn *ssa.Function, v ssa.Value, pidx int) bool {
		if pidx >= len(fn.Params) {
			return false
		}
		want := fn.Params[pidx]
		for x := range core.BackwardSlice(v, core.SliceOpts{}) {
			if p, ok := x.(*ssa.Parameter); ok && p != want && p != fn.Params[0] {
				return false
			}
		}
		for x := range core.BackwardSlice(v, core.SliceOpts{}) {
			if p, ok := x.(*ssa.Parameter); ok && p == want {
				return true
			}
		}
		return false
	}
	// fields the value is computed from (receiver fields only)
	fieldsOf := func(v ssa.Value) string {
		var fs []string
		seen := map[string]bool{}
		for x := range core.BackwardSlice(v, core.SliceOpts{}) {
			if _, f := fieldLoad(x); f != nil && !seen[f.Name()] {
				seen[f.Name()] = true
				fs = append(fs, f.Name())
			}
		}
		sort.Strings(fs)
		return strings.Join(fs, ",")
	}
	show := func(ps []put) string {
		var o []string
		for _, p := range ps {
			o = append(o, fmt.Sprintf("@%d", p.off))
		}
		return strings.Join(o, " ")
	}
	if fn := prog.Method("mirror", "IPv4", "SetLen"); fn != nil {
		ps := scan(fn)
		p := at(ps, 2)
		ok := false
		if p != nil && p.width == 2 && len(ps) == 1 {
			k, isP := paramPlus(fn, p.val, 2)
			ok = isP && k == 20
		}
		r3.Check(ok, "mirror.IPv4.SetLen", fn.Pos(), "total length @2 = 20 + n, nothing else written", "IPv4 total length is not written as 16 bits of (20 + n) at offset 2 (writes: "+show(ps)+")")
	} else {
		r3.Undecided("mirror.IPv4.SetLen", token.NoPos, "method not found")
	}
	if fn := prog.Method("mirror", "IPv4", "SetAddrs"); fn != nil {
		ps := scan(fn)
		s, d := at(ps, 12), at(ps, 16)
		ok := len(ps) == 2 && s != nil && d != nil && s.end == 16 && d.end == 20 && fromParam(fn, s.val, 2) && fromParam(fn, d.val, 3)
		r3.Check(ok, "mirror.IPv4.SetAddrs", fn.Pos(), "source @12..16, destination @16..20", "IPv4 addresses are not written as source at 12..16 and destination at 16..20 (writes: "+show(ps)+")")
	} else {
		r3.Undecided("mirror.IPv4.SetAddrs", token.NoPos, "method not found")
	}
	if fn := prog.Method("mirror", "IPv4", "Marshal"); fn != nil {
		ps := scan(fn)
		want := map[int64]string{0: "IHL,Version", 1: "TOS", 2: "Length", 8: "TTL", 9: "Protocol"}
		ok := true
		bad := ""
		for off, fs := range want {
			p := at(ps, off)
			if p == nil || fieldsOf(p.val) != fs {
				ok = false
				got := "<none>"
				if p != nil {
					got = fieldsOf(p.val)
				}
				bad += fmt.Sprintf(" @%d from %s (want %s)", off, got, fs)
			}
		}
		r3.Check(ok, "mirror.IPv4.Marshal", fn.Pos(), "version/IHL @0, TOS @1, total length @2, TTL @8, protocol @9", "IPv4 header template fields misplaced:"+bad)
		// version nibble in the high half of octet 0
		if p := at(ps, 0); p != nil {
			okShift := false
			for x := range core.BackwardSlice(p.val, core.SliceOpts{}) {
				if b, ok := x.(*ssa.BinOp); ok && b.Op == token.SHL && fieldLoadName(b.X) == "Version" {
					c, _ := ssaConstInt(stripConv(b.Y))
					okShift = c == 4
				}
			}
			r3.Check(okShift, "mirror.IPv4.Marshal:version-nibble", fn.Pos(), "Version<<4 | IHL", "the version is not placed in the high nibble of octet 0")
		}
	} else {
		r3.Undecided("mirror.IPv4.Marshal", token.NoPos, "method not found")
	}
	if fn := prog.Method("mirror", "UDP", "SetLen"); fn != nil {
		ps := scan(fn)
		p := at(ps, 4)
		ok := false
		if p != nil && p.width == 2 && len(ps) == 1 {
			k, isP := paramPlus(fn, p.val, 2)
			ok = isP && k == 8
		}
		r3.Check(ok, "mirror.UDP.SetLen", fn.Pos(), "UDP length @4 = 8 + n, nothing else written", "UDP length is not written as 16 bits of (8 + n) at offset 4 (writes: "+show(ps)+")")
	} else {
		r3.Undecided("mirror.UDP.SetLen", token.NoPos, "method not found")
	}
	// the per-datagram setters rewrite their field on every call: the mirror loops build the headers once and rely on
	// the setters to refresh length and addresses for each datagram, so a setter that returns early (a range guard, a
	// "nothing to do" shortcut) leaves the previous datagram's value in the header
	for _, mn := range [][2]string{{"IPv4", "SetLen"}, {"IPv4", "SetAddrs"}, {"UDP", "SetLen"}} {
		fn := prog.Method("mirror", mn[0], mn[1])
		if fn == nil {
			continue
		}
		var buf *ssa.Parameter
		for _, q := range fn.Params {
			if isByteSlice(q.Type()) {
				buf = q
				break
			}
		}
		if buf == nil {
			continue
		}
		intoBuf := func(v ssa.Value) bool {
			for i := 0; i < 6 && v != nil; i++ {
				switch x := v.(type) {
				case *ssa.Parameter:
					return x == buf
				case *ssa.IndexAddr:
					v = x.X
				case *ssa.Slice:
					v = x.X
				default:
					return false
				}
			}
			return false
		}
		var writes []ssa.Instruction
		allInstrs(fn, func(ins ssa.Instruction) {
			switch x := ins.(type) {
			case *ssa.Store:
				if intoBuf(x.Addr) {
					writes = append(writes, ins)
				}
			case *ssa.Call:
				if b, isB := x.Common().Value.(*ssa.Builtin); isB && b.Name() == "copy" && intoBuf(x.Common().Args[0]) {
					writes = append(writes, ins)
				} else if i, isW := elemWriters[calleeName(x)]; isW && i < len(x.Common().Args) && intoBuf(x.Common().Args[i]) {
					writes = append(writes, ins)
				}
			}
		})
		always := len(writes) > 0
		for _, w := range writes {
			wk := core.Walk{Blocked: func(i ssa.Instruction) bool { return i == w }}
			for i := range wk.ReachFromEntry(fn) {
				if _, isRet := i.(*ssa.Return); isRet {
					always = false
				}
			}
		}
		key := "mirror." + mn[0] + "." + mn[1] + ":always-writes"
		r3.Check(always, key, fn.Pos(), fmt.Sprintf("%d header write(s), each on every path through the setter", len(writes)),
			"the setter can return without rewriting its header field: the header keeps the previous datagram's length/addresses, so the mirrored packet's lengths disagree with its payload")
	}
	if fn := prog.Method("mirror", "UDP", "Marshal"); fn != nil {
		ps := scan(fn)
		want := map[int64]string{0: "SrcPort", 2: "DstPort", 4: "Length", 6: "Checksum"}
		ok := true
		bad := ""
		for off, fs := range want {
			p := at(ps, off)
			if p == nil || p.width != 2 || fieldsOf(p.val) != fs {
				ok = false
				if p != nil {
					bad += fmt.Sprintf(" @%d from %s (want %s)", off, fieldsOf(p.val), fs)
				}
			}
		}
		r3.Check(ok, "mirror.UDP.Marshal", fn.Pos(), "ports @0/@2, length @4, checksum @6", "UDP header fields misplaced (writes: "+show(ps)+")"+bad)
	} else {
		r3.Undecided("mirror.UDP.Marshal", token.NoPos, "method not found")
	}
	if fn := prog.Func("mirror", "NewIPv4HeaderTpl"); fn != nil {
		vals := map[string]int64{}
		fromP := map[string]bool{}
		allInstrs(fn, func(ins ssa.Instruction) {
			if st, ok := ins.(*ssa.Store); ok {
				if _, f, ok := core.FieldOf(st.Addr); ok {
					if c, isC := ssaConstInt(st.Val); isC {
						vals[f.Name()] = c
					} else if _, isP := stripConv(st.Val).(*ssa.Parameter); isP {
						fromP[f.Name()] = true
					}
				}
			}
		})
		r3.Check(vals["Version"] == 4 && vals["IHL"] == 5 && fromP["Protocol"] && vals["TTL"] > 0, "mirror.NewIPv4HeaderTpl", fn.Pos(), "version 4, IHL 5, TTL > 0, protocol from the argument", fmt.Sprintf("header template constants: %v protocol-from-argument=%v", vals, fromP["Protocol"]))
	} else {
		r3.Undecided("mirror.NewIPv4HeaderTpl", token.NoPos, "function not found")
	}
	// the raw-socket send: the very slice it is given, to the address the connection was opened for, blocking (flags 0):
	// a non-blocking send turns a momentarily full socket buffer into an error, and the mirror loops end on any error
	if fn := prog.Method("mirror", "Conn", "Send"); fn != nil {
		n := 0
		allInstrs(fn, func(ins ssa.Instruction) {
			c, ok := ins.(*ssa.Call)
			if !ok || calleeName(c) != "syscall.Sendto" {
				return
			}
			n++
			args := c.Common().Args
			flags, isC := ssaConstInt(args[2])
			_, isParam := args[1].(*ssa.Parameter)
			r3.Check(isC && flags == 0 && isParam && fieldLoadName(args[0]) == "fd" && fieldLoadName(args[3]) == "raddr", "mirror.Conn.Send", c.Pos(), "Sendto(fd, b, 0, raddr)",
				fmt.Sprintf("the raw-socket send is not a plain blocking send of the given slice to the connection's address (flags=%v): with MSG_DONTWAIT a full send buffer makes Send fail, the mirror loop returns and nothing is mirrored any more", flags))
		})
		if n == 0 {
			r3.Undecided("mirror.Conn.Send", fn.Pos(), "no Sendto call found")
		}
	} else {
		r3.Undecided("mirror.Conn.Send", token.NoPos, "method not found")
	}
	// the UDP source/destination ports of the template: destination = the configured port
	pk := prog.Pkg("mirror")
	if pk != nil {
		if c, ok := pk.Types.Scope().Lookup("UDPProto").(*types.Const); ok {
			v, _ := constInt64(c)
			r3.Check(v == 17, "mirror.UDPProto", token.NoPos, "17", fmt.Sprintf("UDP protocol number constant is %d", v))
		}
		for name, want := range map[string]int64{"IPv4HLen": 20, "IPv6HLen": 40, "UDPHLen": 8} {
			if c, ok := pk.Types.Scope().Lookup(name).(*types.Const); ok {
				v, _ := constInt64(c)
				r3.Check(v == want, "mirror."+name, token.NoPos, fmt.Sprint(want), fmt.Sprintf("header length constant %s is %d", name, v))
			}
		}
	}
}

// checkQueueClosers (R16.5): a send on a closed channel panics, also inside a select with a default case. The
// receive-to-worker queues are closed by the receive loop, which is their only sender; the mirror queues are sent on
// by every worker and are therefore closed by no one (a worker that is still draining its backlog at shutdown would
// panic on its next mirror hand-off and take the collector down).
func checkQueueClosers(prog *core.Program, rr *core.RuleRun) {
	senders := map[*ssa.Global]map[*ssa.Function]bool{}
	closers := map[*ssa.Global][]ssa.Instruction{}
	note := func(g *ssa.Global, fn *ssa.Function) {
		if senders[g] == nil {
			senders[g] = map[*ssa.Function]bool{}
		}
		senders[g][fn] = true
	}
	for _, fn := range prog.RepoFuncs() {
		if core.PkgRel(fn) != "vflow" {
			continue
		}
		allInstrs(fn, func(ins ssa.Instruction) {
			switch x := ins.(type) {
			case *ssa.Send:
				if g := globalOf(x.Chan); g != nil && isUDPChan(x.Chan) {
					note(g, fn)
				}
			case *ssa.Select:
				for _, st := range x.States {
					if st.Dir == types.SendOnly {
						if g := globalOf(st.Chan); g != nil && isUDPChan(st.Chan) {
							note(g, fn)
						}
					}
				}
			case ssa.CallInstruction:
				if b, ok := x.Common().Value.(*ssa.Builtin); ok && b.Name() == "close" && len(x.Common().Args) == 1 {
					if g := globalOf(x.Common().Args[0]); g != nil && isUDPChan(x.Common().Args[0]) {
						closers[g] = append(closers[g], ins)
					}
				}
			}
		})
	}
	var gs []*ssa.Global
	for g := range senders {
		gs = append(gs, g)
	}
	sort.Slice(gs, func(i, j int) bool { return gs[i].Name() < gs[j].Name() })
	for _, g := range gs {
		key := "queue:" + g.Name() + ":closed-by-its-only-sender"
		if len(closers[g]) == 0 {
			rr.OK(key, g.Pos(), "never closed")
			continue
		}
		for _, c := range closers[g] {
			cf := c.Parent()
			bad := ""
			for sf := range senders[g] {
				// a closure of the closing function counts as that function
				if sf != cf && sf.Parent() != cf {
					bad = core.FuncName(sf)
				}
			}
			rr.Check(bad == "", key, c.Pos(), "closed by "+core.FuncName(cf)+", its only sender", core.FuncName(cf)+" closes "+g.Name()+" although "+bad+" sends on it: a sender that is still running when the queue is closed panics (send on closed channel), which takes the collector down while it drains its backlog at shutdown")
		}
	}
	if len(gs) == 0 {
		rr.Undecided("queues", token.NoPos, "no package-level datagram queue with a sender found")
	}
}
