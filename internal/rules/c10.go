package rules

import (
	"fmt"
	"go/token"
	"go/types"
	"strings"

	"golang.org/x/tools/go/ssa"

	"verif/internal/core"
)

func init() { register("C10", checkC10) }

func checkC10(rep *core.Report) {
	rep.Explanation = "Lockset invariant, schedule-independent: every read, iteration or len of a shard's template map holds that shard's read or write lock and every update the write lock (must-held dataflow over each function's CFG, with the lock-all/unlock-all loop idiom recognised structurally); a value containing shards that is handed to reflection (encoding/json) requires every shard of that container locked or must be a snapshot made of fresh maps; stored template records are built fresh per record and never mutated after insert/retrieve; locks are released on all paths and never nested. Objects not yet published (built inside the constructor/loader) are exempt; functions unreachable from main/exported API are listed and exempt."
	rep.Assume("sync.RWMutex provides mutual exclusion; Go maps are safe for concurrent readers")
	prog := rep.Prog
	r1 := rep.Rule("R10.1", "guarded-by: template map accesses hold the shard's lock (write lock for updates)", 4)
	r2 := rep.Rule("R10.2", "reflection escape: shards reach encoding/json only fully locked or as fresh snapshots", 2)
	r3 := rep.Rule("R10.3", "stored templates are immutable: built fresh per record, never written through after insert/retrieve", 4)
	r6 := rep.Rule("R10.6", "every shard lock is released on all paths; no shard lock is acquired while one is held", 4)
	for _, rel := range []string{"ipfix", "netflow/v9"} {
		c := findTplCache(prog, rel)
		if c.shardT == nil || c.insert == nil || c.retrieve == nil || c.dump == nil {
			r1.Undecided(rel+":anchors", token.NoPos, fmt.Sprintf("template cache anchors not resolved (shard=%v insert=%v retrieve=%v dump=%v)", c.shardT != nil, c.insert != nil, c.retrieve != nil, c.dump != nil))
			continue
		}
		// functions that acquire shard locks (for the nesting rule)
		lockers := map[*ssa.Function]bool{}
		for _, fn := range prog.RepoFuncs() {
			allInstrs(fn, func(ins ssa.Instruction) {
				if _, op, _, ok := c.lockOp(ins); ok && (op == "Lock" || op == "RLock") {
					lockers[fn] = true
				}
			})
		}
		for changed := true; changed; {
			changed = false
			for _, fn := range prog.RepoFuncs() {
				if lockers[fn] {
					continue
				}
				for _, cs := range prog.CG().Sites[fn] {
					for _, t := range cs.Targets {
						if lockers[t] && !lockers[fn] {
							lockers[fn] = true
							changed = true
						}
					}
				}
			}
		}
		fnsToCheck := append([]*ssa.Function(nil), c.touchers...)
		for _, fn := range prog.RepoFuncs() {
			has := false
			allInstrs(fn, func(ins ssa.Instruction) {
				if _, _, _, ok := c.lockOp(ins); ok {
					has = true
				}
			})
			if has {
				dup := false
				for _, f := range fnsToCheck {
					dup = dup || f == fn
				}
				if !dup {
					fnsToCheck = append(fnsToCheck, fn)
				}
			}
		}
		for _, fn := range fnsToCheck {
			name := core.FuncName(fn)
			if !reachableFromAPI(prog, fn) {
				r1.Note(name+":unreachable", fn.Pos(), "touches the template map but is unreachable from main and the exported API (test helper): excluded; the exclusion lapses if it becomes reachable")
				continue
			}
			held := c.lockAnalysis(fn)
			allInstrs(fn, func(ins ssa.Instruction) {
				var mp ssa.Value
				needW := false
				kind := ""
				switch x := ins.(type) {
				case *ssa.MapUpdate:
					mp, needW, kind = x.Map, true, "update"
				case *ssa.Lookup:
					mp, kind = x.X, "lookup"
				case *ssa.Range:
					mp, kind = x.X, "range"
				case *ssa.Call:
					if b, ok := x.Common().Value.(*ssa.Builtin); ok && len(x.Common().Args) > 0 {
						switch b.Name() {
						case "len":
							mp, kind = x.Common().Args[0], "len"
						case "delete", "clear":
							mp, needW, kind = x.Common().Args[0], true, b.Name()
						}
					}
				}
				if mp == nil {
					return
				}
				base, ok := c.mapBase(mp)
				if !ok {
					return
				}
				key := fmt.Sprintf("%s:%s", name, kind)
				st := held[ins]
				switch {
				case st.holds(base, needW):
					r1.OK(key, ins.Pos(), "shard lock held")
				case func() bool { _, all := st.holdsAll(needW); return all }():
					r1.OK(key, ins.Pos(), "all shards of the container locked")
				case isLocalFresh(base):
					r1.OK(key, ins.Pos(), "shard belongs to an object built in this function and not yet published")
				default:
					w := "read"
					if needW {
						w = "write"
					}
					r1.Fail(key, ins.Pos(), fmt.Sprintf("template map %s without holding the shard's %s lock: data race with concurrent decoders (the runtime aborts on concurrent map read and write)", kind, w))
				}
			})
			// ---- R10.6 pairing and nesting ----
			allInstrs(fn, func(ins ssa.Instruction) {
				base, op, deferred, ok := c.lockOp(ins)
				if !ok || deferred || (op != "Lock" && op != "RLock") {
					return
				}
				key := name + ":" + op + "-released"
				if l := core.LoopOf(fn, ins); l != nil {
					if cont, lop, isAll := c.allLoop(fn, l); isAll && lop == op {
						// lock-all loop: an unlock-all loop over the same container must post-dominate
						released := false
						var unlockHeader *ssa.BasicBlock
						for _, l2 := range core.NaturalLoops(fn) {
							if c2, op2, ok2 := c.allLoop(fn, l2); ok2 && c2 == cont && op2 == map[string]string{"Lock": "Unlock", "RLock": "RUnlock"}[op] {
								unlockHeader = l2.Header
							}
						}
						if unlockHeader != nil {
							w := core.Walk{Blocked: func(i ssa.Instruction) bool { return i.Block() == unlockHeader }}
							reach := w.ReachInstrs(ins)
							released = true
							for i := range reach {
								if _, isRet := i.(*ssa.Return); isRet && !l.Contains(i) {
									released = false
								}
							}
						}
						r6.Check(released, key, ins.Pos(), "lock-all loop is followed on every path by the unlock-all loop", "shards locked in a loop are not all released on every path to return: the cache deadlocks after the first dump")
						return
					}
				}
				want := map[string]string{"Lock": "Unlock", "RLock": "RUnlock"}[op]
				// deferred release of the same base anywhere after, or explicit release on every path
				okRel := false
				allInstrs(fn, func(i2 ssa.Instruction) {
					if b2, op2, d2, ok2 := c.lockOp(i2); ok2 && d2 && op2 == want && b2 == base && core.InstrDominates(ins, i2) {
						// the defer must directly follow (no return between)
						w := core.Walk{Blocked: func(i ssa.Instruction) bool { return i == i2 }}
						reach := w.ReachInstrs(ins)
						good := true
						for i := range reach {
							if _, isRet := i.(*ssa.Return); isRet {
								good = false
							}
						}
						okRel = okRel || good
					}
				})
				if !okRel {
					w := core.Walk{Blocked: func(i ssa.Instruction) bool {
						b2, op2, d2, ok2 := c.lockOp(i)
						return ok2 && !d2 && op2 == want && b2 == base
					}}
					okRel = true
					for i := range w.ReachInstrs(ins) {
						if _, isRet := i.(*ssa.Return); isRet {
							okRel = false
						}
					}
				}
				r6.Check(okRel, key, ins.Pos(), "released by defer or on every path", "a path returns with the shard lock still held: every later access to the shard blocks forever")
			})
			// nesting: calls made while a lock is held must not reach a locker
			for _, cs := range prog.CG().Sites[fn] {
				st := held[cs.Instr.(ssa.Instruction)]
				if len(st) == 0 {
					continue
				}
				if _, _, _, isOp := c.lockOp(cs.Instr.(ssa.Instruction)); isOp {
					continue
				}
				for _, t := range cs.Targets {
					if lockers[t] {
						r6.Fail(name+":nested:"+core.FuncName(t), cs.Instr.Pos(), "calls a function that acquires a shard lock while holding one: possible self-deadlock (RWMutex is not reentrant)")
					}
				}
			}
		}
		// ---- R10.2 reflection escape ----
		checkReflectionEscape(prog, r2, c)
		// ---- R10.3 immutability ----
		checkTemplateImmutability(prog, r3, c)
	}
	// the record a decoder is handed is a copy, but its specifier lists are the cached template's arrays: nothing
	// outside the parsers writes, copies or appends into them (same rule as R12.10)
	checkTemplateSpecifiersReadOnly(prog, r3)
	// "a lookup returns exactly the template of that exporter and id" rests on two premises shared with C04: distinct
	// (exporter, id) pairs never share a key, and the unlocked key/shard derivation modifies nothing shared
	r7 := rep.Rule("R10.7", "premise (shared with C04): the cache key is injective in (exporter address, template id)", 4)
	for _, rel := range []string{"ipfix", "netflow/v9"} {
		if c := findTplCache(prog, rel); c.shardT != nil && c.getShard != nil {
			checkKeyInjective(r7, c)
		}
	}
	r8 := rep.Rule("R10.8", "premise (shared with C04): the key/shard derivation, which runs before any lock is taken, modifies no package-level object", 1)
	checkDerivationPure(prog, r8)
}

// checkReflectionEscape: every call that hands a value containing shards to a reflection-based encoder.
func checkReflectionEscape(prog *core.Program, r2 *core.RuleRun, c *tplCache) {
	reflectors := map[string]int{"encoding/json.Marshal": 0, "encoding/json.MarshalIndent": 0, "(*encoding/json.Encoder).Encode": 1,
		"fmt.Sprintf": -1, "fmt.Printf": -1, "fmt.Println": -1, "fmt.Sprint": -1, "(*log.Logger).Println": -1, "(*log.Logger).Printf": -1,
		"gopkg.in/yaml.v2.Marshal": 0, "encoding/gob.(*Encoder).Encode": 1, "reflect.ValueOf": 0, "reflect.DeepEqual": -1}
	for _, fn := range prog.RepoFuncs() {
		var held map[ssa.Instruction]lockState
		allInstrs(fn, func(ins ssa.Instruction) {
			call, ok := ins.(*ssa.Call)
			if !ok {
				return
			}
			idx, isRefl := reflectors[calleeName(call)]
			if !isRefl {
				return
			}
			var args []ssa.Value
			if idx >= 0 && idx < len(call.Common().Args) {
				args = []ssa.Value{call.Common().Args[idx]}
			} else {
				args = call.Common().Args
			}
			for _, a := range args {
				// look through varargs packing: collect the MakeInterface operands feeding this argument
				for v := range core.BackwardSlice(a, core.SliceOpts{NoCallArgs: true}) {
					mi, isMI := v.(*ssa.MakeInterface)
					if !isMI || !containsType(mi.X.Type(), c.shardT, map[types.Type]bool{}) {
						continue
					}
					if held == nil {
						held = c.lockAnalysis(fn)
					}
					name := core.FuncName(fn)
					key := fmt.Sprintf("%s:%s", name, strings.TrimPrefix(calleeName(call), "encoding/"))
					// which container of shards is inside the value?
					var containers []ssa.Value
					for x := range core.BackwardSlice(mi.X, core.SliceOpts{NoCallArgs: true}) {
						if c.cacheT != nil && types.Identical(x.Type(), c.cacheT) {
							switch x.(type) {
							case *ssa.Parameter, *ssa.MakeSlice, *ssa.Call, *ssa.Global:
								containers = append(containers, x)
							case *ssa.UnOp:
								if g := globalOf(x); g != nil {
									containers = append(containers, x)
								}
							}
						}
					}
					if len(containers) == 0 {
						r2.Undecided(key, call.Pos(), "a value containing template shards reaches reflection but its shard container could not be identified")
						continue
					}
					for _, cont := range containers {
						st := held[call]
						if ms, isFresh := cont.(*ssa.MakeSlice); isFresh {
							// snapshot: every map stored into its shards must itself be fresh
							alias := snapshotAliasesLiveMap(c, fn, ms)
							r2.Check(alias == nil, key+":snapshot", call.Pos(), "marshals a snapshot built from fresh maps",
								"the value handed to reflection is a local 'snapshot' whose shards still reference the live template maps (map reference copied at "+posOf(prog, alias)+"): encoding/json iterates them without any lock while decoders insert")
							continue
						}
						heldAll := false
						for k := range st {
							if k.all && k.base == cont {
								heldAll = true
							}
						}
						r2.Check(heldAll, key+":locked", call.Pos(), "every shard of the container is locked while reflection walks it",
							"encoding/json walks every shard map of the cache with no lock held while workers and the peer path may insert: data race, 'concurrent map iteration and map write' kills the process")
					}
				}
			}
		})
	}
}

func posOf(prog *core.Program, ins ssa.Instruction) string {
	if ins == nil {
		return "-"
	}
	return prog.Pos(ins.Pos())
}

// snapshotAliasesLiveMap returns the store that puts a non-fresh map into a shard reachable from the snapshot.
func snapshotAliasesLiveMap(c *tplCache, fn *ssa.Function, snap *ssa.MakeSlice) ssa.Instruction {
	var bad ssa.Instruction
	allInstrs(fn, func(ins ssa.Instruction) {
		st, ok := ins.(*ssa.Store)
		if !ok {
			return
		}
		fa, isFA := st.Addr.(*ssa.FieldAddr)
		if !isFA || !c.isMapFieldAddr(fa) {
			return
		}
		// the shard object must be local (stored into the snapshot); the map value must be a MakeMap
		if _, fresh := st.Val.(*ssa.MakeMap); fresh {
			return
		}
		if _, isAlloc := fa.X.(*ssa.Alloc); isAlloc {
			bad = ins
		}
	})
	return bad
}

// checkTemplateImmutability implements R10.3.
func checkTemplateImmutability(prog *core.Program, r3 *core.RuleRun, c *tplCache) {
	recT := c.insert.Signature.Params().At(c.insert.Signature.Params().Len() - 1).Type()
	for _, cs := range prog.CG().In[c.insert] {
		fn := cs.Caller
		if fn.Synthetic != "" {
			continue // compiler-generated receiver wrapper
		}
		name := core.FuncName(fn)
		args := cs.Instr.Common().Args
		rec := args[len(args)-1]
		key := name + ":insert-fresh-record"
		ld, isLoad := rec.(*ssa.UnOp)
		if !isLoad || ld.Op != token.MUL {
			r3.Undecided(key, cs.Instr.Pos(), "inserted record is not a load of a local record variable")
			continue
		}
		switch a := ld.X.(type) {
		case *ssa.Alloc:
			loop := core.LoopOf(fn, cs.Instr.(ssa.Instruction))
			if loop == nil {
				r3.OK(key, cs.Instr.Pos(), "single insert outside any loop")
				continue
			}
			// fresh per iteration: the variable is allocated (heap `new`) inside the same loop, or zero-stored
			// in the iteration before any use
			inLoop := loop.Contains(a)
			zeroed := false
			for _, ref := range referrers(a) {
				if st, ok := ref.(*ssa.Store); ok && st.Addr == ssa.Value(a) && loop.Contains(st) {
					if cst, ok := st.Val.(*ssa.Const); ok && cst.Value == nil {
						zeroed = zeroed || core.InstrDominates(st, cs.Instr.(ssa.Instruction))
					}
				}
			}
			resliced := false
			allInstrs(fn, func(ins ssa.Instruction) {
				if sl, ok := ins.(*ssa.Slice); ok {
					if u, ok := sl.X.(*ssa.UnOp); ok && u.Op == token.MUL {
						if fa, ok := u.X.(*ssa.FieldAddr); ok && fa.X == ssa.Value(a) {
							resliced = true
						}
					}
				}
			})
			r3.Check((inLoop || zeroed) && !resliced, key, cs.Instr.Pos(), "record variable is fresh (zero) for every record parsed",
				"the record handed to the cache is a variable reused across records (not re-created or zeroed per iteration, or re-sliced to [:0]): appending the next record's specifiers overwrites the backing array of the template already cached")
		default:
			// e.g. *tr where tr is the RPC reply pointer: fresh object produced by the decoder of the reply
			if _, isCallRes := core.AddrRoot(ld.X).(*ssa.Extract); isCallRes {
				r3.OK(key, cs.Instr.Pos(), "record is the object returned by a call (peer reply)")
			} else if _, isCall := core.AddrRoot(ld.X).(*ssa.Call); isCall {
				r3.OK(key, cs.Instr.Pos(), "record is the object returned by a call (peer reply)")
			} else {
				r3.Undecided(key, cs.Instr.Pos(), "cannot establish that the inserted record is fresh")
			}
		}
	}
	// no write through a retrieved record's slices, no append onto them
	for _, cs := range prog.CG().In[c.retrieve] {
		fn := cs.Caller
		name := core.FuncName(fn)
		call, ok := cs.Instr.(*ssa.Call)
		if !ok {
			continue
		}
		uses := core.ForwardUses(call)
		bad := ""
		for ins := range uses {
			switch x := ins.(type) {
			case *ssa.Store:
				root := core.AddrRoot(x.Addr)
				if _, isAlloc := root.(*ssa.Alloc); !isAlloc && root != x.Addr {
					if ri, ok := root.(ssa.Instruction); ok && uses[ri] {
						bad = "element store at " + prog.Pos(x.Pos())
					}
				}
			case *ssa.Call:
				if b, ok := x.Common().Value.(*ssa.Builtin); ok && b.Name() == "append" {
					if a0, ok := x.Common().Args[0].(ssa.Instruction); ok && uses[a0] {
						bad = "append at " + prog.Pos(x.Pos())
					}
				}
			}
		}
		r3.Check(bad == "", name+":retrieved-record-readonly", call.Pos(), "retrieved record only read", "a template obtained from the cache is modified ("+bad+"): concurrent decoders of the same exporter observe a half-written template")
	}
	_ = recT
}
