package rules

import (
	"fmt"
	"go/token"
	"go/types"
	"sort"
	"strings"

	"golang.org/x/tools/go/ssa"

	"verif/internal/core"
)

func init() { register("C07", checkC07) }

func u32s(names ...string) []specField {
	var out []specField
	for _, n := range names {
		w := 4
		if strings.HasSuffix(n, ":8") {
			n, w = strings.TrimSuffix(n, ":8"), 8
		}
		out = append(out, specField{n, w})
	}
	return out
}

// sFlow v5 structures (sflow_version_5.txt), keyed by the Go struct that becomes the JSON object.
var sflowSpecs = map[string][]specField{
	"FlowSample":    {{"SequenceNo", 4}, {"SourceID", 1}, {"skip", 3}, {"SamplingRate", 4}, {"SamplePool", 4}, {"Drops", 4}, {"Input", 4}, {"Output", 4}, {"RecordsNo", 4}},
	"SampledHeader": {{"Protocol", 4}, {"FrameLength", 4}, {"Stripped", 4}, {"HeaderLength", 4}, {"Header", -1}},
	"ExtSwitchData": u32s("SrcVlan", "SrcPriority", "DstVlan", "DstPriority"),
	"ExtRouterData": {{"buf:buff", -1}, {"SrcMask", 4}, {"DstMask", 4}},
	"CounterSample": {{"SequenceNo", 4}, {"SourceIDType", 1}, {"buf:buf", 3}, {"RecordsNo", 4}},
	"GenericInterfaceCounters": u32s("Index", "Type", "Speed:8", "Direction", "Status", "InOctets:8", "InUnicastPackets", "InMulticastPackets", "InBroadcastPackets", "InDiscards", "InErrors", "InUnknownProtocols",
		"OutOctets:8", "OutUnicastPackets", "OutMulticastPackets", "OutBroadcastPackets", "OutDiscards", "OutErrors", "PromiscuousMode"),
	"EthernetInterfaceCounters": u32s("AlignmentErrors", "FCSErrors", "SingleCollisionFrames", "MultipleCollisionFrames", "SQETestErrors", "DeferredTransmissions", "LateCollisions", "ExcessiveCollisions",
		"InternalMACTransmitErrors", "CarrierSenseErrors", "FrameTooLongs", "InternalMACReceiveErrors", "SymbolErrors"),
	"TokenRingCounters": u32s("LineErrors", "BurstErrors", "ACErrors", "AbortTransErrors", "InternalErrors", "LostFrameErrors", "ReceiveCongestions", "FrameCopiedErrors", "TokenErrors", "SoftErrors", "HardErrors",
		"SignalLoss", "TransmitBeacons", "Recoverys", "LobeWires", "Removes", "Singles", "FreqErrors"),
	"VGCounters": u32s("InHighPriorityFrames", "InHighPriorityOctets:8", "InNormPriorityFrames", "InNormPriorityOctets:8", "InIPMErrors", "InOversizeFrameErrors", "InDataErrors", "InNullAddressedFrames",
		"OutHighPriorityFrames", "OutHighPriorityOctets:8", "TransitionIntoTrainings", "HCInHighPriorityOctets:8", "HCInNormPriorityOctets:8", "HCOutHighPriorityOctets:8"),
	"VlanCounters":      u32s("ID", "Octets:8", "UnicastPackets", "MulticastPackets", "BroadcastPackets", "Discards"),
	"ProcessorCounters": u32s("CPU5s", "CPU1m", "CPU5m", "TotalMemory:8", "FreeMemory:8"),
}

// record format number -> (JSON key in Records, result struct)
var flowRecordFormats = map[int64][2]string{1: {"RawHeader", "Packet"}, 1001: {"ExtSwitch", "ExtSwitchData"}, 1002: {"ExtRouter", "ExtRouterData"}}
var counterRecordFormats = map[int64][2]string{1: {"GenInt", "GenericInterfaceCounters"}, 2: {"EthInt", "EthernetInterfaceCounters"}, 3: {"TRInt", "TokenRingCounters"},
	4: {"VGInt", "VGCounters"}, 5: {"Vlan", "VlanCounters"}, 1001: {"Proc", "ProcessorCounters"}}

// packet field specs: bit fields as (byte0, bit offset from msb of byte0, nbits); ranges as [lo,hi) octets
type pktField struct {
	name   string
	byte0  int
	bitoff int
	nbits  int
	lo, hi int // for address/octet ranges (nbits == 0)
}

var packetSpecs = map[string][]pktField{
	"IPv4Header": {{"Version", 0, 0, 4, 0, 0}, {"TOS", 1, 0, 8, 0, 0}, {"TotalLen", 2, 0, 16, 0, 0}, {"ID", 4, 0, 16, 0, 0}, {"Flags", 6, 0, 3, 0, 0}, {"FragOff", 6, 3, 13, 0, 0},
		{"TTL", 8, 0, 8, 0, 0}, {"Protocol", 9, 0, 8, 0, 0}, {"Checksum", 10, 0, 16, 0, 0}, {"Src", 0, 0, 0, 12, 16}, {"Dst", 0, 0, 0, 16, 20}},
	"IPv6Header": {{"Version", 0, 0, 4, 0, 0}, {"TrafficClass", 0, 4, 8, 0, 0}, {"FlowLabel", 1, 4, 20, 0, 0}, {"PayloadLen", 4, 0, 16, 0, 0}, {"NextHeader", 6, 0, 8, 0, 0}, {"HopLimit", 7, 0, 8, 0, 0},
		{"Src", 0, 0, 0, 8, 24}, {"Dst", 0, 0, 0, 24, 40}},
	"TCPHeader": {{"SrcPort", 0, 0, 16, 0, 0}, {"DstPort", 2, 0, 16, 0, 0}, {"DataOffset", 12, 0, 4, 0, 0}, {"Flags", 12, 7, 9, 0, 0}},
	"UDPHeader": {{"SrcPort", 0, 0, 16, 0, 0}, {"DstPort", 2, 0, 16, 0, 0}},
	"ICMP":      {{"Type", 0, 0, 8, 0, 0}, {"Code", 1, 0, 8, 0, 0}, {"RestHeader", 0, 0, 0, 4, -1}},
	"Datalink":  {{"EtherType", 12, 0, 16, 0, 0}, {"DstMAC", 0, 0, 0, 0, 6}, {"SrcMAC", 0, 0, 0, 6, 12}},
}

// header sizes each layer's decoder must guard and advance by
var packetHeaderLen = map[string]int{"IPv4Header": 20, "IPv6Header": 40, "TCPHeader": 20, "UDPHeader": 8, "Datalink": 14}

func normDest(d string) string {
	if i := strings.LastIndex(d, "."); i >= 0 && strings.HasPrefix(d, "obj:") {
		return d[i+1:]
	}
	return d
}

func normPath(p layPath) layPath {
	q := layPath{Guards: p.Guards, OK: p.OK}
	for _, e := range p.Events {
		e.Dest = normDest(e.Dest)
		q.Events = append(q.Events, e)
	}
	return q
}

func checkC07(rep *core.Report) {
	rep.Explanation = "Every fixed-layout structure the sFlow decoder fills is extracted from the code (sequential big-endian reads: offset, width and destination field per read; indexed bytes: the (octet, bit) each result bit comes from) and compared with tables of the sFlow v5 structures and of the Ethernet/802.1Q, IPv4, IPv6, TCP, UDP and ICMP headers compiled into the checker, keyed by the Go field that becomes the JSON key. Since sFlow decoding is straight-line reads without template indirection this covers all field values of well-formed datagrams. Also: every relative seek that skips an element uses the length word read for that element in the same iteration; format numbers dispatch to the structures and JSON keys the format assigns; each layer's length guard equals the octets its decoder reads and advances by; decoders never recycle buffers their results alias. IPv4 options / IPv6 extension headers and records that over/under-run their declared length are value-dependent and not covered."
	rep.Assume("Vlan carries the whole 16-bit TCI, FlowSample.SourceID the source-id type octet (today's reading of what vflow publishes)")
	prog := rep.Prog
	r1 := rep.Rule("R07.1", "sFlow v5 structures: order, width and destination of every big-endian read", 100)
	r2 := rep.Rule("R07.2", "sampled-header fields: every result bit comes from the (octet, bit) the L2/L3/L4 formats assign", 30)
	r3 := rep.Rule("R07.3", "skips use the length word read for the skipped element", 4)
	r4 := rep.Rule("R07.4", "format numbers dispatch to the right structures and JSON keys", 12)
	r5 := rep.Rule("R07.5", "length guards equal the octets each layer's decoder reads and advances by", 8)
	r6 := rep.Rule("R07.6", "decoders do not recycle buffers their results alias", 1)

	// ---- R07.1 ----
	var types_ []string
	for t := range sflowSpecs {
		types_ = append(types_, t)
	}
	sort.Strings(types_)
	for _, t := range types_ {
		spec := sflowSpecs[t]
		fillers := findFillers(prog, "sflow", t)
		if len(fillers) == 0 {
			r1.Undecided("sflow."+t+":filler", token.NoPos, "no function fills "+t+" from the datagram")
			continue
		}
		for _, f := range fillers {
			ps := extractLayout(prog, f)
			debugPaths(f, ps)
			if len(ps) == 0 {
				r1.Undecided(core.FuncName(f)+":paths", f.Pos(), "no success path extracted")
			}
			for _, p := range ps {
				p = normPath(p)
				diff := compareSeq(p, spec)
				r1.Check(diff == "", core.FuncName(f)+":layout", f.Pos(), fmt.Sprintf("%d reads in format order", len(spec)), "sFlow "+t+": "+diff)
				if diff == "" {
					for _, e := range p.reads() {
						r1.OK(fmt.Sprintf("sflow.%s.%s@%d/%d", t, e.Dest, e.Off, e.Width), e.Pos, "big-endian")
					}
				}
			}
		}
	}
	checkSFlowSpecials(prog, r1)
	// ---- R07.2 ----
	checkPacketLayouts(prog, r2, r5)
	// ---- R07.3 ----
	checkSkipProvenance(prog, r3)
	// ---- R07.4 ----
	checkRecordDispatch(prog, r4, "decodeFlowSample", flowRecordFormats)
	checkRecordDispatch(prog, r4, "decodeFlowCounter", counterRecordFormats)
	checkSampleDispatch(prog, r4)
	checkPacketDispatch(prog, r4)
	// ---- R07.6 ----
	checkDecodersDoNotRecycle(prog, r6)
}

// checkSFlowSpecials: datagram header, sample tag split, source id index, padding rule, next hop.
func checkSFlowSpecials(prog *core.Program, r1 *core.RuleRun) {
	// datagram header
	if hd := prog.Method("sflow", "SFDecoder", "sfHeaderDecode"); hd != nil {
		ps := extractLayout(prog, hd)
		debugPaths(hd, ps)
		spec := []specField{{"Version", 4}, {"IPVersion", 4}, {"IPAddress", -1}, {"AgentSubID", 4}, {"SequenceNo", 4}, {"SysUpTime", 4}, {"SamplesNo", 4}}
		if len(ps) == 0 {
			r1.Undecided(core.FuncName(hd)+":paths", hd.Pos(), "no success path extracted")
		}
		for _, p := range ps {
			diff := compareSeq(normPath(p), spec)
			r1.Check(diff == "", core.FuncName(hd)+":layout", hd.Pos(), "version, address type, address, sub-agent, sequence, uptime, samples", "sFlow datagram header: "+diff)
		}
		// address length 4, or 16 when the address type is 2; version must be 5
		lens := map[int64]bool{}
		v5, ip2 := false, false
		allInstrs(hd, func(ins ssa.Instruction) {
			if ms, ok := ins.(*ssa.MakeSlice); ok {
				if phi, ok := ms.Len.(*ssa.Phi); ok {
					for _, e := range phi.Edges {
						if c, ok := ssaConstInt(e); ok {
							lens[c] = true
						}
					}
				}
			}
			if b, ok := ins.(*ssa.BinOp); ok {
				if c, ok := ssaConstInt(b.Y); ok {
					f := normDest(fieldLoadNameIn(hd, b.X))
					if f == "Version" && c == 5 && b.Op == token.NEQ {
						v5 = true
					}
					if f == "IPVersion" && c == 2 && b.Op == token.EQL {
						ip2 = true
					}
				}
			}
		})
		r1.Check(lens[4] && lens[16] && len(lens) == 2 && ip2, core.FuncName(hd)+":agent-address-length", hd.Pos(), "4 octets, 16 when address type == 2", fmt.Sprintf("agent address length choices %v / type test present=%v", keysOf(lens), ip2))
		r1.Check(v5, core.FuncName(hd)+":version", hd.Pos(), "only version 5 accepted", "datagram version is not required to be 5")
	} else {
		r1.Undecided("sflow:sfHeaderDecode", token.NoPos, "datagram header decoder not found")
	}
	// sample tag: enterprise = tag >> 12, format = tag & 0xfff, then length
	if gi := prog.Method("sflow", "SFDecoder", "getSampleInfo"); gi != nil {
		ps := extractLayout(prog, gi)
		debugPaths(gi, ps)
		okSeq := len(ps) > 0
		for _, p := range ps {
			rs := p.reads()
			if len(rs) != 2 || rs[0].Width != 4 || rs[1].Width != 4 {
				okSeq = false
			}
		}
		r1.Check(okSeq, core.FuncName(gi)+":layout", gi.Pos(), "tag/4 then length/4 on every path", "sample header is not read as a 4-octet tag followed by a 4-octet length on every path")
		shr, and := false, false
		allInstrs(gi, func(ins ssa.Instruction) {
			if b, ok := ins.(*ssa.BinOp); ok {
				if c, ok := ssaConstInt(b.Y); ok {
					if b.Op == token.SHR && c == 12 {
						shr = true
					}
					if b.Op == token.AND && c == 0xfff {
						and = true
					}
				}
			}
		})
		r1.Check(shr && and, core.FuncName(gi)+":tag-split", gi.Pos(), "enterprise = tag>>12, format = tag&0xfff", "the sample tag is not split into 20-bit enterprise and 12-bit format")
	}
	// counter sample source id index: big-endian 24 bits of the 3-octet buffer
	if cs := findFillers(prog, "sflow", "CounterSample"); len(cs) == 1 {
		fn := cs[0]
		allInstrs(fn, func(ins ssa.Instruction) {
			st, ok := ins.(*ssa.Store)
			if !ok || destOfAddr(fn, st.Addr) != "SourceIDIdx" {
				return
			}
			v, ok2 := bitsOf(fn, st.Val, 0)
			want := beField(0, 0, 24)
			r1.Check(ok2 && equalVec(v, want), core.FuncName(fn)+":SourceIDIdx", st.Pos(), "big-endian 24 bits of the 3 octets after the type octet", "source id index is not the big-endian 24-bit value of the three octets read: "+fmt.Sprint(v))
		})
	}
	// sampled header: cap and XDR padding
	if sh := findFillers(prog, "sflow", "SampledHeader"); len(sh) == 1 {
		fn := sh[0]
		capOK, padOK, trimOK := false, false, false
		allInstrs(fn, func(ins ssa.Instruction) {
			switch x := ins.(type) {
			case *ssa.BinOp:
				if c, ok := ssaConstInt(x.Y); ok && x.Op == token.GTR && c == 1500 && fieldLoadNameIn(fn, x.X) == "HeaderLength" {
					capOK = true
				}
			case *ssa.MakeSlice:
				e := printExpr(fn, x.Len, 0)
				padOK = e == "(HeaderLength+((4-HeaderLength)%4))" || e == "(HeaderLength+phi:tmp)"
				if !padOK {
					padOK = strings.Contains(e, "HeaderLength") && strings.Contains(printExprDeep(fn, x.Len), "%4")
				}
			case *ssa.Slice:
				if x.High != nil && fieldLoadNameIn(fn, x.High) == "HeaderLength" && x.Low == nil {
					trimOK = true
				}
			}
		})
		r1.Check(capOK, core.FuncName(fn)+":cap", fn.Pos(), "header length capped at 1500 before allocating", "sampled header length is not capped at 1500")
		r1.Check(padOK, core.FuncName(fn)+":xdr-padding", fn.Pos(), "reads header length rounded up to a multiple of 4", "the sampled header is not read with XDR padding to a multiple of 4 octets")
		r1.Check(trimOK, core.FuncName(fn)+":trim", fn.Pos(), "padding removed from the published header", "the padding is not removed from the header bytes")
	}
	// extended router: next hop = buffer after the 4-octet address type
	if er := findFillers(prog, "sflow", "ExtRouterData"); len(er) == 1 {
		fn := er[0]
		okHop := false
		allInstrs(fn, func(ins ssa.Instruction) {
			if st, ok := ins.(*ssa.Store); ok && destOfAddr(fn, st.Addr) == "NextHop" {
				if sl, ok := stripConv(st.Val).(*ssa.Slice); ok && sl.High == nil {
					if lo, ok := ssaConstInt(sl.Low); ok && lo == 4 {
						okHop = true
					}
				}
			}
		})
		r1.Check(okHop, core.FuncName(fn)+":NextHop", fn.Pos(), "next hop = address octets after the 4-octet address type", "next hop is not the address octets following the address type word")
	}
}

func printExprDeep(fn *ssa.Function, v ssa.Value) string {
	// expand phis one level for the padding expression
	var parts []string
	for x := range core.BackwardSlice(v, core.SliceOpts{}) {
		if b, ok := x.(*ssa.BinOp); ok {
			parts = append(parts, printExpr(fn, b, 0))
		}
	}
	sort.Strings(parts)
	return strings.Join(parts, ";")
}

// fieldLoadNameIn names the receiver/object field a value was loaded from.
func fieldLoadNameIn(fn *ssa.Function, v ssa.Value) string {
	v = stripConv(v)
	if u, ok := v.(*ssa.UnOp); ok && u.Op == token.MUL {
		if fa, ok := u.X.(*ssa.FieldAddr); ok {
			return normDest(destOfAddr(fn, fa))
		}
	}
	return ""
}

// structFieldStores returns field -> stored value for composite literals of the named struct built in fn.
func structFieldStores(fn *ssa.Function, typ string) map[string]ssa.Value {
	out := map[string]ssa.Value{}
	allInstrs(fn, func(ins ssa.Instruction) {
		st, ok := ins.(*ssa.Store)
		if !ok {
			return
		}
		fa, ok := st.Addr.(*ssa.FieldAddr)
		if !ok {
			return
		}
		owner, f, _ := core.FieldOf(fa)
		if n := namedOf(owner); n != nil && n.Obj().Name() == typ {
			if _, isAlloc := fa.X.(*ssa.Alloc); isAlloc {
				out[f.Name()] = st.Val
			}
		}
	})
	return out
}

func checkPacketLayouts(prog *core.Program, r2, r5 *core.RuleRun) {
	var typs []string
	for t := range packetSpecs {
		typs = append(typs, t)
	}
	sort.Strings(typs)
	for _, t := range typs {
		// the function building a T from bytes: contains field stores into a local T
		var fn *ssa.Function
		for _, f := range prog.RepoFuncs() {
			if core.PkgRel(f) == "packet" && f.Synthetic == "" && len(structFieldStores(f, t)) > 0 {
				fn = f
			}
		}
		if fn == nil {
			r2.Undecided("packet."+t+":builder", token.NoPos, "no function builds "+t)
			continue
		}
		stores := structFieldStores(fn, t)
		name := core.FuncName(fn)
		bases := map[string]bool{}
		for _, pf := range packetSpecs[t] {
			key := fmt.Sprintf("packet.%s.%s", t, pf.name)
			v, has := stores[pf.name]
			if !has {
				r2.Fail(key, fn.Pos(), "field is never filled by "+name)
				continue
			}
			if pf.nbits > 0 {
				got, ok := bitsOf(fn, v, 0)
				want := beField(pf.byte0, pf.bitoff, pf.nbits)
				if !ok {
					r2.Undecided(key, v.Pos(), "expression is not a pure extraction of header bits")
					continue
				}
				for _, b := range vecBases(got) {
					bases[b] = true
				}
				r2.Check(equalVec(got, want), key, v.Pos(), fmt.Sprintf("octet %d bit offset %d, %d bits", pf.byte0, pf.bitoff, pf.nbits),
					fmt.Sprintf("field %s.%s takes its bits from %s; the header format puts it at octet %d, bit offset %d, width %d (%s)", t, pf.name, got, pf.byte0, pf.bitoff, pf.nbits, want))
				continue
			}
			// octet ranges: net.IP(data[lo:hi]).String(), Sprintf(hex, b[lo]...b[hi-1]), or data[lo:]
			lo, hi, ok := octetRange(fn, v)
			r2.Check(ok && lo == pf.lo && hi == pf.hi, key, v.Pos(), fmt.Sprintf("octets %d..%d", pf.lo, pf.hi), fmt.Sprintf("field %s.%s is built from octets [%d:%d), the format has [%d:%d)", t, pf.name, lo, hi, pf.lo, pf.hi))
		}
		// no field of T left out of the table
		if n := prog.NamedType("packet", t); n != nil {
			st := n.Underlying().(*types.Struct)
			for i := 0; i < st.NumFields(); i++ {
				f := st.Field(i).Name()
				found := false
				for _, pf := range packetSpecs[t] {
					found = found || pf.name == f
				}
				if !found && f != "Reserved" && f != "Vlan" {
					r2.Undecided("packet."+t+"."+f, st.Field(i).Pos(), "published field without an entry in the checker's format table")
				}
			}
		}
		// ---- R07.5: guard and advance ----
		if want, ok := packetHeaderLen[t]; ok {
			guard := int64(-1)
			allInstrs(fn, func(ins ssa.Instruction) {
				if b, ok := ins.(*ssa.BinOp); ok && b.Op == token.LSS {
					if c, ok := b.X.(*ssa.Call); ok {
						if bi, ok := c.Common().Value.(*ssa.Builtin); ok && bi.Name() == "len" {
							if k, ok := ssaConstInt(b.Y); ok {
								guard = k
							}
						}
					}
				}
			})
			r5.Check(int(guard) == want, name+":guard", fn.Pos(), fmt.Sprintf("rejects fewer than %d octets", want), fmt.Sprintf("length guard is %d, the header has %d octets", guard, want))
		} else {
			// a decoder with an open tail (ICMP: type, code, rest of header): the guard is exactly what its own reads
			// need - the highest fixed index + 1, and one octet of the tail b[k:]
			need, guard := int64(0), int64(-1)
			allInstrs(fn, func(ins ssa.Instruction) {
				switch x := ins.(type) {
				case *ssa.IndexAddr:
					if isByteSlice(x.X.Type()) {
						if k, ok := ssaConstInt(x.Index); ok && k+1 > need {
							need = k + 1
						}
					}
				case *ssa.Slice:
					if isByteSlice(x.X.Type()) && x.Low != nil {
						if k, ok := ssaConstInt(x.Low); ok && x.High == nil && k+1 > need {
							need = k + 1
						}
					}
					if isByteSlice(x.X.Type()) && x.High != nil {
						if k, ok := ssaConstInt(x.High); ok && k > need {
							need = k
						}
					}
				}
			})
			// the guard is the smallest length the decoder accepts, whatever form its test has
			guard = minAcceptedLen(fn)
			if guard >= 0 && need > 0 {
				r5.Check(guard == need, name+":guard", fn.Pos(), fmt.Sprintf("rejects fewer than %d octets, exactly what its reads need", need),
					fmt.Sprintf("length guard is %d but the decoder's own reads need %d octets: a sampled header that ends inside this layer is rejected (and with it the whole datagram) although it can be decoded, or read past its end", guard, need))
			}
		}
	}
	// advance amounts in the packet walker: after L3 by header length, after L4 by 4/20/8
	for _, fn := range prog.RepoFuncs() {
		if core.PkgRel(fn) != "packet" {
			continue
		}
		allInstrs(fn, func(ins ssa.Instruction) {
			st, ok := ins.(*ssa.Store)
			if !ok || destOfAddr(fn, st.Addr) != "data" {
				return
			}
			sl, ok := st.Val.(*ssa.Slice)
			if !ok || sl.High != nil || sl.Low == nil {
				return
			}
			name := core.FuncName(fn)
			switch {
			case strings.Contains(name, "IPv4"):
				c, _ := ssaConstInt(sl.Low)
				r5.Check(c == 20, name+":advance", st.Pos(), "advances by 20", fmt.Sprintf("IPv4 decoder advances by %d octets", c))
			case strings.Contains(name, "IPv6"):
				c, _ := ssaConstInt(sl.Low)
				r5.Check(c == 40, name+":advance", st.Pos(), "advances by 40", fmt.Sprintf("IPv6 decoder advances by %d octets", c))
			case strings.Contains(name, "decodeEthernet") && !strings.Contains(name, "Header"):
				c, _ := ssaConstInt(sl.Low)
				r5.Check(c == 14, name+":advance", st.Pos(), "advances by 14", fmt.Sprintf("Ethernet decoder advances by %d octets", c))
			case strings.Contains(name, "decodeNextLayer"):
				// phi of per-protocol lengths: each must not exceed the guard of the decoder called on that path
				if phi, ok := sl.Low.(*ssa.Phi); ok {
					for i, e := range phi.Edges {
						adv, _ := ssaConstInt(e)
						pred := phi.Block().Preds[i]
						// the decoder call that dominates this predecessor
						var callee *ssa.Function
						for b := pred; b != nil && callee == nil; b = b.Idom() {
							for _, i2 := range b.Instrs {
								if c, ok := i2.(*ssa.Call); ok && c.Common().StaticCallee() != nil && prog.IsRepoFunc(c.Common().StaticCallee()) && strings.HasPrefix(c.Common().StaticCallee().Name(), "decode") {
									callee = c.Common().StaticCallee()
								}
							}
						}
						if callee == nil {
							continue
						}
						g := minAcceptedLen(callee)
						r5.Check(adv <= g, fmt.Sprintf("%s:advance-after-%s", name, callee.Name()), st.Pos(), fmt.Sprintf("advances by %d, %s guarantees %d octets", adv, callee.Name(), g),
							fmt.Sprintf("after %s (which accepts %d octets) the walker advances by %d octets: a header of %d..%d octets panics with slice bounds out of range", callee.Name(), g, adv, g, adv-1))
					}
				}
			}
		})
	}
	// VLAN tag: TCI = octets 14..15, inner type copied from 16..17, 4 octets removed
	if fn := prog.Method("packet", "Packet", "decodeEthernet"); fn != nil {
		name := core.FuncName(fn)
		var vlan ssa.Value
		allInstrs(fn, func(ins ssa.Instruction) {
			if st, ok := ins.(*ssa.Store); ok {
				if _, f, ok := core.FieldOf(st.Addr); ok && f.Name() == "Vlan" {
					vlan = st.Val
				}
			}
		})
		if vlan != nil {
			got, ok := bitsOf(fn, vlan, 0)
			r2.Check(ok && equalVec(got, beField(14, 0, 16)), "packet.Datalink.Vlan", vlan.Pos(), "802.1Q TCI: octets 14..15", "VLAN is not the 16-bit tag control information at octets 14..15: "+fmt.Sprint(got))
		} else {
			r2.Fail("packet.Datalink.Vlan", fn.Pos(), "VLAN tag is never decoded")
		}
		cp := map[int64]int64{}
		cut := [2]int64{-1, -1}
		guard18 := false
		allInstrs(fn, func(ins ssa.Instruction) {
			switch x := ins.(type) {
			case *ssa.Store:
				if ia, ok := x.Addr.(*ssa.IndexAddr); ok {
					if di, ok := ssaConstInt(ia.Index); ok {
						if u, ok := x.Val.(*ssa.UnOp); ok {
							if sa, ok := u.X.(*ssa.IndexAddr); ok {
								if si, ok := ssaConstInt(sa.Index); ok {
									cp[di] = si
								}
							}
						}
					}
				}
			case *ssa.Call:
				if b, ok := x.Common().Value.(*ssa.Builtin); ok && b.Name() == "append" {
					if s0, ok := x.Common().Args[0].(*ssa.Slice); ok {
						if s1, ok := x.Common().Args[1].(*ssa.Slice); ok {
							h, _ := ssaConstInt(s0.High)
							l, _ := ssaConstInt(s1.Low)
							cut = [2]int64{h, l}
						}
					}
				}
			case *ssa.BinOp:
				if k, ok := ssaConstInt(x.Y); ok && x.Op == token.LSS && k == 18 {
					guard18 = true
				}
			}
		})
		r2.Check(cp[12] == 16 && cp[13] == 17 && cut == [2]int64{14, 18}, name+":untag", fn.Pos(), "inner EtherType moved to 12..13, octets 14..17 removed", fmt.Sprintf("802.1Q tag removal copies %v and cuts [%d:%d)", cp, cut[0], cut[1]))
		r5.Check(guard18, name+":tag-guard", fn.Pos(), "tagged frames need 18 octets", "the tagged branch does not require 18 octets before reading the tag")
	}
}

// octetRange recognises address/octet-range constructions and returns [lo,hi) (hi=-1: to the end).
func octetRange(fn *ssa.Function, v ssa.Value) (int, int, bool) {
	v = stripConv(v)
	switch x := v.(type) {
	case *ssa.Call:
		switch calleeName(x) {
		case "(net.IP).String", "(net.HardwareAddr).String":
			return octetRange(fn, x.Common().Args[0])
		case "fmt.Sprintf":
			// hex formatting of consecutive octets
			var idx []int
			for a := range core.BackwardSlice(x.Common().Args[1], core.SliceOpts{}) {
				if u, ok := a.(*ssa.UnOp); ok && u.Op == token.MUL {
					if ia, ok := u.X.(*ssa.IndexAddr); ok {
						if _, _, isBytes := byteBase(fn, ia.X); isBytes {
							if i, ok := ssaConstInt(ia.Index); ok {
								idx = append(idx, int(i))
							}
						}
					}
				}
			}
			sort.Ints(idx)
			if len(idx) == 0 {
				return 0, 0, false
			}
			// the operands must be passed in ascending order: check the varargs array stores
			order := sprintfOperandOrder(fn, x)
			for i := 1; i < len(order); i++ {
				if order[i] != order[i-1]+1 {
					return order[0], order[len(order)-1] + 1, false
				}
			}
			for i := 1; i < len(idx); i++ {
				if idx[i] != idx[i-1]+1 {
					return idx[0], idx[len(idx)-1] + 1, false
				}
			}
			return idx[0], idx[len(idx)-1] + 1, true
		}
	case *ssa.Slice:
		if _, off, ok := byteBase(fn, x); ok {
			hi := -1
			if x.High != nil {
				h, isC := ssaConstInt(x.High)
				if !isC {
					return 0, 0, false
				}
				_, baseOff, _ := byteBase(fn, x.X)
				hi = int(h) + baseOff
			}
			return off, hi, true
		}
	}
	return 0, 0, false
}

// sprintfOperandOrder returns the byte indexes of the operands of a Sprintf call in argument order.
func sprintfOperandOrder(fn *ssa.Function, call *ssa.Call) []int {
	sl, ok := call.Common().Args[1].(*ssa.Slice)
	if !ok {
		return nil
	}
	arr, ok := sl.X.(*ssa.Alloc)
	if !ok {
		return nil
	}
	at := core.Deref(arr.Type()).Underlying().(*types.Array)
	out := make([]int, at.Len())
	for i := range out {
		out[i] = -1
	}
	for _, ref := range referrers(arr) {
		ea, ok := ref.(*ssa.IndexAddr)
		if !ok {
			continue
		}
		pos, _ := ssaConstInt(ea.Index)
		for _, r2 := range referrers(ea) {
			if st, ok := r2.(*ssa.Store); ok {
				if u, ok := underIface(st.Val).(*ssa.UnOp); ok {
					if ia, ok := u.X.(*ssa.IndexAddr); ok {
						if i, ok := ssaConstInt(ia.Index); ok {
							out[pos] = int(i)
						}
					}
				}
			}
		}
	}
	return out
}

func checkSkipProvenance(prog *core.Program, r3 *core.RuleRun) {
	n := 0
	for _, fn := range prog.RepoFuncs() {
		if core.PkgRel(fn) != "sflow" {
			continue
		}
		allInstrs(fn, func(ins ssa.Instruction) {
			off, ok := isSeekCur(ins)
			if !ok {
				return
			}
			name := core.FuncName(fn)
			off = stripConv(off)
			if _, isC := ssaConstInt(off); isC {
				return // fixed skip inside a fixed layout: covered by R07.1
			}
			n++
			key := name + ":skip"
			loop := core.LoopOf(fn, ins)
			good := false
			why := "offset " + printExpr(fn, off, 0)
			switch x := off.(type) {
			case *ssa.Extract:
				// a length returned by the element-header read of this iteration
				if c, ok := x.Tuple.(*ssa.Call); ok && loop != nil && loop.Contains(c) && core.InstrDominates(c, ins) {
					good = true
				}
			case *ssa.UnOp:
				// a local variable filled through its address by a consuming read that dominates the skip in this iteration
				if a, ok := x.X.(*ssa.Alloc); ok && x.Op == token.MUL {
					// the element header is (format, length): the length is the last word read before the dispatch
					var last *ssa.Call
					allInstrs(fn, func(i2 ssa.Instruction) {
						c, ok := i2.(*ssa.Call)
						if !ok {
							return
						}
						if _, isRead := consumeOf(prog, fn, c); isRead && core.InstrDominates(c, ins) && (loop == nil || loop.Contains(c)) {
							if last == nil || core.InstrDominates(last, c) {
								last = c
							}
						}
					})
					for _, ref := range referrers(a) {
						if mi, ok := ref.(*ssa.MakeInterface); ok {
							for _, r2 := range referrers(mi) {
								if c, ok := r2.(*ssa.Call); ok && c == last {
									good = true
								}
							}
						}
					}
					if !good && last != nil {
						why = "the offset is not the word read last before the dispatch (the element's length) but " + printExpr(fn, off, 0)
					}
					if !good && len(core.StoresTo(a)) == 0 {
						why = "the offset variable is never assigned before the skip (it is still zero)"
					}
				}
			}
			r3.Check(good, key, ins.Pos(), "skips by the length word read for this element in this iteration", "an element is skipped by something other than its own declared length: "+why)
		})
	}
	if n == 0 {
		r3.Fail("sflow:skips", token.NoPos, "no skip of unknown elements found: unknown samples/records are not skipped by their declared length")
	}
}

// checkRecordDispatch: in fn, `format == K` leads to Records[key] = <result of a decoder returning *T>.
func checkRecordDispatch(prog *core.Program, r4 *core.RuleRun, fname string, want map[int64][2]string) {
	fn := prog.Func("sflow", fname)
	if fn == nil {
		r4.Undecided("sflow."+fname, token.NoPos, "record dispatcher not found")
		return
	}
	got := map[int64][2]string{}
	partial := ""
	nTag := 0
	wholeWord := func(v ssa.Value) bool {
		ld, ok := v.(*ssa.UnOp)
		if !ok || ld.Op != token.MUL {
			return false
		}
		a, ok := ld.X.(*ssa.Alloc)
		if !ok {
			return false
		}
		if b, ok := a.Type().Underlying().(*types.Pointer).Elem().Underlying().(*types.Basic); !ok || b.Kind() != types.Uint32 {
			return false
		}
		// the variable is filled by a read from the datagram in this function
		for _, ref := range referrers(a) {
			if mi, ok := ref.(*ssa.MakeInterface); ok {
				for _, r2 := range referrers(mi) {
					if c, ok := r2.(*ssa.Call); ok && len(c.Common().Args) >= 2 && c.Common().Args[len(c.Common().Args)-1] == ssa.Value(mi) {
						return true
					}
				}
			}
		}
		return false
	}
	// guardOf: the format constant whose `==` true edge dominates block b
	guardOf := func(b *ssa.BasicBlock, key, typ string) {
		for ; b != nil; b = b.Idom() {
			id := b.Idom()
			if id == nil {
				break
			}
			for si, s := range id.Succs {
				if s != b || len(b.Preds) != 1 {
					continue
				}
				if cond, truth, ok := core.IfEdge(id, si); ok && truth {
					if be, ok := cond.(*ssa.BinOp); ok && be.Op == token.EQL {
						if c, ok := ssaConstInt(be.Y); ok {
							if _, dup := got[c]; !dup {
								got[c] = [2]string{key, typ}
								nTag++
								if !wholeWord(be.X) && partial == "" {
									partial = printExpr(fn, be.X, 0)
								}
							}
							return
						}
					}
				}
			}
		}
	}
	typeName := func(v ssa.Value) string {
		if n := namedOf(underIface(v).Type()); n != nil {
			return n.Obj().Name()
		}
		return ""
	}
	allInstrs(fn, func(ins ssa.Instruction) {
		mu, ok := ins.(*ssa.MapUpdate)
		if !ok {
			return
		}
		if kc, ok := mu.Key.(*ssa.Const); ok && kc.Value != nil {
			guardOf(mu.Block(), strings.Trim(kc.Value.ExactString(), "\""), typeName(mu.Value))
			return
		}
		// key and value chosen per record format earlier and merged: pair the merge's incoming values
		kphi, ok1 := mu.Key.(*ssa.Phi)
		vphi, ok2 := mu.Value.(*ssa.Phi)
		if ok1 && ok2 && kphi.Block() == vphi.Block() {
			for i, ke := range kphi.Edges {
				kc, ok := ke.(*ssa.Const)
				if !ok || kc.Value == nil {
					continue
				}
				key := strings.Trim(kc.Value.ExactString(), "\"")
				if key == "" {
					continue
				}
				guardOf(kphi.Block().Preds[i], key, typeName(vphi.Edges[i]))
			}
		}
	})
	if nTag > 0 {
		r4.Check(partial == "", "sflow."+fname+":dispatch-on-whole-type-word", fn.Pos(), "records are dispatched on the whole 32-bit type word (enterprise and format) read for this record",
			"records are dispatched on "+partial+" rather than on the whole type word read from the datagram: the type word carries an enterprise number in its upper 20 bits, and an enterprise-specific record whose low bits equal a standard format number is decoded with the standard layout instead of being skipped by its length")
	}
	var ks []int64
	for k := range want {
		ks = append(ks, k)
	}
	sort.Slice(ks, func(i, j int) bool { return ks[i] < ks[j] })
	for _, k := range ks {
		g := findDispatch(got, want[k][0])
		r4.Check(got[k] == want[k], fmt.Sprintf("sflow.%s:format:%d", fname, k), fn.Pos(), fmt.Sprintf("format %d => Records[%q] = %s", k, want[k][0], want[k][1]),
			fmt.Sprintf("record format %d is decoded as %v (the key %q is produced for format %v); the sFlow format assigns %s under key %q", k, got[k], want[k][0], g, want[k][1], want[k][0]))
	}
	for k, v := range got {
		if _, ok := want[k]; !ok {
			r4.Undecided(fmt.Sprintf("sflow.%s:format:%d", fname, k), fn.Pos(), fmt.Sprintf("format %d => %v has no entry in the checker's table", k, v))
		}
	}
}

func findDispatch(got map[int64][2]string, key string) []int64 {
	var out []int64
	for k, v := range got {
		if v[0] == key {
			out = append(out, k)
		}
	}
	return out
}

func checkSampleDispatch(prog *core.Program, r4 *core.RuleRun) {
	s := findSFlowLoop(prog)
	if s.fn == nil || s.format == nil {
		r4.Undecided("sflow.SFDecode:dispatch", token.NoPos, "sample loop not resolved")
		return
	}
	got := map[int64]string{}
	for _, ref := range referrers(s.format) {
		b, ok := ref.(*ssa.BinOp)
		if !ok || b.Op != token.EQL {
			continue
		}
		c, isC := ssaConstInt(b.Y)
		if !isC {
			continue
		}
		for _, r2 := range referrers(b) {
			if ifi, ok := r2.(*ssa.If); ok {
				for _, i2 := range ifi.Block().Succs[0].Instrs {
					if cc, ok := i2.(*ssa.Call); ok && cc.Common().StaticCallee() != nil && prog.IsRepoFunc(cc.Common().StaticCallee()) {
						if n := namedOf(cc.Common().StaticCallee().Signature.Results().At(0).Type()); n != nil {
							got[c] = n.Obj().Name()
						}
					}
				}
			}
		}
	}
	r4.Check(got[1] == "FlowSample", "sflow.SFDecode:sample:1", s.fn.Pos(), "sample format 1 => flow sample", fmt.Sprintf("sample format 1 is decoded as %q", got[1]))
	r4.Check(got[2] == "CounterSample", "sflow.SFDecode:sample:2", s.fn.Pos(), "sample format 2 => counter sample", fmt.Sprintf("sample format 2 is decoded as %q", got[2]))
}

func checkPacketDispatch(prog *core.Program, r4 *core.RuleRun) {
	pk := prog.Pkg("packet")
	if pk == nil {
		return
	}
	want := map[string]int64{"headerProtocolEthernet": 1, "headerProtocolIPv4": 11, "headerProtocolIPv6": 12, "EtherTypeIPv4": 0x0800, "EtherTypeIPv6": 0x86DD, "EtherTypeIEEE8021Q": 0x8100,
		"IANAProtoICMP": 1, "IANAProtoTCP": 6, "IANAProtoUDP": 17, "IANAProtoIPv6ICMP": 58}
	var names []string
	for n := range want {
		names = append(names, n)
	}
	sort.Strings(names)
	for _, n := range names {
		c, ok := pk.Types.Scope().Lookup(n).(*types.Const)
		v := int64(-1)
		if ok {
			v, _ = constInt64(c)
		}
		r4.Check(ok && v == want[n], "packet."+n, token.NoPos, fmt.Sprint(want[n]), fmt.Sprintf("constant %s is %d, the registries say %d", n, v, want[n]))
	}
	// the walker routes each protocol constant to the matching decoder
	routes := map[string]string{}
	for _, fn := range prog.RepoFuncs() {
		if core.PkgRel(fn) != "packet" {
			continue
		}
		allInstrs(fn, func(ins ssa.Instruction) {
			b, ok := ins.(*ssa.BinOp)
			if !ok || b.Op != token.EQL {
				return
			}
			c, isC := ssaConstInt(b.Y)
			if !isC {
				return
			}
			for _, r2 := range referrers(b) {
				if ifi, ok := r2.(*ssa.If); ok {
					for _, i2 := range ifi.Block().Succs[0].Instrs {
						if cc, ok := i2.(*ssa.Call); ok && cc.Common().StaticCallee() != nil && prog.IsRepoFunc(cc.Common().StaticCallee()) {
							k := fmt.Sprintf("%s:%d", fn.Name(), c)
							if _, dup := routes[k]; !dup {
								routes[k] = cc.Common().StaticCallee().Name()
							}
						}
					}
				}
			}
		})
	}
	wantRoutes := map[string]string{"Decoder:1": "decodeEthernetHeader", "Decoder:11": "decodeIPv4Header", "Decoder:12": "decodeIPv6Header",
		"decodeEthernetHeader:2048": "decodeIPv4Header", "decodeEthernetHeader:34525": "decodeIPv6Header",
		"decodeNextLayer:1": "decodeICMP", "decodeNextLayer:58": "decodeICMP", "decodeNextLayer:6": "decodeTCP", "decodeNextLayer:17": "decodeUDP"}
	var rk []string
	for k := range wantRoutes {
		rk = append(rk, k)
	}
	sort.Strings(rk)
	for _, k := range rk {
		r4.Check(routes[k] == wantRoutes[k], "packet.route:"+k, token.NoPos, k+" => "+wantRoutes[k], fmt.Sprintf("%s is routed to %q, want %s", k, routes[k], wantRoutes[k]))
	}
}
