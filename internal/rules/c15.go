package rules

import (
	"fmt"
	"go/token"
	"go/types"
	"strings"

	"golang.org/x/tools/go/ssa"

	"verif/internal/core"
)

func init() { register("C15", checkC15) }

var exitCalls = map[string]bool{"os.Exit": true, "log.Fatal": true, "log.Fatalf": true, "log.Fatalln": true, "log.Panic": true, "log.Panicf": true, "log.Panicln": true,
	"(*log.Logger).Fatal": true, "(*log.Logger).Fatalf": true, "(*log.Logger).Fatalln": true, "(*log.Logger).Panic": true, "(*log.Logger).Panicf": true, "(*log.Logger).Panicln": true, "runtime.Goexit": true}

func checkC15(rep *core.Report) {
	c15Deadline = 0
	rep.Explanation = "Decides the structure of the shutdown protocol: SIGINT and SIGTERM are registered on the channel main waits on; after the signal every protocol of the same list that was started is shut down under the WaitGroup and main returns only after Wait (exit status 0 follows from returning); each shutdown sets the very flag its receive loop polls under a constant read deadline; a work queue is closed only by its single sender after its sending loop (so no send on a closed channel for any schedule); IPFIX/NetFlow v9 shutdown reaches the cache dump with the configured file on every enabled path, the dump holds the shard locks, replaces the file and writes keys that survive JSON; no exit/fatal/panic call is reachable from any shutdown path. 'Within a few seconds' is timing and is not decided (the only waits are a constant 1 s sleep and a 1 s read deadline, recorded)."
	rep.Assume("main returning yields exit status 0; signal.Notify delivers the registered signals on the channel")
	prog := rep.Prog
	r1 := rep.Rule("R15.1", "main: signals registered, every started protocol shut down and awaited", 6)
	r2 := rep.Rule("R15.2", "shutdown sets the flag the receive loop polls; read deadline is constant", 8)
	r3 := rep.Rule("R15.3", "channels are closed only by their sender after its sending loop (or have no senders)", 4)
	r4 := rep.Rule("R15.4", "template-bearing protocols dump to the configured file on every enabled shutdown path, after the grace period", 6)
	r5 := rep.Rule("R15.5", "no exit/fatal/panic call reachable from shutdown", 4)
	r6 := rep.Rule("R15.6", "workers leave their loop when the queue is closed", 4)
	r7 := rep.Rule("R15.7", "the dump is taken under the shard locks, replaces the file, and its keys survive JSON (shared with C10/C11)", 4)

	mainFn := prog.Func("vflow", "main")
	if mainFn == nil {
		r1.Undecided("main", token.NoPos, "func main not found")
		return
	}
	checkMainShutdown(prog, r1, mainFn)
	pipes := findPipelines(prog)
	protoIface := prog.NamedType("vflow", "proto")
	var shutdowns []*ssa.Function
	for _, p := range pipes {
		if p.run == nil {
			continue
		}
		sd := prog.Method("vflow", p.name, "shutdown")
		if sd == nil {
			r2.Fail(p.name+":shutdown", p.run.Pos(), "protocol has no shutdown method")
			continue
		}
		shutdowns = append(shutdowns, sd)
		checkStopFlag(r2, p, sd)
		if p.worker != nil && p.recv != nil {
			checkWorkerLeavesOnClose(r6, p)
		}
	}
	_ = protoIface
	if len(shutdowns) < 4 {
		r2.Undecided("anchors", token.NoPos, fmt.Sprintf("%d protocols with run+shutdown found, want 4", len(shutdowns)))
	}
	// the handler stays installed: nothing un-registers or resets the signals (a second signal during the shutdown
	// would otherwise kill the process before the dump)
	{
		bad := ""
		for _, fn := range prog.RepoFuncs() {
			allInstrs(fn, func(ins ssa.Instruction) {
				if c, ok := ins.(ssa.CallInstruction); ok {
					switch calleeName(c) {
					case "os/signal.Stop", "os/signal.Reset", "os/signal.Ignore":
						bad = calleeName(c) + " in " + core.FuncName(fn) + " at " + prog.Pos(ins.Pos())
					}
				}
			})
		}
		r1.Check(bad == "", "main:signals-stay-registered", mainFn.Pos(), "no signal.Stop/Reset/Ignore anywhere", "the signal registration is undone ("+bad+"): a second SIGTERM/SIGINT while shutting down takes the default action, the process dies with a non-zero status before the templates are dumped")
	}
	checkCloseDiscipline(prog, r3)
	// ---- R15.4 ----
	for _, sd := range shutdowns {
		name := core.FuncName(sd)
		var dump *ssa.Call
		allInstrs(sd, func(ins ssa.Instruction) {
			if call, ok := ins.(*ssa.Call); ok {
				if f := call.Common().StaticCallee(); f != nil && f.Name() == "Dump" && prog.IsRepoFunc(f) {
					dump = call
				}
			}
		})
		hasCache := strings.Contains(name, "IPFIX") || strings.Contains(name, "NetflowV9")
		if dump == nil {
			if hasCache {
				r4.Fail(name+":dump", sd.Pos(), "shutdown of a template-bearing protocol never dumps the template cache")
			}
			continue
		}
		// returns not dominated by the dump are allowed only on the 'disabled' edge
		bad := false
		allInstrs(sd, func(ins ssa.Instruction) {
			r, ok := ins.(*ssa.Return)
			if !ok || core.InstrDominates(dump, r) {
				return
			}
			if !dominatedByFieldFalse(r, "Enabled") {
				bad = true
			}
		})
		r4.Check(!bad, name+":dump-on-every-path", dump.Pos(), "every enabled path through shutdown passes the dump", "shutdown can return without dumping the template cache although the protocol is enabled: templates acknowledged before the signal are lost")
		fld := fieldLoadName(dump.Common().Args[len(dump.Common().Args)-1])
		r4.Check(strings.HasSuffix(fld, "TplCacheFile"), name+":dump-file", dump.Pos(), "dumps to Options."+fld, "the dump file is not the configured template cache file option")
		// order: stop flag, then the grace period that lets the receive loop notice the flag (its read deadline) and the
		// workers drain what was queued, then the dump
		var flagStore *ssa.Store
		var sleep *ssa.Call
		allInstrs(sd, func(ins ssa.Instruction) {
			switch x := ins.(type) {
			case *ssa.Store:
				if _, f, ok := core.FieldOf(x.Addr); ok && f.Name() == "stop" {
					flagStore = x
				}
			case *ssa.Call:
				if calleeName(x) == "time.Sleep" {
					sleep = x
				}
			}
		})
		okOrder := flagStore != nil && sleep != nil && core.InstrDominates(flagStore, sleep) && core.InstrDominates(sleep, dump)
		grace := int64(0)
		if sleep != nil {
			grace, _ = ssaConstInt(sleep.Common().Args[0])
		}
		need := c15Deadline
		if need == 0 {
			need = 1e9
		}
		r4.Check(okOrder && grace >= need, name+":dump-after-grace-period", dump.Pos(), "stop flag, then a grace period of at least the read deadline, then the dump",
			"the template cache is dumped before the grace period that follows the stop flag has elapsed (or there is none of at least the receive loop's read deadline): datagrams already received or queued are decoded after the file was written, so templates the collector held at exit are missing from the file")
	}
	// ---- R15.5 ----
	roots := append([]*ssa.Function{}, shutdowns...)
	for _, af := range mainFn.AnonFuncs {
		roots = append(roots, af)
	}
	cg := prog.CG()
	for _, root := range shutdowns {
		name := core.FuncName(root)
		bad := ""
		for _, fn := range cg.ReachableRepo(root) {
			allInstrs(fn, func(ins ssa.Instruction) {
				if _, isPanic := ins.(*ssa.Panic); isPanic && !isSelectPanic(ins) {
					bad = "panic in " + core.FuncName(fn) + " at " + prog.Pos(ins.Pos())
				}
				if call, ok := ins.(ssa.CallInstruction); ok && exitCalls[calleeName(call)] {
					bad = calleeName(call) + " in " + core.FuncName(fn) + " at " + prog.Pos(ins.Pos())
				}
			})
		}
		r5.Check(bad == "", name+":no-exit", root.Pos(), fmt.Sprintf("%d functions reachable, no exit/fatal/panic call", len(cg.ReachableRepo(root))), "an exit/fatal/panic call is reachable from shutdown: "+bad+" — the collector would not leave with status 0 (and the other protocols' dumps may be cut short)")
	}
	// ---- R15.7 shared ----
	for _, rel := range []string{"ipfix", "netflow/v9"} {
		c := findTplCache(prog, rel)
		if c.dump == nil {
			r7.Undecided(rel+":dump", token.NoPos, "Dump not resolved")
			continue
		}
		checkTruncatingWrite(prog, r7, c)
		checkKeyTextSafe(prog, r7, c)
	}
	checkReflectionEscapeBoth(prog, r7)
}

func checkReflectionEscapeBoth(prog *core.Program, rr *core.RuleRun) {
	for _, rel := range []string{"ipfix", "netflow/v9"} {
		c := findTplCache(prog, rel)
		if c.shardT != nil {
			checkReflectionEscape(prog, rr, c)
		}
	}
}

func isSelectPanic(ins ssa.Instruction) bool {
	p, ok := ins.(*ssa.Panic)
	if !ok {
		return false
	}
	if mi, ok := p.X.(*ssa.MakeInterface); ok {
		if c, ok := mi.X.(*ssa.Const); ok && c.Value != nil && strings.Contains(c.Value.ExactString(), "blocking select matched no case") {
			return true
		}
	}
	return false
}

// dominatedByFieldFalse: ins lies under the edge on which an options field whose name ends in suffix is false.
func dominatedByFieldFalse(ins ssa.Instruction, suffix string) bool {
	for b := ins.Block(); b != nil; b = b.Idom() {
		id := b.Idom()
		if id == nil {
			break
		}
		if len(b.Preds) != 1 {
			continue
		}
		for si, s := range id.Succs {
			if s != b {
				continue
			}
			cond, truth, ok := core.IfEdge(id, si)
			if !ok {
				continue
			}
			if fn := fieldLoadName(cond); strings.HasSuffix(fn, suffix) && !truth {
				return true
			}
			if u, ok := cond.(*ssa.UnOp); ok && u.Op == token.NOT {
				if fn := fieldLoadName(u.X); strings.HasSuffix(fn, suffix) && truth {
					return true
				}
			}
		}
	}
	return false
}

func checkMainShutdown(prog *core.Program, r1 *core.RuleRun, mainFn *ssa.Function) {
	var notify *ssa.Call
	var recv *ssa.UnOp
	var wait *ssa.Call
	allInstrs(mainFn, func(ins ssa.Instruction) {
		switch x := ins.(type) {
		case *ssa.Call:
			switch calleeName(x) {
			case "os/signal.Notify":
				notify = x
			case "(*sync.WaitGroup).Wait":
				wait = x
			}
		}
	})
	if notify == nil {
		r1.Fail("main:notify", mainFn.Pos(), "main does not register for signals")
		return
	}
	sigs := map[int64]bool{}
	for v := range core.BackwardSlice(notify.Common().Args[1], core.SliceOpts{}) {
		if c, ok := ssaConstInt(v); ok {
			sigs[c] = true
		}
	}
	r1.Check(sigs[2] && sigs[15], "main:signals", notify.Pos(), "SIGINT(2) and SIGTERM(15) registered", fmt.Sprintf("signal set %v does not contain both SIGINT(2) and SIGTERM(15)", keysOf(sigs)))
	sigCh := stripConv(notify.Common().Args[0])
	allInstrs(mainFn, func(ins ssa.Instruction) {
		if u, ok := ins.(*ssa.UnOp); ok && u.Op == token.ARROW && stripConv(u.X) == sigCh {
			recv = u
		}
	})
	if recv == nil {
		r1.Fail("main:wait-for-signal", notify.Pos(), "main never receives from the channel it registered for signals")
		return
	}
	r1.Check(core.InstrDominates(notify, recv), "main:notify-before-wait", recv.Pos(), "", "signals are registered after main starts waiting for them")
	// go statements before / after the receive
	type goSite struct {
		g      *ssa.Go
		method string
		arg    ssa.Value
		addOK  bool
		doneOK bool
	}
	var before, after []goSite
	allInstrs(mainFn, func(ins ssa.Instruction) {
		g, ok := ins.(*ssa.Go)
		if !ok {
			return
		}
		mc, isClosure := g.Common().Value.(*ssa.MakeClosure)
		if !isClosure {
			return
		}
		cl := mc.Fn.(*ssa.Function)
		gs := goSite{g: g}
		allInstrs(cl, func(i2 ssa.Instruction) {
			if c, ok := i2.(ssa.CallInstruction); ok {
				if c.Common().IsInvoke() && len(cl.Params) > 0 && c.Common().Value == ssa.Value(cl.Params[0]) {
					gs.method = c.Common().Method.Name()
				}
				// the method passed as a value (`spawn(protos, proto.run)`): a call of a function value that resolves to
				// the method's thunk, applied to the goroutine's own argument
				if !c.Common().IsInvoke() && c.Common().StaticCallee() == nil && len(cl.Params) > 0 && len(c.Common().Args) == 1 && c.Common().Args[0] == ssa.Value(cl.Params[0]) {
					v := c.Common().Value
					for depth := 0; depth < 8 && v != nil; depth++ {
						switch x := v.(type) {
						case *ssa.Function:
							n := strings.TrimSuffix(strings.TrimSuffix(x.Name(), "$thunk"), "$bound")
							if i := strings.LastIndex(n, "."); i >= 0 {
								n = n[i+1:]
							}
							gs.method = n
							v = nil
						case *ssa.FreeVar:
							v = nil
							for fi, fv := range cl.FreeVars {
								if fv == x && fi < len(mc.Bindings) {
									v = mc.Bindings[fi]
								}
							}
						case *ssa.UnOp:
							if x.Op == token.MUL {
								if st := core.ReachingStores(x); len(st) == 1 {
									v = st[0]
								} else if st2 := core.StoresTo(x.X); len(st2) == 1 {
									v = st2[0]
								} else {
									v = x.X
								}
							} else {
								v = nil
							}
						case *ssa.Alloc:
							if st := core.StoresTo(x); len(st) == 1 {
								v = st[0]
							} else {
								v = nil
							}
						case *ssa.ChangeType:
							v = x.X
						case *ssa.Parameter:
							v = nil
						default:
							v = nil
						}
					}
				}
				if _, isDefer := i2.(*ssa.Defer); isDefer && calleeName(c) == "(*sync.WaitGroup).Done" {
					gs.doneOK = true
				}
			}
		})
		if len(g.Common().Args) > 0 {
			gs.arg = g.Common().Args[0]
		}
		// wg.Add(1) in the same block before the go
		for _, i2 := range g.Block().Instrs {
			if c, ok := i2.(*ssa.Call); ok && calleeName(c) == "(*sync.WaitGroup).Add" && core.InstrIndex(c) < core.InstrIndex(g) {
				if n, ok := ssaConstInt(c.Common().Args[1]); ok && n == 1 {
					gs.addOK = true
				}
			}
		}
		if core.InstrDominates(recv, g) {
			after = append(after, gs)
		} else {
			before = append(before, gs)
		}
	})
	sliceOf := func(gs goSite) ssa.Value {
		// the element comes from &slice[i]
		if u, ok := gs.arg.(*ssa.UnOp); ok {
			if ia, ok := u.X.(*ssa.IndexAddr); ok {
				return ia.X
			}
		}
		return nil
	}
	var runSite, sdSite *goSite
	for i := range before {
		if before[i].method == "run" {
			runSite = &before[i]
		}
	}
	for i := range after {
		if after[i].method == "shutdown" {
			sdSite = &after[i]
		}
	}
	if runSite == nil || sdSite == nil {
		r1.Fail("main:run-and-shutdown", recv.Pos(), fmt.Sprintf("main does not start run() before the signal (found=%v) and shutdown() after it (found=%v) on each protocol", runSite != nil, sdSite != nil))
		return
	}
	r1.Check(sliceOf(*runSite) != nil && sliceOf(*runSite) == sliceOf(*sdSite) && core.LoopOf(mainFn, sdSite.g) != nil, "main:same-protocol-list", sdSite.g.Pos(), "shutdown ranges over the list whose run() was started",
		"shutdown is not invoked on every element of the protocol list that was started")
	r1.Check(sdSite.addOK && sdSite.doneOK, "main:shutdown-under-waitgroup", sdSite.g.Pos(), "wg.Add(1) before, defer wg.Done() inside", "a shutdown goroutine is not accounted in the WaitGroup: main can return before the dump is written")
	r1.Check(runSite.addOK && runSite.doneOK, "main:run-under-waitgroup", runSite.g.Pos(), "", "run goroutines are not accounted in the WaitGroup: main can return while a receive loop still runs")
	if wait == nil {
		r1.Fail("main:wait", recv.Pos(), "main never waits for the WaitGroup")
		return
	}
	w := core.Walk{Blocked: func(i ssa.Instruction) bool { return i == ssa.Instruction(wait) }}
	escapes := false
	for i := range w.ReachInstrs(recv) {
		if _, isRet := i.(*ssa.Return); isRet {
			escapes = true
		}
	}
	r1.Check(!escapes && core.InstrDominates(sdSite.g, wait) == false && (core.Walk{}).CanReach(sdSite.g, wait), "main:wait-postdominates", wait.Pos(), "every path from the signal to return passes wg.Wait() after the shutdowns were started", "main can return after the signal without waiting for the shutdown goroutines")
}

func keysOf(m map[int64]bool) []int64 {
	var out []int64
	for k := range m {
		out = append(out, k)
	}
	return out
}

func checkStopFlag(r2 *core.RuleRun, p *pipeline, sd *ssa.Function) {
	name := p.name
	// field stored true in shutdown
	var flag *types.Var
	allInstrs(sd, func(ins ssa.Instruction) {
		if st, ok := ins.(*ssa.Store); ok {
			if c, ok := st.Val.(*ssa.Const); ok && c.Value != nil && c.Value.ExactString() == "true" {
				if _, f, ok := core.FieldOf(st.Addr); ok && core.AddrRoot(st.Addr) == resolveLocalAddr(sd, st.Addr) {
					flag = f
				}
			}
		}
	})
	if flag == nil {
		r2.Fail(name+":stop-flag-set", sd.Pos(), "shutdown does not set a stop flag on its receiver")
		return
	}
	loop := core.LoopOf(p.run, p.read)
	polled := false
	var pollBlocks []*ssa.BasicBlock
	if loop != nil {
		for b := range loop.Blocks {
			ifi, ok := b.Instrs[len(b.Instrs)-1].(*ssa.If)
			if !ok || (loop.Blocks[b.Succs[0]] && loop.Blocks[b.Succs[1]]) {
				continue
			}
			cond := ifi.Cond
			if u, ok := cond.(*ssa.UnOp); ok && u.Op == token.NOT {
				cond = u.X
			}
			if _, f := fieldLoad(cond); f == flag {
				polled = true
				pollBlocks = append(pollBlocks, b)
			}
		}
	}
	// ... on every iteration: with the flag tests taken out, the loop header cannot be reached again (a test that sits
	// only on the read-timeout path is never executed while datagrams keep arriving)
	if polled && loop != nil {
		isPoll := map[*ssa.BasicBlock]bool{}
		for _, b := range pollBlocks {
			isPoll[b] = true
		}
		w := core.Walk{Blocked: func(i ssa.Instruction) bool {
			_, isIf := i.(*ssa.If)
			return isIf && isPoll[i.Block()]
		}}
		every := true
		hdr := loop.Header.Instrs[0]
		for i := range w.ReachInstrs(hdr) {
			if i == hdr {
				every = false
			}
		}
		// the header's own first instruction is reachable from itself only through a full cycle
		r2.Check(every, name+":loop-polls-flag-every-iteration", p.read.Pos(), "every iteration of the receive loop tests the stop flag", "the receive loop can go round without testing the stop flag (the test sits on one branch only, e.g. the read-timeout path): while datagrams keep arriving the collector never stops and main never returns")
	}
	r2.Check(polled, name+":loop-polls-flag", p.read.Pos(), "receive loop exits on field "+flag.Name()+" which shutdown sets", "the receive loop does not test the flag ("+flag.Name()+") that shutdown sets: the collector keeps accepting datagrams after SIGTERM and main never returns")
	// constant read deadline inside the loop, before the read
	dl := false
	if loop != nil {
		for b := range loop.Blocks {
			for _, ins := range b.Instrs {
				if call, ok := ins.(*ssa.Call); ok && strings.HasSuffix(calleeName(call), ".SetReadDeadline") && core.InstrDominates(call, p.read) {
					for v := range core.BackwardSlice(call.Common().Args[1], core.SliceOpts{}) {
						if c, ok := ssaConstInt(v); ok && c > 0 {
							dl = true
							if c > c15Deadline {
								c15Deadline = c
							}
						}
					}
				}
			}
		}
	}
	r2.Check(dl, name+":read-deadline", p.read.Pos(), "a constant read deadline is set before every read", "no constant read deadline before the socket read: an idle socket blocks the loop forever and the stop flag is never re-tested")
}

// c15Deadline: the largest constant read deadline (ns) found in the receive loops of this run.
var c15Deadline int64

func resolveLocalAddr(fn *ssa.Function, addr ssa.Value) ssa.Value { return core.AddrRoot(addr) }

func checkWorkerLeavesOnClose(r6 *core.RuleRun, p *pipeline) {
	name := core.FuncName(p.worker)
	sel, isSel := p.recv.(*ssa.Select)
	var okV ssa.Value
	if isSel {
		okV = extractOf(sel, 1)
	} else if u, ok := p.recv.(*ssa.UnOp); ok && u.CommaOk {
		okV = extractOf(u, 1)
	}
	if okV == nil {
		r6.Fail(name+":closed-queue", p.recv.Pos(), "the worker does not test whether its queue was closed: after shutdown it spins on zero values")
		return
	}
	loop := core.LoopOf(p.worker, p.recv)
	leaves := false
	if loop != nil {
		// with the received-ok flag false no path from the receive comes back to the loop header
		res := core.CountQuery{Fn: p.worker, Start: p.recv, Stop: core.IterationStop(loop), EdgeOK: boolEdgeFilter(okV, false)}.Run()
		_, again := res.Max["latch"]
		leaves = !again
	}
	r6.Check(leaves, name+":closed-queue", p.recv.Pos(), "closed queue => the worker leaves its loop", "on a closed queue the worker stays in its loop")
}

// checkCloseDiscipline implements R15.3 over package main and producer.
func checkCloseDiscipline(prog *core.Program, r3 *core.RuleRun) {
	type chanUse struct {
		sends  []ssa.Instruction
		closes []ssa.Instruction
	}
	uses := map[*ssa.Global]*chanUse{}
	get := func(g *ssa.Global) *chanUse {
		if uses[g] == nil {
			uses[g] = &chanUse{}
		}
		return uses[g]
	}
	for _, fn := range prog.RepoFuncs() {
		rel := core.PkgRel(fn)
		if rel != "vflow" {
			continue
		}
		allInstrs(fn, func(ins ssa.Instruction) {
			switch x := ins.(type) {
			case *ssa.Send:
				if g := globalOf(x.Chan); g != nil {
					get(g).sends = append(get(g).sends, x)
				}
			case *ssa.Select:
				for _, st := range x.States {
					if st.Dir == types.SendOnly {
						if g := globalOf(st.Chan); g != nil {
							get(g).sends = append(get(g).sends, x)
						}
					}
				}
			case *ssa.Call:
				if b, ok := x.Common().Value.(*ssa.Builtin); ok && b.Name() == "close" {
					if g := globalOf(x.Common().Args[0]); g != nil {
						get(g).closes = append(get(g).closes, x)
					} else {
						// a local / received channel: accept if nothing is ever sent on channels of that element type by this package
						r3.OK(core.FuncName(fn)+":close-signal-channel", x.Pos(), "close of a locally held signal channel (no senders)")
					}
				}
			}
		})
	}
	for g, u := range uses {
		if len(u.closes) == 0 {
			continue
		}
		for _, cl := range u.closes {
			key := core.FuncName(cl.Parent()) + ":close:" + g.Name()
			if len(u.sends) == 0 {
				r3.OK(key, cl.Pos(), "no senders")
				continue
			}
			sameFn := true
			for _, s := range u.sends {
				if s.Parent() != cl.Parent() {
					sameFn = false
				}
			}
			if !sameFn {
				r3.Fail(key, cl.Pos(), "the queue is closed by a goroutine other than its sender ("+core.FuncName(u.sends[0].Parent())+" sends on it): a send that is blocked on a full queue, or starts after the close, panics with 'send on closed channel' and the collector exits with status 2")
				continue
			}
			// no send reachable after the close, and the close is outside the sending loop
			after := (core.Walk{}).ReachInstrs(cl)
			bad := false
			for _, s := range u.sends {
				if after[s] {
					bad = true
				}
			}
			r3.Check(!bad, key, cl.Pos(), "closed by its only sender after the sending loop", "a send on the queue is reachable after it was closed")
		}
	}
}
