package rules

import (
	"go/constant"
	"go/token"
	"go/types"
	"strings"

	"golang.org/x/tools/go/ssa"

	"verif/internal/core"
)

func constantInt64(v constant.Value) (int64, bool) {
	if v == nil || v.Kind() != constant.Int {
		return 0, false
	}
	return constant.Int64Val(v)
}

// ssaConstInt returns the integer value of an ssa constant.
func ssaConstInt(v ssa.Value) (int64, bool) {
	if c, ok := v.(*ssa.Const); ok && c.Value != nil {
		return constantInt64(c.Value)
	}
	return 0, false
}

// stripConv removes value-preserving wrappers (ChangeType, Convert, MakeInterface optional).
func stripConv(v ssa.Value) ssa.Value {
	for {
		switch x := v.(type) {
		case *ssa.ChangeType:
			v = x.X
		case *ssa.Convert:
			v = x.X
		default:
			return v
		}
	}
}

// fieldLoadName returns the field name if v is a load of a struct field (*(&x.f)) or a Field extract.
func fieldLoadName(v ssa.Value) string {
	_, f := fieldLoad(v)
	if f == nil {
		return ""
	}
	return f.Name()
}

// fieldLoad returns (owner type, field) if v is a load of a struct field.
func fieldLoad(v ssa.Value) (types.Type, *types.Var) {
	v = stripConv(v)
	switch x := v.(type) {
	case *ssa.UnOp:
		if x.Op == token.MUL {
			if o, f, ok := core.FieldOf(x.X); ok {
				return o, f
			}
		}
	case *ssa.Field:
		if o, f, ok := core.FieldOf(x); ok {
			return o, f
		}
	}
	return nil, nil
}

// namedOf returns the *types.Named of t after stripping pointers (nil if none).
func namedOf(t types.Type) *types.Named {
	for {
		if p, ok := t.(*types.Pointer); ok {
			t = p.Elem()
			continue
		}
		break
	}
	n, _ := t.(*types.Named)
	return n
}

// typeIs reports whether t (after stripping pointers) is the named type pkgRel.name of the repo.
func typeIs(t types.Type, pkgPath, name string) bool {
	n := namedOf(t)
	return n != nil && n.Obj().Name() == name && n.Obj().Pkg() != nil && n.Obj().Pkg().Path() == pkgPath
}

// allInstrs iterates all instructions of a function.
func allInstrs(fn *ssa.Function, f func(ssa.Instruction)) {
	for _, b := range fn.Blocks {
		for _, ins := range b.Instrs {
			f(ins)
		}
	}
}

// callsIn returns call instructions in fn whose static callee's String() equals full.
func callsIn(fn *ssa.Function, full string) []ssa.CallInstruction {
	var out []ssa.CallInstruction
	allInstrs(fn, func(ins ssa.Instruction) {
		if ci, ok := ins.(ssa.CallInstruction); ok {
			if f := ci.Common().StaticCallee(); f != nil && f.String() == full {
				out = append(out, ci)
			}
		}
	})
	return out
}

// referrers returns the referrers of v (nil-safe).
func referrers(v ssa.Value) []ssa.Instruction {
	if r := v.Referrers(); r != nil {
		return *r
	}
	return nil
}

// resolveLocal sees through a spilled local: a load of an Alloc that has exactly one store in the
// function (parameters captured by closures are spilled this way) yields the stored value.
func resolveLocal(v ssa.Value) ssa.Value {
	for i := 0; i < 4; i++ {
		u, ok := v.(*ssa.UnOp)
		if !ok || u.Op != token.MUL {
			return v
		}
		a, ok := u.X.(*ssa.Alloc)
		if !ok {
			return v
		}
		st := core.StoresTo(a)
		if len(st) != 1 {
			return v
		}
		v = st[0]
	}
	return v
}

// linTerms writes an integer value as a linear combination of opaque SSA values plus a constant
// (through +, -, multiplication by constants and integer conversions that keep small values).
func linTerms(v ssa.Value) (map[ssa.Value]int64, int64) {
	terms := map[ssa.Value]int64{}
	var k int64
	var walk func(v ssa.Value, coef int64, depth int)
	walk = func(v ssa.Value, coef int64, depth int) {
		if c, ok := ssaConstInt(v); ok {
			k += coef * c
			return
		}
		if depth < 12 {
			switch x := v.(type) {
			case *ssa.BinOp:
				switch x.Op {
				case token.ADD:
					walk(x.X, coef, depth+1)
					walk(x.Y, coef, depth+1)
					return
				case token.SUB:
					walk(x.X, coef, depth+1)
					walk(x.Y, -coef, depth+1)
					return
				case token.MUL:
					if c, ok := ssaConstInt(x.Y); ok {
						walk(x.X, coef*c, depth+1)
						return
					}
					if c, ok := ssaConstInt(x.X); ok {
						walk(x.Y, coef*c, depth+1)
						return
					}
				}
			case *ssa.ChangeType:
				walk(x.X, coef, depth+1)
				return
			}
		}
		terms[v] += coef
		if terms[v] == 0 {
			delete(terms, v)
		}
	}
	walk(v, 1, 0)
	return terms, k
}

// foldCond evaluates a boolean SSA value under the assumption that every value accepted by isID equals id: comparisons
// of the id with constants, negation, and the phi of a short-circuit && / || (an incoming edge counts only if the
// branch it comes from can go that way under the same assumption). known=false when the value depends on anything else.
func foldCond(v ssa.Value, isID func(ssa.Value) bool, id int64, depth int) (val, known bool) {
	return foldCondV(v, func(x ssa.Value) (int64, bool) {
		if isID(x) {
			return id, true
		}
		return 0, false
	}, depth)
}

// foldCondV: like foldCond for several assumed values at once (valOf gives the assumed value of an SSA value).
func foldCondV(v ssa.Value, valOf func(ssa.Value) (int64, bool), depth int) (val, known bool) {
	isID := func(x ssa.Value) bool { _, ok := valOf(x); return ok }
	idOf := func(x ssa.Value) int64 { n, _ := valOf(x); return n }
	if depth > 10 || v == nil {
		return false, false
	}
	switch x := v.(type) {
	case *ssa.Const:
		if x.Value != nil && x.Value.Kind() == constant.Bool {
			return constant.BoolVal(x.Value), true
		}
	case *ssa.UnOp:
		if x.Op == token.NOT {
			if b, ok := foldCondV(x.X, valOf, depth+1); ok {
				return !b, true
			}
		}
	case *ssa.BinOp:
		a, b, op := x.X, x.Y, x.Op
		if _, isC := ssaConstInt(a); isC {
			a, b = b, a
			switch op {
			case token.LSS:
				op = token.GTR
			case token.LEQ:
				op = token.GEQ
			case token.GTR:
				op = token.LSS
			case token.GEQ:
				op = token.LEQ
			}
		}
		c, isC := ssaConstInt(b)
		if !isC {
			// the id against a length: a length is some L >= 0, which decides the comparison when the id is small enough
			flip := map[token.Token]token.Token{token.LSS: token.GTR, token.LEQ: token.GEQ, token.GTR: token.LSS, token.GEQ: token.LEQ, token.EQL: token.EQL, token.NEQ: token.NEQ}
			l, o := a, op
			switch {
			case isLenCall(stripConv(a)) && isID(stripConv(b)):
			case isLenCall(stripConv(b)) && isID(stripConv(a)):
				l, o = b, flip[op]
			default:
				return false, false
			}
			_ = l
			id := idOf(stripConv(b))
			if l == b {
				id = idOf(stripConv(a))
			}
			switch o { // L o id
			case token.LSS:
				if id <= 0 {
					return false, true
				}
			case token.GEQ:
				if id <= 0 {
					return true, true
				}
			case token.GTR:
				if id < 0 {
					return true, true
				}
			case token.LEQ:
				if id < 0 {
					return false, true
				}
			case token.EQL:
				if id < 0 {
					return false, true
				}
			case token.NEQ:
				if id < 0 {
					return true, true
				}
			}
			return false, false
		}
		if !isID(stripConv(a)) {
			return false, false
		}
		id := idOf(stripConv(a))
		switch op {
		case token.EQL:
			return id == c, true
		case token.NEQ:
			return id != c, true
		case token.LSS:
			return id < c, true
		case token.LEQ:
			return id <= c, true
		case token.GTR:
			return id > c, true
		case token.GEQ:
			return id >= c, true
		}
	case *ssa.Phi:
		seenT, seenF := false, false
		for i, e := range x.Edges {
			// is the edge pred -> phi block feasible?
			if !edgeFeasibleV(x.Block().Preds[i], x.Block(), valOf, depth+1, 0) {
				continue
			}
			ev, ok := foldCondV(e, valOf, depth+1)
			if !ok {
				return false, false
			}
			if ev {
				seenT = true
			} else {
				seenF = true
			}
		}
		if seenT != seenF {
			return seenT, true
		}
	}
	return false, false
}

// edgeFeasible: the branch at the end of pred can go to blk under the assumption, and pred itself can be entered
// (looked at up to three blocks back, which covers the blocks of a short-circuit expression; beyond that: feasible).
func edgeFeasibleV(pred, blk *ssa.BasicBlock, valOf func(ssa.Value) (int64, bool), depth, back int) bool {
	can := false
	for si, s := range pred.Succs {
		if s != blk {
			continue
		}
		cond, truth, ok := core.IfEdge(pred, si)
		if !ok {
			can = true
			continue
		}
		if cv, ck := foldCondV(cond, valOf, depth+1); !ck || cv == truth {
			can = true
		}
	}
	if !can {
		return false
	}
	if back >= 3 || len(pred.Preds) == 0 {
		return true
	}
	for _, pp := range pred.Preds {
		if pp == pred || edgeFeasibleV(pp, pred, valOf, depth+1, back+1) {
			return true
		}
	}
	return false
}

// foldedEdgesV: edge filter for a valuation of several values.
func foldedEdgesV(valOf func(ssa.Value) (int64, bool)) func(b *ssa.BasicBlock, si int) bool {
	return func(b *ssa.BasicBlock, si int) bool {
		cond, truth, ok := core.IfEdge(b, si)
		if !ok {
			return true
		}
		v, known := foldCondV(cond, valOf, 0)
		return !known || v == truth
	}
}

// foldedEdges: an edge filter that follows only the branches consistent with the id having the given value.
func foldedEdges(isID func(ssa.Value) bool, id int64) func(b *ssa.BasicBlock, si int) bool {
	return func(b *ssa.BasicBlock, si int) bool {
		cond, truth, ok := core.IfEdge(b, si)
		if !ok {
			return true
		}
		v, known := foldCond(cond, isID, id, 0)
		return !known || v == truth
	}
}

func isSetIDValue(v ssa.Value) bool { return strings.Contains(fieldLoadName(v), "SetID") }

func isLenCall(v ssa.Value) bool {
	c, ok := v.(*ssa.Call)
	if !ok {
		return false
	}
	b, ok := c.Common().Value.(*ssa.Builtin)
	return ok && b.Name() == "len"
}

// ---- evaluation of a value under one assumed fact about another value ----
//
// A helper that returns (value, err) or (value, ok) and is placed at its call site leaves the caller testing a variable
// that merges the helper's results: `err` is then a phi of the helper's own error (on the edge from the helper's error
// return) and the constant nil (on the edge from its success return). Under the fact "the helper's error is non-nil"
// the second edge cannot have been taken, so the merged variable is non-nil as well. factUnder decides that: it
// evaluates v to nil/non-nil (or false/true) given the fact about e, skipping phi edges whose predecessor can only be
// reached through a branch on e that contradicts the fact.

// contradictsFact: block p is dominated by the target of an edge B->T (T has no other predecessor) that tests e with the
// outcome opposite to the fact. kindNil: the fact is "e is nil" == factVal; otherwise "e" (a bool) == factVal.
func contradictsFact(p *ssa.BasicBlock, e ssa.Value, kindNil bool, factVal bool) bool {
	for t := p; t != nil; t = t.Idom() {
		if len(t.Preds) != 1 {
			continue
		}
		b := t.Preds[0]
		if len(b.Succs) != 2 || b.Succs[0] == b.Succs[1] {
			continue
		}
		si := 0
		if b.Succs[1] == t {
			si = 1
		}
		cond, truth, ok := core.IfEdge(b, si)
		if !ok {
			continue
		}
		if kindNil {
			v, eqNil, ok := core.NilCompare(cond)
			if ok && v == e && (eqNil == truth) != factVal {
				return true
			}
			continue
		}
		neg := false
		for {
			u, isNot := cond.(*ssa.UnOp)
			if !isNot || u.Op != token.NOT {
				break
			}
			cond, neg = u.X, !neg
		}
		if cond == e && (truth != neg) != factVal {
			return true
		}
	}
	return false
}

// nilUnder: is v nil, given that e is nil (eNil) / non-nil (!eNil)?
func nilUnder(v, e ssa.Value, eNil bool, depth int) (isNil, known bool) {
	if v == e {
		return eNil, true
	}
	switch x := v.(type) {
	case *ssa.Const:
		if x.Value == nil {
			return true, true
		}
	case *ssa.MakeInterface, *ssa.Alloc, *ssa.MakeClosure, *ssa.MakeMap, *ssa.MakeChan, *ssa.MakeSlice, *ssa.Function, *ssa.Global:
		return false, true
	case *ssa.ChangeInterface:
		return nilUnder(x.X, e, eNil, depth)
	case *ssa.Phi:
		if depth <= 0 {
			return false, false
		}
		first := true
		for i, ed := range x.Edges {
			if ed == ssa.Value(x) {
				continue
			}
			if i < len(x.Block().Preds) && contradictsFact(x.Block().Preds[i], e, true, eNil) {
				continue
			}
			n, k := nilUnder(ed, e, eNil, depth-1)
			if !k {
				return false, false
			}
			if first {
				isNil, first = n, false
			} else if n != isNil {
				return false, false
			}
		}
		return isNil, !first
	}
	return false, false
}

// boolUnder: the value of the boolean v, given that the boolean e is eVal.
func boolUnder(v, e ssa.Value, eVal bool, depth int) (val, known bool) {
	if v == e {
		return eVal, true
	}
	switch x := v.(type) {
	case *ssa.Const:
		if x.Value != nil && x.Value.Kind() == constant.Bool {
			return constant.BoolVal(x.Value), true
		}
	case *ssa.UnOp:
		if x.Op == token.NOT {
			b, k := boolUnder(x.X, e, eVal, depth)
			return !b, k
		}
	case *ssa.Phi:
		if depth <= 0 {
			return false, false
		}
		first := true
		for i, ed := range x.Edges {
			if ed == ssa.Value(x) {
				continue
			}
			if i < len(x.Block().Preds) && contradictsFact(x.Block().Preds[i], e, false, eVal) {
				continue
			}
			b, k := boolUnder(ed, e, eVal, depth-1)
			if !k {
				return false, false
			}
			if first {
				val, first = b, false
			} else if b != val {
				return false, false
			}
		}
		return val, !first
	}
	return false, false
}

// boolEdgeFilter keeps only the edges compatible with the boolean e having the value want.
func boolEdgeFilter(e ssa.Value, want bool) func(*ssa.BasicBlock, int) bool {
	return func(b *ssa.BasicBlock, si int) bool {
		cond, truth, ok := core.IfEdge(b, si)
		if !ok {
			return true
		}
		if v, known := boolUnder(cond, e, want, 3); known {
			return v == truth
		}
		return true
	}
}

// minAcceptedLen: the smallest length n (0..256) of fn's byte-slice parameter with which fn can return a nil error,
// following only the branches that len(param) == n allows; -1 when there is none or fn has no such parameter. The form
// of the guard (`len(b) < 5`, `len(b) <= 4`, `!(len(b) >= 5)`, a switch) does not matter.
func minAcceptedLen(fn *ssa.Function) int64 {
	var p *ssa.Parameter
	for _, q := range fn.Params {
		if isByteSlice(q.Type()) {
			p = q
			break
		}
	}
	if p == nil || len(fn.Blocks) == 0 {
		return -1
	}
	for n := int64(0); n <= 256; n++ {
		valOf := func(v ssa.Value) (int64, bool) {
			if c, ok := v.(*ssa.Call); ok {
				if bi, ok := c.Common().Value.(*ssa.Builtin); ok && bi.Name() == "len" && len(c.Common().Args) == 1 && c.Common().Args[0] == ssa.Value(p) {
					return n, true
				}
			}
			return 0, false
		}
		edgeOK := foldedEdgesV(valOf)
		seen := map[*ssa.BasicBlock]bool{}
		work := []*ssa.BasicBlock{fn.Blocks[0]}
		accepted := false
		for len(work) > 0 && !accepted {
			b := work[len(work)-1]
			work = work[:len(work)-1]
			if seen[b] {
				continue
			}
			seen[b] = true
			if len(b.Instrs) > 0 {
				if r, ok := b.Instrs[len(b.Instrs)-1].(*ssa.Return); ok {
					if len(r.Results) == 0 {
						accepted = true
					} else if c, ok := r.Results[len(r.Results)-1].(*ssa.Const); ok && c.Value == nil {
						accepted = true
					} else if !isErrorType(r.Results[len(r.Results)-1].Type()) {
						accepted = true
					}
				}
			}
			for si, sb := range b.Succs {
				if edgeOK(b, si) {
					work = append(work, sb)
				}
			}
		}
		if accepted {
			return n
		}
	}
	return -1
}
