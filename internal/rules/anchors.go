package rules

import (
	"go/token"
	"go/types"
	"sort"
	"strings"

	"golang.org/x/tools/go/ssa"

	"verif/internal/core"
)

// Semantic anchors of the collector pipelines (package main), resolved from types and call
// targets rather than from unexported names.

var decodePkgs = []string{"ipfix", "netflow/v5", "netflow/v9", "sflow"}

// isUDPMsgType: struct { *net.UDPAddr; []byte } in some field order.
func isUDPMsgType(t types.Type) bool {
	st, ok := t.Underlying().(*types.Struct)
	if !ok || st.NumFields() != 2 {
		return false
	}
	hasAddr, hasBody := false, false
	for i := 0; i < 2; i++ {
		ft := st.Field(i).Type()
		if p, ok := ft.(*types.Pointer); ok {
			if n, ok := p.Elem().(*types.Named); ok && n.Obj().Pkg() != nil && n.Obj().Pkg().Path() == "net" && n.Obj().Name() == "UDPAddr" {
				hasAddr = true
			}
		}
		if s, ok := ft.(*types.Slice); ok {
			if b, ok := s.Elem().(*types.Basic); ok && b.Kind() == types.Byte {
				hasBody = true
			}
		}
	}
	return hasAddr && hasBody
}

func isByteSlice(t types.Type) bool {
	s, ok := t.Underlying().(*types.Slice)
	if !ok {
		return false
	}
	b, ok := s.Elem().Underlying().(*types.Basic)
	return ok && b.Kind() == types.Byte
}

func chanElem(t types.Type) types.Type {
	if c, ok := t.Underlying().(*types.Chan); ok {
		return c.Elem()
	}
	return nil
}

// isUDPChan / isMQChan classify channel-typed values.
func isUDPChan(v ssa.Value) bool {
	e := chanElem(v.Type())
	return e != nil && isUDPMsgType(e)
}
func isMQChan(v ssa.Value) bool {
	e := chanElem(v.Type())
	return e != nil && isByteSlice(e)
}

// globalOf returns the package-level variable a value was loaded from (nil otherwise).
func globalOf(v ssa.Value) *ssa.Global {
	if u, ok := v.(*ssa.UnOp); ok && u.Op == token.MUL {
		if g, ok := u.X.(*ssa.Global); ok {
			return g
		}
	}
	return nil
}

// isDecodeEntry reports whether fn is one of the exported decode entry points.
func isDecodeEntry(fn *ssa.Function) bool {
	if fn == nil || fn.Signature.Recv() == nil {
		return false
	}
	rel := core.PkgRel(fn)
	ok := false
	for _, p := range decodePkgs {
		if rel == p {
			ok = true
		}
	}
	return ok && (fn.Name() == "Decode" || fn.Name() == "SFDecode")
}

// pipeline describes one protocol's run loop and worker in package main.
type pipeline struct {
	name    string // receiver type name (IPFIX, SFlow, ...)
	run     *ssa.Function
	read    *ssa.Call // conn.ReadFromUDP(b)
	worker  *ssa.Function
	recv    ssa.Instruction // the Select/UnOp receiving from the UDP channel in the worker
	decode  *ssa.Call
	marshal *ssa.Call // JSONMarshal / json.Marshal in the worker
	udpCh   *ssa.Global
	mqCh    *ssa.Global
}

func recvTypeName(fn *ssa.Function) string {
	if fn.Signature.Recv() == nil {
		return ""
	}
	if n := namedOf(fn.Signature.Recv().Type()); n != nil {
		return n.Obj().Name()
	}
	return ""
}

// findPipelines resolves the run loops and workers of package main.
func findPipelines(prog *core.Program) []*pipeline {
	byName := map[string]*pipeline{}
	get := func(n string) *pipeline {
		if byName[n] == nil {
			byName[n] = &pipeline{name: n}
		}
		return byName[n]
	}
	for _, fn := range prog.RepoFuncs() {
		if core.PkgRel(fn) != "vflow" || fn.Parent() != nil {
			continue
		}
		rn := recvTypeName(fn)
		if rn == "" {
			continue
		}
		allInstrs(fn, func(ins ssa.Instruction) {
			switch x := ins.(type) {
			case *ssa.Call:
				if f := x.Common().StaticCallee(); f != nil {
					switch {
					case f.String() == "(*net.UDPConn).ReadFromUDP":
						p := get(rn)
						p.run, p.read = fn, x
					case isDecodeEntry(f):
						p := get(rn)
						p.worker, p.decode = fn, x
					case f.Name() == "JSONMarshal" && prog.IsRepoFunc(f), f.String() == "encoding/json.Marshal":
						if get(rn).worker == nil || get(rn).worker == fn {
							get(rn).marshal = x
						}
					}
				}
			}
		})
	}
	var out []*pipeline
	for _, p := range byName {
		if p.worker != nil {
			// the receive: a Select (or plain receive) on a UDP-message channel
			allInstrs(p.worker, func(ins ssa.Instruction) {
				switch x := ins.(type) {
				case *ssa.Select:
					for _, st := range x.States {
						if st.Dir == types.RecvOnly && isUDPChan(st.Chan) {
							p.recv = x
							p.udpCh = globalOf(st.Chan)
						}
						if st.Dir == types.SendOnly && isMQChan(st.Chan) {
							p.mqCh = globalOf(st.Chan)
						}
					}
				case *ssa.UnOp:
					if x.Op == token.ARROW && isUDPChan(x.X) {
						p.recv = x
						p.udpCh = globalOf(x.X)
					}
				case *ssa.Send:
					if isMQChan(x.Chan) {
						p.mqCh = globalOf(x.Chan)
					}
				}
			})
			// marshal must be in the worker
			if p.marshal != nil && p.marshal.Parent() != p.worker {
				p.marshal = nil
				allInstrs(p.worker, func(ins ssa.Instruction) {
					if c, ok := ins.(*ssa.Call); ok {
						if f := c.Common().StaticCallee(); f != nil && (f.Name() == "JSONMarshal" || f.String() == "encoding/json.Marshal") {
							p.marshal = c
						}
					}
				})
			}
		}
		if p.run != nil || p.worker != nil {
			out = append(out, p)
		}
	}
	sort.Slice(out, func(i, j int) bool { return out[i].name < out[j].name })
	return out
}

// extractOf returns the Extract of tuple-valued call c at index i (nil if absent).
func extractOf(c ssa.Value, i int) *ssa.Extract {
	for _, r := range referrers(c) {
		if e, ok := r.(*ssa.Extract); ok && e.Index == i {
			return e
		}
	}
	return nil
}

// errEdges returns, for an error-typed value e, EdgeOK filters selecting only the paths on which e
// is nil (ok) / non-nil (fail) at every If that tests it.
func nilEdgeFilter(e ssa.Value, wantNil bool) func(*ssa.BasicBlock, int) bool {
	return func(b *ssa.BasicBlock, si int) bool {
		cond, truth, ok := core.IfEdge(b, si)
		if !ok {
			return true
		}
		v, eqNil, ok := core.NilCompare(cond)
		if !ok {
			return true
		}
		isNilOnEdge := (eqNil == truth)
		if v != e {
			// a variable that merges e with constants (the results of a helper placed at its call site)
			if n, known := nilUnder(v, e, wantNil, 3); known {
				return isNilOnEdge == n
			}
			return true
		}
		return isNilOnEdge == wantNil
	}
}

// nilEdgeFilterR is nilEdgeFilter for path enumeration with phi resolution: a test of a variable that holds e on
// this path counts as a test of e, and a test of a variable that holds the constant nil can only take its nil edge.
func nilEdgeFilterR(e ssa.Value, wantNil bool) func(*ssa.BasicBlock, int, func(ssa.Value) ssa.Value) bool {
	return func(b *ssa.BasicBlock, si int, resolve func(ssa.Value) ssa.Value) bool {
		cond, truth, ok := core.IfEdge(b, si)
		if !ok {
			return true
		}
		v, eqNil, ok := core.NilCompare(cond)
		if !ok {
			return true
		}
		isNilOnEdge := (eqNil == truth)
		rv := resolve(v)
		if rv == e || v == e {
			return isNilOnEdge == wantNil
		}
		if c, isConst := rv.(*ssa.Const); isConst && c.Value == nil {
			return isNilOnEdge
		}
		return true
	}
}

// isAtomicOn reports whether ins is a call sync/atomic.<fn>(&X.<field>, ...) and returns fn and field name.
func isAtomicOn(ins ssa.Instruction) (fn string, field *types.Var, ok bool) {
	c, isCall := ins.(ssa.CallInstruction)
	if !isCall {
		return "", nil, false
	}
	f := c.Common().StaticCallee()
	if f == nil || f.Pkg == nil || f.Pkg.Pkg.Path() != "sync/atomic" || len(c.Common().Args) == 0 {
		return "", nil, false
	}
	if _, fld, ok2 := core.FieldOf(c.Common().Args[0]); ok2 {
		return f.Name(), fld, true
	}
	return f.Name(), nil, true
}

func short(s string) string { return strings.ReplaceAll(s, core.ModPath+"/", "") }
