package rules

import (
	"fmt"
	"go/token"
	"os"
	"strings"

	"golang.org/x/tools/go/ssa"

	"verif/internal/core"
	"verif/internal/obl"
)

func init() { register("C01", checkC01) }

// c01Assumed: reviewed assumptions (construct key -> reason). Target: empty.
var c01Assumed = map[string]string{
	// A-raddr is normally discharged by the source-address provenance hook (oblrun.go: sourceAddrFields); these entries
	// only matter if that hook cannot establish the provenance.
	"*Worker:K2:nonnil(*.raddr)": "A-raddr: a message taken from the work queue with ok==true was queued by the receive loop, which builds it from the non-nil source address of a successful ReadFromUDP (R13.1 shows the queued value derives from that call's results)",
	// the collected errors are appended only under `err != nil` in Decode; element-wise nil-ness of a slice is outside the abstract domain
	"*.combineErrors:K2:nonnil(*[*])": "every element of the collected error slice is non-nil: Decode appends only under err != nil",
}

// runDecodeOBL analyses the four worker loops (which call decode and marshal inline) and returns the analyser.
func runDecodeOBL(prog *core.Program) (*obl.Analyzer, []*ssa.Function) {
	an := obl.New(oblConfig(prog))
	var roots []*ssa.Function
	for _, p := range findPipelines(prog) {
		if p.worker != nil {
			roots = append(roots, p.worker)
		}
	}
	for _, r := range roots {
		if f := os.Getenv("VERIF_OBL_ROOT"); f != "" && !strings.Contains(r.String(), f) {
			continue
		}
		an.AnalyzeRoot(r, obl.RootOpts{NonNilParams: true})
		if os.Getenv("VERIF_DEBUG") != "" {
			for fn, n := range an.Reached {
				fmt.Printf("REACHED %s x%d\n", core.FuncName(fn), n)
			}
		}
	}
	return an, roots
}

func checkC01(rep *core.Report) {
	rep.Explanation = "Every panic-capable instruction reachable from the four worker loops (which call the decoders and the JSON encoders with no recover) is enumerated from go/ssa: index and slice expressions, nil dereferences and nil-map stores, unchecked type assertions, integer division, make with computed sizes, library calls with length preconditions, explicit panic and exit/fatal calls, recursion. Each is discharged by abstract interpretation (intervals and difference bounds over lengths and integers, nil-ness, dynamic types, a memory model with per-class epochs) with the datagram contents, the template cache contents and the exporter address unconstrained; callees are analysed inline in their callers' abstract state and error-returning callees yield conditional facts for the caller's err==nil test. An obligation that is not proved is reported with the missing fact; nothing is executed."
	rep.Assume("A-int: int is 64 bits wide (the shipped build is linux/amd64)")
	rep.Assume("decoder objects (Reader, Decoder, Message, Packet, SFDecoder, samples) are confined to the worker goroutine that allocates them; shared state is only reached through the template cache (C10) and read-only options")
	rep.Trust("library callees outside the repository do not panic for arguments the analysis does not constrain")
	rep.Trust("(*net.UDPConn).ReadFromUDP returns a non-nil source address together with a nil error; the queued message types take their address only from that result on the nil-error path (checked: oblrun.go sourceAddrFields)")
	prog := rep.Prog
	r1 := rep.Rule("R01.K", "every panic-capable instruction under the worker loops is discharged", 150)
	r6 := rep.Rule("R01.K6", "no exit/fatal/panic call is reachable from decode or encode", 4)
	r11 := rep.Rule("R01.K11", "the decode call tree is not recursive", 1)
	an, roots := runDecodeOBL(prog)
	if len(roots) < 4 {
		r1.Undecided("anchors", token.NoPos, fmt.Sprintf("%d worker loops found, want 4", len(roots)))
	}
	if os.Getenv("VERIF_DEBUG") != "" {
		for _, o := range an.Obligations() {
			if o.Failed > 0 {
				fmt.Printf("OBL %s %s failed=%d/%d %s\n", o.Kind, o.Key(core.FuncName), o.Failed, o.Contexts, o.Why)
			}
		}
		fmt.Println("warnings:", an.Warnings)
		fmt.Println("clone stats (count, vals, ints, mem, iv, ub, nn, epoch):", obl.CloneStats)
	}
	total, open := reportObligations(rep, r1, an, func(o *obl.Obligation) bool { return o.Kind != "K6" && o.Kind != "K11" && o.Kind != "K12" }, c01Assumed)
	reportObligations(rep, r6, an, func(o *obl.Obligation) bool { return o.Kind == "K6" }, c01Assumed)
	n11, _ := reportObligations(rep, r11, an, func(o *obl.Obligation) bool { return o.Kind == "K11" }, c01Assumed)
	if n11 == 0 {
		r11.OK("call-tree:acyclic", token.NoPos, fmt.Sprintf("%d repository functions analysed inline, none re-entered", len(an.Reached)))
	}
	// exit calls: also by call-graph reachability from the decode/encode entry points (over-approximation)
	var entries []*ssa.Function
	for _, fn := range prog.RepoFuncs() {
		if isDecodeEntry(fn) || (fn.Name() == "JSONMarshal" && fn.Signature.Recv() != nil) {
			entries = append(entries, fn)
		}
	}
	for _, e := range entries {
		bad := ""
		for _, fn := range prog.CG().ReachableRepo(e) {
			allInstrs(fn, func(ins ssa.Instruction) {
				if c, ok := ins.(ssa.CallInstruction); ok && exitCalls[calleeName(c)] {
					bad = calleeName(c) + " in " + core.FuncName(fn) + " at " + prog.Pos(ins.Pos())
				}
				if _, ok := ins.(*ssa.Panic); ok && !isSelectPanic(ins) {
					bad = "panic in " + core.FuncName(fn) + " at " + prog.Pos(ins.Pos())
				}
			})
		}
		r6.Check(bad == "", core.FuncName(e)+":no-exit", e.Pos(), "no exit/fatal/panic call in its call tree", "a datagram can reach "+bad+": the process terminates")
	}
	all, unknown := externSummary(an)
	rep.Extra["external_callees"] = all
	rep.Extra["unreviewed_external_callees"] = unknown
	rep.Extra["functions_analysed_inline"] = len(an.Reached)
	rep.Extra["obligations_total"] = total
	rep.Extra["obligations_open"] = open
	rep.Extra["analysis_warnings"] = an.Warnings
}
