package rules

import (
	"fmt"
	"go/token"
	"go/types"
	"reflect"
	"strings"

	"golang.org/x/tools/go/ssa"

	"verif/internal/core"
)

func init() { register("C11", checkC11) }

func checkC11(rep *core.Report) {
	rep.Explanation = "Decides, for the IPFIX and NetFlow v9 caches: (1) Dump marshals and GetCache unmarshals the identical Go type; (2) every state-carrying field in that type's closure is exported, untagged-away and of a kind encoding/json round-trips, and string map keys are built from JSON-safe text only (encoding/json replaces non-UTF-8 key bytes); (3) every use of the unmarshal target is dominated by the success edges of the file read and of the parse, and by the shard-count compatibility tests; (4) every cache that leaves GetCache is the one built by the constructor loop (len == shardNo, every shard and map freshly made) and nothing reachable from the file is stored in it except map entries copied one by one from non-nil shards; nobody else creates or re-shapes a cache; (5) the dump file is replaced (truncating write), and shutdown dumps to the very option start-up loads from. Crash points: a proper prefix of the single JSON object Dump writes is not valid JSON, so it takes the failed-parse path (3)."
	rep.Assume("A-prefix: a proper prefix of one JSON object is never a valid JSON document (grammar), so an interrupted save is rejected by json.Unmarshal")
	rep.Trust("encoding/json round-trips exported struct fields, integers, strings, slices and maps with string keys; ioutil.WriteFile truncates")
	prog := rep.Prog
	r1 := rep.Rule("R11.1", "Dump and GetCache use the identical on-disk type", 2)
	r2 := rep.Rule("R11.2", "every state-carrying field of the on-disk type closure round-trips through encoding/json", 20)
	r3 := rep.Rule("R11.3", "every use of the parsed file is dominated by read ok, parse ok and the shard-count tests", 4)
	r4 := rep.Rule("R11.4", "every cache leaving GetCache has the constructor shape; file contents enter only as copied map entries", 8)
	r5 := rep.Rule("R11.5", "shutdown dumps to the option start-up loads from", 2)
	r6 := rep.Rule("R11.6", "the dump replaces the file (truncating write)", 2)
	for _, rel := range []string{"ipfix", "netflow/v9"} {
		c := findTplCache(prog, rel)
		if c.dump == nil || c.load == nil || c.marshal == nil || c.unmarshal == nil || c.cacheT == nil {
			r1.Undecided(rel+":anchors", token.NoPos, "Dump/GetCache/json calls of the template cache not resolved")
			continue
		}
		// ---- R11.1 ----
		target := core.Deref(underIface(c.unmarshal.Common().Args[1]).Type())
		r1.Check(types.Identical(c.diskT, target), rel+":disk-type", c.unmarshal.Pos(), short(c.diskT.String()),
			fmt.Sprintf("Dump marshals %s but GetCache parses into %s: fields that do not match by name are silently dropped", short(c.diskT.String()), short(target.String())))
		// ---- R11.2 ----
		checkRoundTrip(r2, rel, c.diskT, c.shardT, map[string]bool{}, "")
		checkKeyTextSafe(prog, r2, c)
		// ---- R11.3 ----
		checkParsedUseGuards(prog, r3, c)
		// ---- R11.4 ----
		checkConstructorShape(prog, r4, c)
		// ---- R11.6 ----
		checkTruncatingWrite(prog, r6, c)
	}
	// ---- R11.5 ----
	checkDumpLoadSameOption(prog, r5)
}

func checkRoundTrip(r2 *core.RuleRun, rel string, t types.Type, shardT types.Type, seen map[string]bool, path string) {
	if seen[t.String()] {
		return
	}
	seen[t.String()] = true
	if n, ok := t.(*types.Named); ok {
		// custom marshalers must come in pairs
		hasM, hasU := hasMethod(n, "MarshalJSON"), hasMethod(n, "UnmarshalJSON")
		if hasM != hasU {
			r2.Fail(rel+":"+n.Obj().Name()+":marshaler-pair", n.Obj().Pos(), "type defines only one of MarshalJSON/UnmarshalJSON: what is written is not what is read")
		}
		if hasM && hasU {
			r2.Undecided(rel+":"+n.Obj().Name()+":custom-marshaler", n.Obj().Pos(), "custom JSON marshaler: round trip not decidable structurally")
			return
		}
	}
	switch u := t.Underlying().(type) {
	case *types.Pointer:
		// a JSON null at a pointer position loads as a nil pointer. The one such position of the format, the shard
		// pointers, is tested by GetCache before use (R11.4: nil shards are skipped); any other pointer in the
		// persisted types is a value the file can make nil and the lookup path dereferences without a test
		if shardT == nil || !types.Identical(u.Elem(), shardT) {
			if pos := unguardedDerefs(r2.Prog(), rel, t); len(pos) > 0 {
				r2.Fail(rel+":"+path+":pointer", pos[0], "the persisted type has a pointer ("+short(t.String())+") at "+path+": a null there in a damaged or hand-edited cache file loads as a nil pointer, and "+r2.Prog().Pos(pos[0])+" dereferences a value of that type read from a map or slice without testing it")
			} else {
				r2.OK(rel+":"+path+":pointer", token.NoPos, "pointer position; every dereference of a loaded value is nil-tested")
			}
		}
		checkRoundTrip(r2, rel, u.Elem(), shardT, seen, path)
	case *types.Slice:
		checkRoundTrip(r2, rel, u.Elem(), shardT, seen, path+"[]")
	case *types.Array:
		checkRoundTrip(r2, rel, u.Elem(), shardT, seen, path+"[]")
	case *types.Map:
		kb, ok := u.Key().Underlying().(*types.Basic)
		key := rel + ":" + path + ":map-key"
		if !ok || kb.Info()&(types.IsInteger|types.IsString) == 0 {
			r2.Fail(key, token.NoPos, "map key kind "+u.Key().String()+" is not encodable as a JSON object key")
		} else {
			r2.OK(key, token.NoPos, u.Key().String())
		}
		checkRoundTrip(r2, rel, u.Elem(), shardT, seen, path+"{}")
	case *types.Struct:
		tn := typeName(t)
		for i := 0; i < u.NumFields(); i++ {
			f := u.Field(i)
			key := fmt.Sprintf("%s:%s.%s", rel, tn, f.Name())
			if fn := namedOf(f.Type()); fn != nil && fn.Obj().Pkg() != nil && fn.Obj().Pkg().Path() == "sync" {
				r2.Note(key, f.Pos(), "mutex: not state")
				continue
			}
			tag := reflect.StructTag(u.Tag(i)).Get("json")
			switch {
			case !f.Exported() && !f.Embedded():
				r2.Fail(key, f.Pos(), "unexported field: encoding/json neither writes nor reads it, the state does not survive a restart")
			case tag == "-" || strings.HasPrefix(tag, "-,"):
				r2.Fail(key, f.Pos(), "field tagged json:\"-\": not saved")
			case strings.Contains(tag, "omitempty"):
				r2.Fail(key, f.Pos(), "omitempty on a state-carrying field: a meaningful zero value is not saved")
			case strings.Contains(tag, ",string"):
				r2.Fail(key, f.Pos(), "json ',string' option changes the encoding asymmetrically for some kinds")
			default:
				if !jsonKindOK(f.Type()) {
					r2.Fail(key, f.Pos(), "kind "+f.Type().String()+" does not round-trip through encoding/json")
				} else {
					r2.OK(key, f.Pos(), f.Type().String())
				}
			}
			checkRoundTrip(r2, rel, f.Type(), shardT, seen, tn+"."+f.Name())
		}
	}
}

func typeName(t types.Type) string {
	if n := namedOf(t); n != nil {
		return n.Obj().Name()
	}
	return t.String()
}

func hasMethod(n *types.Named, name string) bool {
	for _, t := range []types.Type{n, types.NewPointer(n)} {
		ms := types.NewMethodSet(t)
		for i := 0; i < ms.Len(); i++ {
			if ms.At(i).Obj().Name() == name {
				return true
			}
		}
	}
	return false
}

func jsonKindOK(t types.Type) bool {
	switch u := t.Underlying().(type) {
	case *types.Basic:
		return u.Info()&(types.IsInteger|types.IsString|types.IsBoolean|types.IsFloat) != 0
	case *types.Slice, *types.Array, *types.Struct, *types.Map, *types.Pointer:
		return true
	case *types.Interface, *types.Chan, *types.Signature:
		return false
	}
	return false
}

// textSafeString reports whether a string value is built only from JSON-safe text producers.
func textSafeString(v ssa.Value, depth int) (bool, string) {
	if depth > 10 {
		return false, "too deep"
	}
	switch x := v.(type) {
	case *ssa.Const:
		return true, ""
	case *ssa.BinOp:
		if x.Op == token.ADD {
			if ok, why := textSafeString(x.X, depth+1); !ok {
				return false, why
			}
			return textSafeString(x.Y, depth+1)
		}
	case *ssa.Phi:
		for _, e := range x.Edges {
			if ok, why := textSafeString(e, depth+1); !ok {
				return false, why
			}
		}
		return true, ""
	case *ssa.Call:
		switch calleeName(x) {
		case "(net.IP).String", "strconv.Itoa", "strconv.FormatInt", "strconv.FormatUint", "(net.HardwareAddr).String", "encoding/hex.EncodeToString":
			return true, ""
		case "fmt.Sprintf":
			// constant format whose verbs are all numeric (%d %x %X with flags/width): digits and hex letters only
			if c, ok := resolveConstString(x.Common().Args[0]); ok && numericVerbsOnly(c) {
				return true, ""
			}
			return false, "fmt.Sprintf with a non-constant or non-numeric format"
		case "fmt.Sprint":
			return false, "fmt formatting of arbitrary operands is not analysed"
		}
		return false, "result of " + calleeName(x)
	case *ssa.Convert:
		if isStringType(x.Type()) {
			if isByteSlice(x.X.Type()) {
				return false, "string(<raw bytes>) conversion: arbitrary octets, not valid UTF-8 in general"
			}
		}
	}
	return false, fmt.Sprintf("%T", v)
}

// keyParts flattens a string concatenation into its operands.
func keyParts(v ssa.Value, out *[]ssa.Value) {
	if b, ok := v.(*ssa.BinOp); ok && b.Op == token.ADD && isStringType(b.Type()) {
		keyParts(b.X, out)
		keyParts(b.Y, out)
		return
	}
	*out = append(*out, v)
}

func checkKeyTextSafe(prog *core.Program, r2 *core.RuleRun, c *tplCache) {
	if c.getShard == nil {
		return
	}
	name := core.FuncName(c.getShard)
	mt := c.shardT.Underlying().(*types.Struct).Field(c.mapField).Type().Underlying().(*types.Map)
	if !isStringType(mt.Key()) {
		r2.Note(name+":key-text", c.getShard.Pos(), "map key is not a string: no text-safety requirement")
		return
	}
	allInstrs(c.getShard, func(ins ssa.Instruction) {
		r, ok := ins.(*ssa.Return)
		if !ok || len(r.Results) != 2 {
			return
		}
		ok2, why := textSafeString(r.Results[1], 0)
		r2.Check(ok2, name+":key-text", r.Pos(), "key is built from canonical text producers and constants",
			"the map key can contain bytes that are not valid UTF-8 ("+why+"): encoding/json replaces them with U+FFFD when the cache is saved, so after a restart the key no longer matches and distinct exporters can collapse into one entry")
	})
}

func checkParsedUseGuards(prog *core.Program, r3 *core.RuleRun, c *tplCache) {
	fn := c.load
	name := core.FuncName(fn)
	targetAlloc, _ := underIface(c.unmarshal.Common().Args[1]).(*ssa.Alloc)
	if targetAlloc == nil {
		r3.Undecided(name+":target", c.unmarshal.Pos(), "unmarshal target is not a local variable")
		return
	}
	// guards
	var readErr ssa.Value
	allInstrs(fn, func(ins ssa.Instruction) {
		if call, ok := ins.(*ssa.Call); ok {
			switch calleeName(call) {
			case "io/ioutil.ReadFile", "os.ReadFile":
				readErr = extractOf(call, 1)
			}
		}
	})
	parseErr := ssa.Value(c.unmarshal)
	shardNoG := prog.SSAPackage(c.rel).Var("shardNo")
	// every load from the target must be dominated by: readErr == nil, parseErr == nil
	uses := 0
	allInstrs(fn, func(ins ssa.Instruction) {
		u, ok := ins.(*ssa.UnOp)
		if !ok || u.Op != token.MUL || core.AddrRoot(u.X) != ssa.Value(targetAlloc) || !core.InstrDominates(c.unmarshal, u) {
			return
		}
		uses++
		_, fld := fieldLoad(u)
		fname := "?"
		if fld != nil {
			fname = fld.Name()
		}
		key := fmt.Sprintf("%s:use:%s", name, fname)
		okRead := readErr != nil && dominatedByNilEdge(u, readErr, true)
		okParse := dominatedByNilEdge(u, parseErr, true)
		r3.Check(okRead && okParse, key, u.Pos(), "dominated by read ok and parse ok",
			fmt.Sprintf("the parsed value is used on a path where the file read or json.Unmarshal may have failed (read ok=%v parse ok=%v): a half-parsed document shapes the cache", okRead, okParse))
		// uses of the shard slice (anything but the ShardNo test itself) must pass both shard-count tests
		if fld != nil && containsType(fld.Type(), c.shardT, map[types.Type]bool{}) {
			isLenOnly := true
			for _, ref := range referrers(u) {
				if call, ok := ref.(*ssa.Call); ok {
					if b, ok := call.Common().Value.(*ssa.Builtin); ok && b.Name() == "len" {
						continue
					}
				}
				isLenOnly = false
			}
			if isLenOnly {
				return
			}
			okNo := dominatedByEqGlobal(u, targetAlloc, shardNoG, false)
			okLen := dominatedByEqGlobal(u, targetAlloc, shardNoG, true)
			r3.Check(okNo && okLen, key+":shard-count", u.Pos(), "dominated by ShardNo == shardNo and len(Cache) == shardNo",
				fmt.Sprintf("loaded shards are used without the shard-count compatibility tests (stored number ok=%v, actual length ok=%v): a cache saved with another layout, or a truncated shard list, is indexed as if it had %s shards", okNo, okLen, "shardNo"))
		}
	})
	if uses == 0 {
		r3.Note(name+":no-use", fn.Pos(), "parsed file is never used")
	}
}

// dominatedByNilEdge: ins executes only after an If edge on which v is nil (wantNil) / non-nil.
func dominatedByNilEdge(ins ssa.Instruction, v ssa.Value, wantNil bool) bool {
	for b := ins.Block(); b != nil; b = b.Idom() {
		id := b.Idom()
		if id == nil {
			break
		}
		if len(b.Preds) != 1 || b.Preds[0] != id {
			continue
		}
		for si, s := range id.Succs {
			if s != b {
				continue
			}
			cond, truth, ok := core.IfEdge(id, si)
			if !ok {
				continue
			}
			if x, eqNil, ok := core.NilCompare(cond); ok && x == v && (eqNil == truth) == wantNil {
				return true
			}
		}
	}
	return false
}

// dominatedByEqGlobal: ins is dominated by the true edge of `X == *global` where X is (len of) a
// field of the target variable.
func dominatedByEqGlobal(ins ssa.Instruction, target *ssa.Alloc, g *ssa.Global, wantLen bool) bool {
	for b := ins.Block(); b != nil; b = b.Idom() {
		id := b.Idom()
		if id == nil {
			break
		}
		if len(b.Preds) != 1 || b.Preds[0] != id {
			continue
		}
		for si, s := range id.Succs {
			if s != b {
				continue
			}
			cond, truth, ok := core.IfEdge(id, si)
			if !ok {
				continue
			}
			be, ok := cond.(*ssa.BinOp)
			// the edge on which the two are equal: true edge of ==, false edge of !=
			if !ok || !((be.Op == token.EQL && truth) || (be.Op == token.NEQ && !truth)) {
				continue
			}
			for _, pair := range [][2]ssa.Value{{be.X, be.Y}, {be.Y, be.X}} {
				if globalOf(pair[1]) != g && !isConstInt(pair[1]) {
					continue
				}
				x := pair[0]
				isLen := false
				if call, ok := x.(*ssa.Call); ok {
					if bi, ok := call.Common().Value.(*ssa.Builtin); ok && bi.Name() == "len" {
						isLen = true
						x = call.Common().Args[0]
					}
				}
				if u, ok := x.(*ssa.UnOp); ok && u.Op == token.MUL && core.AddrRoot(u.X) == ssa.Value(target) && isLen == wantLen {
					return true
				}
			}
		}
	}
	return false
}

func isConstInt(v ssa.Value) bool { _, ok := ssaConstInt(v); return ok }

func checkConstructorShape(prog *core.Program, r4 *core.RuleRun, c *tplCache) {
	fn := c.load
	name := core.FuncName(fn)
	shardNoG := prog.SSAPackage(c.rel).Var("shardNo")
	// the global shard count is a constant: only its initialiser stores to it
	stores := 0
	for _, f := range prog.RepoFuncs() {
		allInstrs(f, func(ins ssa.Instruction) {
			if st, ok := ins.(*ssa.Store); ok && st.Addr == ssa.Value(shardNoG) {
				if !(f.Name() == "init" && f.Synthetic != "") {
					stores++
				}
			}
		})
	}
	r4.Check(shardNoG != nil && stores == 0, c.rel+":shardNo-constant", fn.Pos(), "shard count is written only by its initialiser", "the shard count variable is modified at run time: caches of different shapes coexist")
	// all returns return the same MakeSlice
	var made *ssa.MakeSlice
	okRet := true
	allInstrs(fn, func(ins ssa.Instruction) {
		r, ok := ins.(*ssa.Return)
		if !ok {
			return
		}
		ms, isMS := r.Results[0].(*ssa.MakeSlice)
		if !isMS {
			okRet = false
			r4.Fail(name+":return-constructed", r.Pos(), "GetCache returns a value that is not the cache built by its own constructor loop ("+describeVal(r.Results[0])+"): a cache shaped by the file (nil shards, nil maps, wrong length) reaches the decoders")
			return
		}
		if made != nil && made != ms {
			okRet = false
		}
		made = ms
	})
	if made == nil {
		return
	}
	if okRet {
		r4.OK(name+":return-constructed", made.Pos(), "every return yields the cache made by the constructor loop")
	}
	lenOK := globalOf(made.Len) == shardNoG && (made.Cap == made.Len || globalOf(made.Cap) == shardNoG)
	r4.Check(lenOK, name+":len-shardNo", made.Pos(), "make(cache, shardNo)", "the cache is not made with exactly shardNo shards")
	// constructor loop: counted 0..shardNo-1, unconditional store of a fresh shard with a fresh map at index i
	filled := false
	var fillStore *ssa.Store
	allInstrs(fn, func(ins ssa.Instruction) {
		st, ok := ins.(*ssa.Store)
		if !ok {
			return
		}
		ia, isIA := st.Addr.(*ssa.IndexAddr)
		if !isIA || ia.X != ssa.Value(made) {
			return
		}
		fillStore = st
		shard, isAlloc := st.Val.(*ssa.Alloc)
		loop := core.LoopOf(fn, st)
		if !isAlloc || loop == nil {
			return
		}
		// fresh map stored into the shard
		mapOK := false
		for _, ref := range referrers(shard) {
			if fa, ok := ref.(*ssa.FieldAddr); ok && c.isMapFieldAddr(fa) {
				for _, r2 := range referrers(fa) {
					if s2, ok := r2.(*ssa.Store); ok {
						if _, isMake := s2.Val.(*ssa.MakeMap); isMake && s2.Block() == st.Block() {
							mapOK = true
						}
					}
				}
			}
		}
		// index = phi(0, +1) with condition phi < shardNo, store block dominates latch
		phi, isPhi := ia.Index.(*ssa.Phi)
		idxOK := false
		if isPhi && phi.Block() == loop.Header {
			z, inc := false, false
			for _, e := range phi.Edges {
				if cst, ok := ssaConstInt(e); ok && cst == 0 {
					z = true
				}
				if bo, ok := e.(*ssa.BinOp); ok && bo.Op == token.ADD && bo.X == ssa.Value(phi) {
					if c1, ok := ssaConstInt(bo.Y); ok && c1 == 1 {
						inc = true
					}
				}
			}
			bound := false
			for _, ref := range referrers(phi) {
				if bo, ok := ref.(*ssa.BinOp); ok && bo.Op == token.LSS && bo.X == ssa.Value(phi) && (globalOf(bo.Y) == shardNoG || bo.Y == made.Len) {
					bound = true
				}
			}
			idxOK = z && inc && bound
		}
		// `for i := range cache`: index = k+1, k = phi(-1, index), bound k+1 < len(cache)
		if bo, ok := ia.Index.(*ssa.BinOp); ok && bo.Op == token.ADD {
			if c1, ok := ssaConstInt(bo.Y); ok && c1 == 1 {
				if k, ok := bo.X.(*ssa.Phi); ok && k.Block() == loop.Header && len(k.Edges) == 2 {
					neg, back := false, false
					for _, e := range k.Edges {
						if cst, ok := ssaConstInt(e); ok && cst == -1 {
							neg = true
						}
						if e == ssa.Value(bo) {
							back = true
						}
					}
					bound := false
					for _, ref := range referrers(bo) {
						if cmp, ok := ref.(*ssa.BinOp); ok && cmp.Op == token.LSS && cmp.X == ssa.Value(bo) {
							if lc, ok := cmp.Y.(*ssa.Call); ok {
								if b, ok := lc.Common().Value.(*ssa.Builtin); ok && b.Name() == "len" && lc.Common().Args[0] == ssa.Value(made) {
									bound = true
								}
							}
							if cmp.Y == made.Len || globalOf(cmp.Y) == shardNoG {
								bound = true
							}
						}
					}
					if neg && back && bound {
						idxOK = true
					}
				}
			}
		}
		uncond := true
		for _, latch := range loop.Latch {
			if !st.Block().Dominates(latch) {
				uncond = false
			}
		}
		filled = mapOK && idxOK && uncond
	})
	r4.Check(filled, name+":constructor-loop", made.Pos(), "for i in 0..shardNo-1: cache[i] = &shard{map: make(map)} unconditionally", "the constructor loop does not provably fill every index with a fresh shard holding a fresh map")
	// nothing else stores elements of a cache anywhere in the program; nobody appends to / re-slices a cache
	for _, f := range prog.RepoFuncs() {
		allInstrs(f, func(ins ssa.Instruction) {
			switch x := ins.(type) {
			case *ssa.Store:
				if ia, ok := x.Addr.(*ssa.IndexAddr); ok && types.Identical(ia.X.Type(), c.cacheT) && x != fillStore {
					r4.Fail(core.FuncName(f)+":cache-element-store", x.Pos(), "a shard pointer is stored into a cache outside the constructor loop: the shape invariant (all shards non-nil) no longer follows from construction")
				}
			case *ssa.Call:
				if b, ok := x.Common().Value.(*ssa.Builtin); ok && b.Name() == "append" && types.Identical(x.Type(), c.cacheT) {
					r4.Fail(core.FuncName(f)+":cache-append", x.Pos(), "a cache is grown by append: its length no longer equals shardNo")
				}
			case *ssa.Slice:
				if types.Identical(x.Type(), c.cacheT) {
					r4.Fail(core.FuncName(f)+":cache-reslice", x.Pos(), "a cache is re-sliced: its length no longer equals shardNo")
				}
			case *ssa.MakeSlice:
				if types.Identical(x.Type(), c.cacheT) && x != made {
					r4.Fail(core.FuncName(f)+":cache-make", x.Pos(), "a cache is created outside the constructor")
				}
			}
		})
	}
	// file contents enter only as map entries copied from shards proven non-nil
	allInstrs(fn, func(ins ssa.Instruction) {
		mu, ok := ins.(*ssa.MapUpdate)
		if !ok {
			return
		}
		base, ok := c.mapBase(mu.Map)
		if !ok {
			return
		}
		key := name + ":copy-entry"
		// destination shard belongs to the constructed cache
		destOK := false
		if u, ok := base.(*ssa.UnOp); ok {
			if ia, ok := u.X.(*ssa.IndexAddr); ok && ia.X == ssa.Value(made) {
				destOK = true
			}
		}
		// source: key/value come from a range over a loaded shard's map; that shard is tested non-nil
		srcOK := false
		for v := range core.BackwardSlice(mu.Value, core.SliceOpts{}) {
			if rng, ok := v.(*ssa.Range); ok {
				if sb, ok := c.mapBase(rng.X); ok {
					srcOK = dominatedByNilEdge(rng, sb, false)
				}
			}
		}
		// every entry of a loaded shard is copied: within the loop over the shard's map nothing skips the store
		if lp := core.LoopOf(fn, mu); lp != nil {
			res := core.CountQuery{Fn: fn, StartBlock: lp.Header, Stop: core.IterationStop(lp), Event: func(i ssa.Instruction) int {
				if i == ssa.Instruction(mu) {
					return 1
				}
				return 0
			}}.Run()
			mn, has := res.Min["latch"]
			r4.Check(has && mn >= 1, name+":copy-every-entry", mu.Pos(), "every iteration over a loaded shard's entries stores its entry",
				"the loader skips some saved entries (a condition inside the copy loop): templates that were in use before the restart are unknown after it, on a criterion the running cache never applied")
		} else {
			r4.Fail(name+":copy-every-entry", mu.Pos(), "the entry store is not inside a loop over the loaded shard")
		}
		r4.Check(destOK && srcOK, key, mu.Pos(), "entry copied into a constructed shard from a loaded shard tested non-nil",
			fmt.Sprintf("loaded templates are merged without the guards that make any file content safe (destination in constructed cache=%v, source shard proven non-nil=%v)", destOK, srcOK))
	})
}

func checkTruncatingWrite(prog *core.Program, r6 *core.RuleRun, c *tplCache) {
	fn := c.dump
	name := core.FuncName(fn)
	n := 0
	allInstrs(fn, func(ins ssa.Instruction) {
		call, ok := ins.(*ssa.Call)
		if !ok {
			return
		}
		switch cn := calleeName(call); cn {
		case "io/ioutil.WriteFile", "os.WriteFile", "os.Create":
			n++
			r6.OK(name+":write", call.Pos(), cn+" truncates the file")
		case "os.OpenFile":
			n++
			flags, isConst := ssaConstInt(call.Common().Args[1])
			const oTrunc = 0x200 // syscall.O_TRUNC on linux
			r6.Check(isConst && flags&oTrunc != 0, name+":write", call.Pos(), "opened with O_TRUNC",
				"the cache file is opened for writing without O_TRUNC: when the new document is shorter than the old one the old tail survives, the file no longer parses and the next start silently begins with an empty cache")
		case "os.Rename":
			n++
			r6.OK(name+":write", call.Pos(), "atomic replace by rename")
		}
	})
	if n == 0 {
		r6.Fail(name+":write", fn.Pos(), "Dump does not write a file through a recognised truncating/replacing call")
	}
}

func checkDumpLoadSameOption(prog *core.Program, r5 *core.RuleRun) {
	type site struct {
		pkg   string
		field string
		pos   token.Pos
		fn    string
	}
	var dumps, loads []site
	for _, fn := range prog.RepoFuncs() {
		if core.PkgRel(fn) != "vflow" {
			continue
		}
		allInstrs(fn, func(ins ssa.Instruction) {
			call, ok := ins.(*ssa.Call)
			if !ok {
				return
			}
			f := call.Common().StaticCallee()
			if f == nil || !prog.IsRepoFunc(f) {
				return
			}
			rel := core.PkgRel(f)
			if rel != "ipfix" && rel != "netflow/v9" {
				return
			}
			args := call.Common().Args
			switch f.Name() {
			case "Dump":
				dumps = append(dumps, site{rel, fieldLoadName(args[len(args)-1]), call.Pos(), core.FuncName(fn)})
			case "GetCache":
				loads = append(loads, site{rel, fieldLoadName(args[0]), call.Pos(), core.FuncName(fn)})
			}
		})
	}
	for _, rel := range []string{"ipfix", "netflow/v9"} {
		var d, l []site
		for _, s := range dumps {
			if s.pkg == rel {
				d = append(d, s)
			}
		}
		for _, s := range loads {
			if s.pkg == rel {
				l = append(l, s)
			}
		}
		if len(d) == 0 || len(l) == 0 {
			r5.Fail(rel+":dump-load-sites", token.NoPos, fmt.Sprintf("%d dump and %d load call sites in package main: the cache is not both saved and restored", len(d), len(l)))
			continue
		}
		for _, ds := range d {
			for _, ls := range l {
				r5.Check(ds.field != "" && ds.field == ls.field, rel+":same-file-option", ds.pos, "both use Options."+ds.field,
					fmt.Sprintf("%s dumps to option %q but %s loads from option %q: the saved templates are never read back", ds.fn, ds.field, ls.fn, ls.field))
			}
		}
	}
}

// resolveConstString sees through a local variable holding a constant string.
func resolveConstString(v ssa.Value) (string, bool) {
	if c, ok := v.(*ssa.Const); ok && c.Value != nil {
		return strings.Trim(c.Value.ExactString(), "\""), true
	}
	return "", false
}

func numericVerbsOnly(f string) bool {
	for i := 0; i < len(f); i++ {
		if f[i] != '%' {
			if f[i] == '"' || f[i] == '\\' || f[i] < 0x20 {
				return false
			}
			continue
		}
		i++
		for i < len(f) && (f[i] == '.' || f[i] == '0' || f[i] == '+' || f[i] == '-' || f[i] == '#' || (f[i] >= '1' && f[i] <= '9')) {
			i++
		}
		if i >= len(f) {
			return false
		}
		switch f[i] {
		case 'd', 'x', 'X', 'o', 'b', '%':
		default:
			return false
		}
	}
	return true
}

// unguardedDerefs: in package rel, dereferences of a value of pointer type pt that was read out of a map, slice or
// array (lookup, range, index) and is not known to be non-nil at the dereference (no dominating `v != nil` branch).
func unguardedDerefs(prog *core.Program, rel string, pt types.Type) []token.Pos {
	var out []token.Pos
	for _, fn := range prog.RepoFuncs() {
		if core.PkgRel(fn) != rel {
			continue
		}
		allInstrs(fn, func(ins ssa.Instruction) {
			v, ok := ins.(ssa.Value)
			if !ok || v.Type() == nil {
				return
			}
			if _, isPtr := v.Type().(*types.Pointer); !isPtr || !types.Identical(v.Type(), pt) {
				return
			}
			loaded := false
			switch x := v.(type) {
			case *ssa.Lookup:
				loaded = !x.CommaOk
			case *ssa.Extract:
				switch x.Tuple.(type) {
				case *ssa.Lookup, *ssa.Next:
					loaded = true
				}
			case *ssa.UnOp:
				if x.Op == token.MUL {
					if _, isIdx := x.X.(*ssa.IndexAddr); isIdx {
						loaded = true
					}
				}
			case *ssa.Index:
				loaded = true
			}
			if !loaded {
				return
			}
			for _, r := range referrers(v) {
				deref := false
				switch y := r.(type) {
				case *ssa.FieldAddr:
					deref = y.X == v
				case *ssa.UnOp:
					deref = y.Op == token.MUL && y.X == v
				case ssa.CallInstruction:
					if f := y.Common().StaticCallee(); f != nil && f.Signature.Recv() != nil && len(y.Common().Args) > 0 && y.Common().Args[0] == v {
						deref = true // a method on the nil pointer dereferences it sooner or later
					}
				}
				if !deref {
					continue
				}
				guarded := false
				for _, r2 := range referrers(v) {
					b, ok := r2.(*ssa.BinOp)
					if !ok || (b.Op != token.NEQ && b.Op != token.EQL) {
						continue
					}
					other := b.Y
					if other == v {
						other = b.X
					}
					if c, isC := other.(*ssa.Const); !isC || !c.IsNil() {
						continue
					}
					for _, r3 := range referrers(b) {
						ifi, ok := r3.(*ssa.If)
						if !ok {
							continue
						}
						nonNil := ifi.Block().Succs[0]
						if b.Op == token.EQL {
							nonNil = ifi.Block().Succs[1]
						}
						if len(nonNil.Preds) == 1 && nonNil.Dominates(r.Block()) {
							guarded = true
						}
					}
				}
				if !guarded {
					out = append(out, r.Pos())
				}
			}
		})
	}
	return out
}
