package rules

import (
	"fmt"
	"go/constant"
	"go/token"
	"go/types"

	"golang.org/x/tools/go/ssa"

	"verif/internal/core"
)

func init() { register("C18", checkC18) }

// sflowSampleLoop bundles the anchors of the sFlow sample dispatch loop.
type sflowSampleLoop struct {
	fn      *ssa.Function // SFDecode
	info    *ssa.Call     // getSampleInfo()
	format  ssa.Value     // result 0
	length  ssa.Value     // result 1
	filter  *ssa.Call     // isFilterMatch(format)
	loop    *core.Loop
	pred    *ssa.Function
	decodes []*ssa.Call
}

func findSFlowLoop(prog *core.Program) *sflowSampleLoop {
	s := &sflowSampleLoop{fn: prog.Method("sflow", "SFDecoder", "SFDecode")}
	if s.fn == nil {
		return s
	}
	allInstrs(s.fn, func(ins ssa.Instruction) {
		c, ok := ins.(*ssa.Call)
		if !ok {
			return
		}
		f := c.Common().StaticCallee()
		if f == nil || !prog.IsRepoFunc(f) {
			return
		}
		res := f.Signature.Results()
		switch {
		case res.Len() == 3 && isUint32(res.At(0).Type()) && isUint32(res.At(1).Type()):
			s.info = c
		case res.Len() == 1 && types.Identical(res.At(0).Type(), types.Typ[types.Bool]) && f.Signature.Params().Len() == 1:
			s.filter, s.pred = c, f
		case res.Len() == 2 && core.LoopOf(s.fn, c) != nil:
			s.decodes = append(s.decodes, c)
		}
	})
	if s.info != nil {
		s.format, s.length = extractOf(s.info, 0), extractOf(s.info, 1)
		s.loop = core.LoopOf(s.fn, s.info)
	}
	return s
}

func isUint32(t types.Type) bool {
	b, ok := t.Underlying().(*types.Basic)
	return ok && b.Kind() == types.Uint32
}

// isSeekCur: invoke of Seek(off, 1) on an io.Seeker; returns the offset operand.
func isSeekCur(ins ssa.Instruction) (off ssa.Value, ok bool) {
	c, isCall := ins.(ssa.CallInstruction)
	if !isCall {
		return nil, false
	}
	com := c.Common()
	name := ""
	var args []ssa.Value
	if com.IsInvoke() {
		name, args = com.Method.Name(), com.Args
	} else if f := com.StaticCallee(); f != nil && f.Signature.Recv() != nil {
		name, args = f.Name(), com.Args[1:]
	}
	if name != "Seek" || len(args) != 2 {
		return nil, false
	}
	if w, isC := ssaConstInt(args[1]); !isC || w != 1 {
		return nil, false
	}
	return args[0], true
}

func checkC18(rep *core.Report) {
	rep.Explanation = "Decides the filter mechanism structurally: in the sample loop the predicate is applied to the format word returned by the sample-header read of this iteration; on the match edge every path to the next iteration performs exactly one relative seek by the length returned by that same read, no decode call and no append; on the no-match edge the filter is not consulted again, so unfiltered samples run the same code as without a filter; the predicate is a pure membership test (returns true exactly under an == comparison of its argument with an element of the filter slice, false after the range); the filter slice is written only by the decoder's constructor and read only by the predicate; the command-line/file option is parsed as comma-separated decimal uint32 and is the second argument of every decoder construction in the collector."
	prog := rep.Prog
	r1 := rep.Rule("R18.1", "match edge: exactly one skip, no decode, no append before the next sample", 3)
	r2 := rep.Rule("R18.2", "skip length and tested value come from the same sample-header read", 2)
	r3 := rep.Rule("R18.3", "predicate is a pure membership test; filter slice written only at construction, read only by the predicate", 4)
	r4 := rep.Rule("R18.4", "option parsed as comma-separated uint32 and passed to every decoder construction", 3)
	s := findSFlowLoop(prog)
	if s.fn == nil || s.info == nil || s.filter == nil || s.loop == nil {
		r1.Undecided("anchors", token.NoPos, fmt.Sprintf("sample loop anchors not resolved (SFDecode=%v header-read=%v filter-call=%v)", s.fn != nil, s.info != nil, s.filter != nil))
		return
	}
	name := core.FuncName(s.fn)
	// ---- R18.2 ----
	r2.Check(len(s.filter.Common().Args) == 2 && s.filter.Common().Args[1] == s.format, name+":tested-value", s.filter.Pos(), "filter applied to the format returned by this iteration's header read",
		"the filter is applied to something other than the sample format returned by this iteration's header read")
	// ---- R18.1 ----
	var matchIf *ssa.If
	for _, ref := range referrers(s.filter) {
		if ifi, ok := ref.(*ssa.If); ok {
			matchIf = ifi
		}
	}
	if matchIf == nil {
		r1.Fail(name+":filter-branch", s.filter.Pos(), "the predicate's result does not control a branch")
		return
	}
	onMatch := func(b *ssa.BasicBlock, si int) bool {
		if b == matchIf.Block() {
			return si == 0
		}
		return true
	}
	stop := core.IterationStop(s.loop)
	isSkip := func(i ssa.Instruction) int {
		if _, ok := isSeekCur(i); ok {
			return 1
		}
		return 0
	}
	isDecodeOrAppend := func(i ssa.Instruction) int {
		if c, ok := i.(*ssa.Call); ok {
			if b, ok := c.Common().Value.(*ssa.Builtin); ok && b.Name() == "append" {
				return 1
			}
			if f := c.Common().StaticCallee(); f != nil && prog.IsRepoFunc(f) && c != s.filter {
				return 1
			}
		}
		if _, ok := i.(*ssa.MapUpdate); ok {
			return 1
		}
		return 0
	}
	sk := core.CountQuery{Fn: s.fn, Start: s.filter, Stop: stop, Event: isSkip, EdgeOK: onMatch}.Run()
	r1.Check(exactly(sk, "latch", 1, 1) && len(sk.Min) == 1, name+":match:one-skip", matchIf.Pos(), "exactly one relative seek, then the next sample",
		fmt.Sprintf("on a filter match the sample is skipped %s times before the next sample (other ends: %v): the following samples are read from the wrong position", fmtRange(sk, "latch"), sk.Max))
	da := core.CountQuery{Fn: s.fn, Start: s.filter, Stop: stop, Event: isDecodeOrAppend, EdgeOK: onMatch}.Run()
	r1.Check(maxAll(da) == 0, name+":match:no-decode", matchIf.Pos(), "no decode call and no append on the match edge", "a filtered sample is still decoded or appended to the output")
	// the skip on the match edge uses this read's length
	w := core.Walk{EdgeOK: onMatch, Blocked: func(i ssa.Instruction) bool { return i.Block() == s.loop.Header }}
	for i := range w.ReachInstrs(s.filter) {
		if off, ok := isSeekCur(i); ok {
			r2.Check(stripConv(off) == s.length, name+":match:skip-length", i.Pos(), "skip by the length returned by the same header read",
				"the filtered sample is skipped by something other than its own declared length")
		}
	}
	// no-match edge: predicate not consulted again; other samples take the unfiltered path
	again := core.CountQuery{Fn: s.fn, Start: s.filter, Stop: stop, Event: func(i ssa.Instruction) int {
		if c, ok := i.(*ssa.Call); ok && c.Common().StaticCallee() == s.pred {
			return 1
		}
		return 0
	}}.Run()
	r1.Check(maxAll(again) == 0, name+":filter-once", s.filter.Pos(), "predicate consulted once per sample", "the predicate is consulted more than once per sample")
	// ---- R18.3 predicate shape ----
	checkPredicate(prog, r3, s.pred)
	// ---- R18.4 ----
	checkFilterOption(prog, r4)
}

func checkPredicate(prog *core.Program, r3 *core.RuleRun, pred *ssa.Function) {
	name := core.FuncName(pred)
	// no calls except len
	pure := true
	allInstrs(pred, func(ins ssa.Instruction) {
		switch x := ins.(type) {
		case *ssa.Call:
			if b, ok := x.Common().Value.(*ssa.Builtin); !ok || b.Name() != "len" {
				pure = false
			}
		case *ssa.Store, *ssa.MapUpdate, *ssa.Send, *ssa.Go, *ssa.Defer:
			pure = false
		}
	})
	r3.Check(pure, name+":pure", pred.Pos(), "no calls, no stores", "the filter predicate has side effects or calls other code")
	// the slice ranged over: a field of the receiver
	var filterField *types.Var
	var cmp *ssa.BinOp
	nCmp := 0
	arg := pred.Params[len(pred.Params)-1]
	allInstrs(pred, func(ins ssa.Instruction) {
		b, ok := ins.(*ssa.BinOp)
		if !ok {
			return
		}
		involvesArg := b.X == ssa.Value(arg) || b.Y == ssa.Value(arg)
		if !involvesArg {
			for v := range core.BackwardSlice(b, core.SliceOpts{}) {
				if v == ssa.Value(arg) {
					involvesArg = true
				}
			}
		}
		if involvesArg {
			nCmp++
			cmp = b
		}
	})
	okCmp := false
	if nCmp == 1 && cmp.Op == token.EQL {
		other := cmp.X
		if other == ssa.Value(arg) {
			other = cmp.Y
		}
		if (cmp.X == ssa.Value(arg) || cmp.Y == ssa.Value(arg)) && other != ssa.Value(arg) {
			if u, ok := other.(*ssa.UnOp); ok && u.Op == token.MUL {
				if ia, ok := u.X.(*ssa.IndexAddr); ok {
					if _, f := fieldLoad(ia.X); f != nil && core.AddrRoot(ia.X.(*ssa.UnOp).X) == ssa.Value(pred.Params[0]) {
						filterField = f
						okCmp = true
					}
				}
			}
		}
	}
	r3.Check(okCmp, name+":compares-element-with-argument", pred.Pos(), "single comparison: filter element == argument",
		"the predicate does not compare its argument, unchanged, for equality with an element of the filter list (e.g. it maps both to classes first): types that are not listed can match")
	// returns: true only under the comparison's true edge, false elsewhere
	okRet := okCmp
	// underTrue: block b can only be reached through the true edge of the comparison
	underTrue := func(b *ssa.BasicBlock) bool {
		for ; b != nil && cmp != nil; b = b.Idom() {
			id := b.Idom()
			if id == nil {
				break
			}
			if len(b.Preds) == 1 && b.Preds[0] == id {
				for si, sx := range id.Succs {
					if sx == b {
						if cond, truth, ok := core.IfEdge(id, si); ok && cond == ssa.Value(cmp) && truth {
							return true
						}
					}
				}
			}
		}
		return false
	}
	// the result, whether returned directly or collected in a variable (`matched = true; break`): every constant that
	// can flow into it is true exactly where the comparison held
	var leaf func(v ssa.Value, at *ssa.BasicBlock, seen map[ssa.Value]bool)
	leaf = func(v ssa.Value, at *ssa.BasicBlock, seen map[ssa.Value]bool) {
		switch x := v.(type) {
		case *ssa.Const:
			if x.Value == nil || x.Value.Kind() != constant.Bool {
				okRet = false
				return
			}
			if constant.BoolVal(x.Value) != underTrue(at) {
				okRet = false
			}
		case *ssa.Phi:
			if seen[x] {
				return
			}
			seen[x] = true
			for i, e := range x.Edges {
				if i < len(x.Block().Preds) {
					leaf(e, x.Block().Preds[i], seen)
				}
			}
		default:
			okRet = false
		}
	}
	allInstrs(pred, func(ins ssa.Instruction) {
		if r, ok := ins.(*ssa.Return); ok && len(r.Results) == 1 {
			leaf(r.Results[0], r.Block(), map[ssa.Value]bool{})
		}
	})
	r3.Check(okRet, name+":returns", pred.Pos(), "true exactly under the equality, false after the range", "the predicate's result is not 'some element equals the argument'")
	// the filter field: written only in the constructor, read only in the predicate
	if filterField == nil {
		return
	}
	for _, fn := range prog.RepoFuncs() {
		if core.PkgRel(fn) != "sflow" {
			continue
		}
		allInstrs(fn, func(ins ssa.Instruction) {
			fa, ok := ins.(*ssa.FieldAddr)
			if !ok {
				return
			}
			if _, f, _ := core.FieldOf(fa); f != filterField {
				return
			}
			for _, ref := range referrers(fa) {
				switch x := ref.(type) {
				case *ssa.Store:
					_, fresh := fa.X.(*ssa.Alloc)
					r3.Check(fresh && x.Addr == ssa.Value(fa), core.FuncName(fn)+":filter-write", x.Pos(), "filter stored into a decoder under construction", "the filter list is modified after construction")
				case *ssa.UnOp:
					r3.Check(fn == pred, core.FuncName(fn)+":filter-read", x.Pos(), "read by the predicate", "the filter list is read outside the predicate: unfiltered samples may take a different path when a filter is set")
				}
			}
		})
	}
}

func checkFilterOption(prog *core.Program, r4 *core.RuleRun) {
	// every NewSFDecoder call in package main passes Options.SFlowTypeFilter
	ctor := prog.Func("sflow", "NewSFDecoder")
	n := 0
	var field *types.Var
	if ctor != nil {
		for _, cs := range prog.CG().In[ctor] {
			if core.PkgRel(cs.Caller) != "vflow" {
				continue
			}
			n++
			_, f := fieldLoad(cs.Instr.Common().Args[1])
			okF := f != nil && typeIs(namedOwner(cs.Instr.Common().Args[1]), core.ModPath+"/vflow", "Options")
			if okF {
				field = f
			}
			r4.Check(okF, core.FuncName(cs.Caller)+":decoder-gets-filter", cs.Instr.Pos(), "decoder constructed with Options."+fname(f), "a decoder is constructed without the configured type filter")
		}
	}
	if n == 0 {
		r4.Fail("vflow:decoder-construction", token.NoPos, "no sFlow decoder construction found in the collector")
		return
	}
	if field == nil {
		return
	}
	// the flag.Value Set method of the field's type
	nt := namedOf(field.Type())
	if nt == nil {
		r4.Undecided("Options."+field.Name()+":type", field.Pos(), "filter option is not a named flag.Value type")
		return
	}
	set := prog.Method("vflow", nt.Obj().Name(), "Set")
	if set == nil {
		r4.Fail("Options."+field.Name()+":Set", field.Pos(), "filter option type has no Set method: it cannot be given on the command line")
		return
	}
	name := core.FuncName(set)
	var split, parse *ssa.Call
	var app *ssa.Call
	allInstrs(set, func(ins ssa.Instruction) {
		if c, ok := ins.(*ssa.Call); ok {
			switch calleeName(c) {
			case "strings.Split":
				split = c
			case "strconv.ParseUint":
				parse = c
			}
			if b, ok := c.Common().Value.(*ssa.Builtin); ok && b.Name() == "append" {
				app = c
			}
		}
	})
	okSplit := false
	if split != nil {
		if c, ok := split.Common().Args[1].(*ssa.Const); ok && c.Value != nil && c.Value.ExactString() == `","` {
			okSplit = split.Common().Args[0] == ssa.Value(set.Params[1])
		}
	}
	r4.Check(okSplit, name+":split", set.Pos(), "value split on commas", "the option value is not split on ','")
	okParse := false
	if parse != nil {
		b, ok1 := ssaConstInt(parse.Common().Args[1])
		w, ok2 := ssaConstInt(parse.Common().Args[2])
		okParse = ok1 && ok2 && b == 10 && w == 32 && core.BackwardSlice(parse.Common().Args[0], core.SliceOpts{})[split]
	}
	r4.Check(okParse, name+":parse", set.Pos(), "each part parsed as decimal uint32", "filter parts are not parsed as decimal 32-bit unsigned numbers")
	okApp := false
	if app != nil && parse != nil {
		sl := core.BackwardSlice(app.Common().Args[1], core.SliceOpts{})
		okApp = sl[parse] && core.BackwardSlice(app.Common().Args[0], core.SliceOpts{})[set.Params[0]]
		// stored back through the receiver
		stored := false
		for _, ref := range referrers(app) {
			if st, ok := ref.(*ssa.Store); ok && st.Addr == ssa.Value(set.Params[0]) {
				stored = true
			}
		}
		okApp = okApp && stored
	}
	r4.Check(okApp, name+":append", set.Pos(), "each parsed value appended to the receiver", "parsed filter values are not appended to the option's list")
}

// namedOwner returns the type owning the field a value was loaded from.
func namedOwner(v ssa.Value) types.Type {
	o, _ := fieldLoad(v)
	return o
}
