package rules

import (
	"fmt"
	"go/token"
	"go/types"
	"os"
	"sort"
	"strings"

	"golang.org/x/tools/go/ssa"

	"verif/internal/core"
	"verif/internal/obl"
)

func init() { register("C02", checkC02) }

// ---------------------------------------------------------------------------------------------
// Progress analysis: a lower bound on the octets a path consumes from the datagram.
//
// Events that consume: calls of the byte reader's position writer with a constant amount (inside
// package reader), encoding/binary.Read into a fixed-size object on its nil-error edge, and calls
// of repository functions, credited on the edge that tells how the call ended (nil error, non-fatal
// error, any error) with the minimum over the callee's returns of that class. A comparison of two
// ReadCount() values of the same reader taken in the same iteration credits one octet on the edge
// where they differ. Paths are enumerated as simple paths (the loop-erased image of every walk);
// values of phis at loop headers are left opaque, phis elsewhere are resolved by the edge taken.
// ---------------------------------------------------------------------------------------------

type sumKey struct {
	fn   *ssa.Function
	mask int
}

type progAn struct {
	prog      *core.Program
	advance   *ssa.Function
	readCount *ssa.Function
	nonfatal  map[string]types.Type // package rel -> non-fatal error type
	summ      map[sumKey]int
	inprog    map[*ssa.Function]bool
	headers   map[*ssa.BasicBlock]bool
	steps     int
	overflow  bool
	targets   map[ssa.CallInstruction][]*ssa.Function
}

const (
	progNone  = -1
	progSteps = 4000000
)

type pstate struct {
	w        int
	cls      map[ssa.Value]int       // possible classes of a value on this path (absent = not yet constrained)
	alias    map[ssa.Value]ssa.Value // non-header phi -> incoming value on this path
	credited map[ssa.CallInstruction]int
	onPath   map[*ssa.BasicBlock]bool
	trace    []*ssa.BasicBlock
}

func (s *pstate) clone() *pstate {
	n := &pstate{w: s.w, cls: make(map[ssa.Value]int, len(s.cls)), alias: make(map[ssa.Value]ssa.Value, len(s.alias)), credited: make(map[ssa.CallInstruction]int, len(s.credited)), onPath: make(map[*ssa.BasicBlock]bool, len(s.onPath)+1)}
	for k, v := range s.cls {
		n.cls[k] = v
	}
	for k, v := range s.alias {
		n.alias[k] = v
	}
	for k, v := range s.credited {
		n.credited[k] = v
	}
	for k, v := range s.onPath {
		n.onPath[k] = v
	}
	n.trace = append([]*ssa.BasicBlock{}, s.trace...)
	return n
}

func newPState() *pstate {
	return &pstate{cls: map[ssa.Value]int{}, alias: map[ssa.Value]ssa.Value{}, credited: map[ssa.CallInstruction]int{}, onPath: map[*ssa.BasicBlock]bool{}}
}

func (s *pstate) resolve(v ssa.Value) ssa.Value {
	for i := 0; i < 16; i++ {
		switch x := v.(type) {
		case *ssa.ChangeInterface:
			v = x.X
			continue
		}
		a, ok := s.alias[v]
		if !ok {
			return v
		}
		v = a
	}
	return v
}

func newProgAn(prog *core.Program) *progAn {
	pa := &progAn{prog: prog, nonfatal: map[string]types.Type{}, summ: map[sumKey]int{}, inprog: map[*ssa.Function]bool{}, headers: map[*ssa.BasicBlock]bool{}, targets: map[ssa.CallInstruction][]*ssa.Function{}}
	pa.readCount = prog.Method("reader", "Reader", "ReadCount")
	// the single writer of the reader's position (as established by C19/R19.5)
	var writers []*ssa.Function
	for _, fn := range prog.RepoFuncs() {
		if core.PkgRel(fn) != "reader" || fn.Synthetic != "" {
			continue
		}
		n := 0
		allInstrs(fn, func(ins ssa.Instruction) {
			if st, ok := ins.(*ssa.Store); ok {
				if _, local := core.AddrRoot(st.Addr).(*ssa.Alloc); !local {
					n++
				}
			}
		})
		if n > 0 {
			writers = append(writers, fn)
		}
	}
	if len(writers) == 1 {
		pa.advance = writers[0]
	}
	for _, rel := range []string{"ipfix", "netflow/v9"} {
		if sd := findSetDecoder(prog, rel); sd != nil && sd.decode != nil {
			// the asserted non-fatal type in Decode's error switch
			allInstrs(sd.decode, func(ins ssa.Instruction) {
				if ta, ok := ins.(*ssa.TypeAssert); ok && ta.CommaOk && types.Implements(ta.AssertedType, errorIface) {
					if _, isIface := ta.AssertedType.Underlying().(*types.Interface); !isIface {
						pa.nonfatal[rel] = ta.AssertedType
					}
				}
			})
		}
	}
	for _, sites := range prog.CG().Sites {
		for _, cs := range sites {
			pa.targets[cs.Instr] = cs.Targets
		}
	}
	return pa
}

func (pa *progAn) nonfatalOf(fn *ssa.Function) types.Type { return pa.nonfatal[core.PkgRel(fn)] }

func isErrorType(t types.Type) bool {
	return types.Identical(t, types.Universe.Lookup("error").Type())
}

// errCallOf: v is the error result of a call (the call itself or the extract of its last, error-typed result).
func errCallOf(v ssa.Value) *ssa.Call {
	switch x := v.(type) {
	case *ssa.Call:
		if isErrorType(x.Type()) {
			return x
		}
	case *ssa.Extract:
		if c, ok := x.Tuple.(*ssa.Call); ok {
			if res := c.Common().Signature().Results(); x.Index == res.Len()-1 && isErrorType(res.At(x.Index).Type()) {
				return c
			}
		}
	}
	return nil
}

func pointeeSize(v ssa.Value) int {
	if mi, ok := v.(*ssa.MakeInterface); ok {
		v = mi.X
	}
	p, ok := v.Type().Underlying().(*types.Pointer)
	if !ok {
		return 0
	}
	return fixedSize(p.Elem(), 0)
}

func fixedSize(t types.Type, d int) int {
	if d > 4 {
		return 0
	}
	switch u := t.Underlying().(type) {
	case *types.Basic:
		switch u.Kind() {
		case types.Uint8, types.Int8, types.Bool:
			return 1
		case types.Uint16, types.Int16:
			return 2
		case types.Uint32, types.Int32, types.Float32:
			return 4
		case types.Uint64, types.Int64, types.Float64:
			return 8
		}
	case *types.Array:
		return int(u.Len()) * fixedSize(u.Elem(), d+1)
	case *types.Struct:
		n := 0
		for i := 0; i < u.NumFields(); i++ {
			s := fixedSize(u.Field(i).Type(), d+1)
			if s == 0 {
				return 0
			}
			n += s
		}
		return n
	}
	return 0
}

// sizeForwarder: fn only forwards to encoding/binary.Read with its own parameter as the object read.
func sizeForwarder(fn *ssa.Function) int {
	if len(fn.Blocks) != 1 {
		return -1
	}
	var call *ssa.Call
	n := 0
	for _, ins := range fn.Blocks[0].Instrs {
		if c, ok := ins.(*ssa.Call); ok {
			n++
			call = c
		}
	}
	if n != 1 || calleeName(call) != "encoding/binary.Read" {
		return -1
	}
	ret, ok := fn.Blocks[0].Instrs[len(fn.Blocks[0].Instrs)-1].(*ssa.Return)
	if !ok || len(ret.Results) != 1 || ret.Results[0] != ssa.Value(call) {
		return -1
	}
	for i, p := range fn.Params {
		if call.Common().Args[2] == ssa.Value(p) {
			return i
		}
	}
	return -1
}

// callWeight: the least number of octets the call consumed, given that its error result is in mask
// (progNone: the callee never returns that class, so the edge is infeasible).
func (pa *progAn) callWeight(c ssa.CallInstruction, mask int) int {
	com := c.Common()
	var callees []*ssa.Function
	if f := com.StaticCallee(); f != nil {
		callees = []*ssa.Function{f}
	} else {
		callees = pa.targets[c]
		if len(callees) == 0 {
			return 0
		}
	}
	best := progNone
	for _, f := range callees {
		w := 0
		switch {
		case !pa.prog.IsRepoFunc(f) || len(f.Blocks) == 0:
			if f.String() == "encoding/binary.Read" && mask == clsNil && len(com.Args) == 3 {
				w = pointeeSize(com.Args[2])
			}
		default:
			if k := sizeForwarder(f); k >= 0 {
				if mask == clsNil && k < len(com.Args) {
					w = pointeeSize(com.Args[k])
				}
			} else {
				w = pa.summary(f, mask)
			}
		}
		if w == progNone {
			continue
		}
		if best == progNone || w < best {
			best = w
		}
	}
	return best
}

// initialClasses of a value (a superset of what it can be).
func (pa *progAn) initialClasses(fn *ssa.Function, v ssa.Value) int {
	all := clsNil | clsFatal | clsNonfatal
	switch x := v.(type) {
	case *ssa.Const:
		if x.Value == nil {
			return clsNil
		}
	case *ssa.Alloc, *ssa.MakeSlice, *ssa.MakeMap, *ssa.MakeChan, *ssa.MakeClosure, *ssa.FieldAddr, *ssa.IndexAddr:
		return clsFatal
	}
	if isErrorType(v.Type()) || types.IsInterface(v.Type()) {
		return errClasses(pa.prog, v, pa.nonfatalOf(fn), 0, map[ssa.Value]bool{})
	}
	return all &^ clsNonfatal
}

// constrain narrows the classes of v on this path; false = contradiction (infeasible edge).
func (pa *progAn) constrain(fn *ssa.Function, st *pstate, v ssa.Value, keep int) bool {
	v = st.resolve(v)
	cur, ok := st.cls[v]
	if !ok {
		cur = pa.initialClasses(fn, v)
	}
	cur &= keep
	st.cls[v] = cur
	if cur == 0 {
		return false
	}
	if c := errCallOf(v); c != nil {
		w := pa.callWeight(c, cur)
		if w == progNone {
			return false
		}
		if prev := st.credited[c]; w > prev {
			st.w += w - prev
			st.credited[c] = w
		}
	}
	return true
}

func sameReceiver(a, b ssa.Value) bool {
	if a == b {
		return true
	}
	la, ok1 := a.(*ssa.UnOp)
	lb, ok2 := b.(*ssa.UnOp)
	if !ok1 || !ok2 || la.Op != token.MUL || lb.Op != token.MUL {
		return false
	}
	fa, ok1 := la.X.(*ssa.FieldAddr)
	fb, ok2 := lb.X.(*ssa.FieldAddr)
	return ok1 && ok2 && fa.Field == fb.Field && fa.X == fb.X
}

// fieldStored: some instruction of fn stores to the field the receiver expression is loaded from.
func fieldStored(fn *ssa.Function, recv ssa.Value) bool {
	l, ok := recv.(*ssa.UnOp)
	if !ok {
		return false
	}
	fa, ok := l.X.(*ssa.FieldAddr)
	if !ok {
		return false
	}
	found := false
	allInstrs(fn, func(ins ssa.Instruction) {
		if st, ok := ins.(*ssa.Store); ok {
			if f2, ok := st.Addr.(*ssa.FieldAddr); ok && f2.Field == fa.Field && types.Identical(f2.X.Type(), fa.X.Type()) {
				found = true
			}
		}
	})
	return found
}

// progressGuard: the edge compares the reader's consumed count now with the count taken earlier on this
// path and is the edge on which they differ.
func (pa *progAn) progressGuard(fn *ssa.Function, st *pstate, cond ssa.Value, truth bool) bool {
	b, ok := cond.(*ssa.BinOp)
	if !ok || pa.readCount == nil {
		return false
	}
	var differ bool
	switch b.Op {
	case token.EQL:
		differ = !truth
	case token.NEQ, token.GTR, token.LSS:
		differ = truth
	case token.LEQ, token.GEQ:
		differ = !truth // !(a <= b) means a > b
	default:
		return false
	}
	cx, ok1 := b.X.(*ssa.Call)
	cy, ok2 := b.Y.(*ssa.Call)
	if !ok1 || !ok2 || cx.Common().StaticCallee() != pa.readCount || cy.Common().StaticCallee() != pa.readCount {
		return false
	}
	if !sameReceiver(cx.Common().Args[0], cy.Common().Args[0]) || fieldStored(fn, cx.Common().Args[0]) {
		return false
	}
	// both counts were taken on this path (in this iteration), one before the other
	if !st.onPath[cx.Block()] || !st.onPath[cy.Block()] {
		return false
	}
	return differ && cx != cy
}

// applyEdge returns the state after taking b -> b.Succs[si], or nil if the edge is infeasible on this path.
func (pa *progAn) applyEdge(fn *ssa.Function, b *ssa.BasicBlock, si int, st *pstate) *pstate {
	ns := st.clone()
	if cond, truth, ok := core.IfEdge(b, si); ok {
		if c, isC := cond.(*ssa.Const); isC && c.Value != nil {
			if (c.Value.String() == "true") != truth {
				return nil
			}
		}
		if v, eqNil, ok := core.NilCompare(cond); ok {
			keep := clsNil
			if eqNil != truth {
				keep = clsFatal | clsNonfatal
			}
			if !pa.constrain(fn, ns, v, keep) {
				return nil
			}
		} else if ex, ok := cond.(*ssa.Extract); ok && ex.Index == 1 {
			if ta, ok := ex.Tuple.(*ssa.TypeAssert); ok && ta.CommaOk {
				nf := pa.nonfatalOf(fn)
				if nf != nil && types.Identical(ta.AssertedType, nf) {
					keep := clsNonfatal
					if !truth {
						keep = clsNil | clsFatal
					}
					if !pa.constrain(fn, ns, ta.X, keep) {
						return nil
					}
				}
			}
		} else if pa.progressGuard(fn, ns, cond, truth) {
			if ns.w < 1 {
				ns.w = 1
			}
		}
	}
	// phis of the successor
	succ := b.Succs[si]
	if !pa.headers[succ] {
		pi := -1
		for i, p := range succ.Preds {
			if p == b {
				pi = i
			}
		}
		for _, ins := range succ.Instrs {
			phi, ok := ins.(*ssa.Phi)
			if !ok {
				break
			}
			if pi >= 0 {
				ns.alias[phi] = ns.resolve(phi.Edges[pi])
			}
		}
	}
	return ns
}

// blockEvents adds the unconditional consumption of the block's instructions (from index `from`).
func (pa *progAn) blockEvents(fn *ssa.Function, b *ssa.BasicBlock, st *pstate) (panics bool) {
	for _, ins := range b.Instrs {
		switch x := ins.(type) {
		case *ssa.Panic:
			return true
		case *ssa.Call:
			f := x.Common().StaticCallee()
			if f == nil {
				continue
			}
			if pa.advance != nil && f == pa.advance {
				if k, ok := ssaConstInt(x.Common().Args[len(x.Common().Args)-1]); ok && k > 0 {
					st.w += int(k)
				}
				continue
			}
			if pa.prog.IsRepoFunc(f) && len(f.Blocks) > 0 {
				res := f.Signature.Results()
				if res.Len() == 0 || !isErrorType(res.At(res.Len()-1).Type()) {
					if w := pa.summary(f, clsNil|clsFatal|clsNonfatal); w > 0 {
						st.w += w
						st.credited[x] = w
					}
				}
			}
		}
	}
	return false
}

type pathEnd struct {
	st   *pstate
	from *ssa.BasicBlock
	to   *ssa.BasicBlock // nil for a return
	ret  *ssa.Return
}

// paths enumerates the simple paths from the start of `start` until stop(from,to) holds or the function returns.
func (pa *progAn) paths(fn *ssa.Function, start *ssa.BasicBlock, st *pstate, within func(*ssa.BasicBlock) bool, stop func(from, to *ssa.BasicBlock) bool, emit func(pathEnd)) {
	var rec func(b *ssa.BasicBlock, st *pstate)
	rec = func(b *ssa.BasicBlock, st *pstate) {
		pa.steps++
		if pa.steps > progSteps {
			pa.overflow = true
			return
		}
		st.onPath[b] = true
		st.trace = append(st.trace, b)
		if pa.blockEvents(fn, b, st) {
			return
		}
		if r, ok := b.Instrs[len(b.Instrs)-1].(*ssa.Return); ok {
			emit(pathEnd{st: st, from: b, ret: r})
			return
		}
		for si, s := range b.Succs {
			ns := pa.applyEdge(fn, b, si, st)
			if ns == nil {
				continue
			}
			if stop != nil && stop(b, s) {
				emit(pathEnd{st: ns, from: b, to: s})
				continue
			}
			if within != nil && !within(s) {
				continue
			}
			if ns.onPath[s] {
				continue
			}
			rec(s, ns)
		}
	}
	rec(start, st)
}

// summary: the least consumption over the returns of fn whose error result may be in mask.
func (pa *progAn) summary(fn *ssa.Function, mask int) int {
	res := fn.Signature.Results()
	hasErr := res.Len() > 0 && isErrorType(res.At(res.Len()-1).Type())
	if !hasErr {
		mask = clsNil | clsFatal | clsNonfatal
	}
	k := sumKey{fn, mask}
	if w, ok := pa.summ[k]; ok {
		return w
	}
	if pa.inprog[fn] {
		return 0
	}
	pa.inprog[fn] = true
	defer delete(pa.inprog, fn)
	pa.markHeaders(fn)
	best := progNone
	pa.paths(fn, fn.Blocks[0], newPState(), nil, nil, func(e pathEnd) {
		w := e.st.w
		if hasErr {
			ev := e.st.resolve(e.ret.Results[len(e.ret.Results)-1])
			cur, ok := e.st.cls[ev]
			if !ok {
				cur = pa.initialClasses(fn, ev)
			}
			cur &= mask
			if cur == 0 {
				return
			}
			if c := errCallOf(ev); c != nil {
				cw := pa.callWeight(c, cur)
				if cw == progNone {
					return
				}
				if prev := e.st.credited[c]; cw > prev {
					w += cw - prev
				}
			}
		}
		if best == progNone || w < best {
			best = w
		}
	})
	pa.summ[k] = best
	return best
}

func (pa *progAn) markHeaders(fn *ssa.Function) {
	for _, l := range core.NaturalLoops(fn) {
		pa.headers[l.Header] = true
	}
}

// ---------------------------------------------------------------------------------------------
// loop classification
// ---------------------------------------------------------------------------------------------

// invariantIn: v does not change while the loop runs (defined outside it, or computed purely from such values).
func invariantIn(l *core.Loop, v ssa.Value, d int) bool {
	if d > 8 {
		return false
	}
	switch x := v.(type) {
	case *ssa.Const, *ssa.Parameter, *ssa.FreeVar, *ssa.Global, *ssa.Function:
		return true
	case ssa.Instruction:
		if !l.Blocks[x.Block()] {
			return true
		}
		switch y := x.(type) {
		case *ssa.Field:
			return invariantIn(l, y.X, d+1)
		case *ssa.Convert:
			return invariantIn(l, y.X, d+1)
		case *ssa.ChangeType:
			return invariantIn(l, y.X, d+1)
		case *ssa.BinOp:
			return invariantIn(l, y.X, d+1) && invariantIn(l, y.Y, d+1)
		case *ssa.Call:
			if b, ok := y.Common().Value.(*ssa.Builtin); ok && (b.Name() == "len" || b.Name() == "cap") {
				return invariantIn(l, y.Common().Args[0], d+1)
			}
		case *ssa.UnOp:
			// a load from a local variable that nothing in the loop writes or hands out
			if y.Op == token.MUL {
				if a, ok := core.AddrRoot(y.X).(*ssa.Alloc); ok {
					return !writtenInLoop(l, a)
				}
				// a field of an object reached through a parameter/receiver: invariant when neither the loop body nor
				// anything it calls stores to that field of that struct type
				if fa, ok := y.X.(*ssa.FieldAddr); ok && loopProg != nil {
					if _, isParam := core.AddrRoot(fa.X).(*ssa.Parameter); isParam || invariantIn(l, fa.X, d+1) {
						return !storedUnder(loopProg, l, func(st *ssa.Store) bool {
							f2, ok := st.Addr.(*ssa.FieldAddr)
							return ok && f2.Field == fa.Field && types.Identical(core.Deref(f2.X.Type()), core.Deref(fa.X.Type()))
						})
					}
				}
				// an element of an invariant slice at an invariant index, when nothing under the loop stores elements of
				// that type
				if ia, ok := y.X.(*ssa.IndexAddr); ok && loopProg != nil && invariantIn(l, ia.X, d+1) && invariantIn(l, ia.Index, d+1) {
					return !storedUnder(loopProg, l, func(st *ssa.Store) bool {
						i2, ok := st.Addr.(*ssa.IndexAddr)
						return ok && types.Identical(st.Val.Type(), y.Type()) && types.Identical(i2.X.Type(), ia.X.Type())
					})
				}
			}
		}
	}
	return false
}

// loopProg gives invariantIn access to the call graph (set by the checks that classify loops).
var loopProg *core.Program

// storedUnder: the loop body, or a repository function reachable from a call in it, contains a store matching the
// predicate.
func storedUnder(prog *core.Program, l *core.Loop, match func(*ssa.Store) bool) bool {
	stores := func(fn *ssa.Function, only map[*ssa.BasicBlock]bool) bool {
		for _, b := range fn.Blocks {
			if only != nil && !only[b] {
				continue
			}
			for _, ins := range b.Instrs {
				if st, ok := ins.(*ssa.Store); ok && match(st) {
					return true
				}
			}
		}
		return false
	}
	var fn *ssa.Function
	for b := range l.Blocks {
		fn = b.Parent()
		break
	}
	if fn == nil || stores(fn, l.Blocks) {
		return true
	}
	seen := map[*ssa.Function]bool{}
	for _, cs := range prog.CG().Sites[fn] {
		if !l.Blocks[cs.Instr.Block()] {
			continue
		}
		for _, t := range cs.Targets {
			if !prog.IsRepoFunc(t) {
				continue
			}
			for _, r := range prog.CG().ReachableRepo(t) {
				if seen[r] {
					continue
				}
				seen[r] = true
				if stores(r, nil) {
					return true
				}
			}
		}
	}
	return false
}

// writtenInLoop: inside the loop the local variable (or a part of it) is stored to, or its address leaves
// the function's hands (call argument, stored, captured).
func writtenInLoop(l *core.Loop, a *ssa.Alloc) bool {
	seen := map[ssa.Value]bool{}
	var visit func(addr ssa.Value) bool
	visit = func(addr ssa.Value) bool {
		if seen[addr] {
			return false
		}
		seen[addr] = true
		for _, ref := range *addr.Referrers() {
			switch x := ref.(type) {
			case *ssa.FieldAddr:
				if visit(x) {
					return true
				}
			case *ssa.IndexAddr:
				if x.X == addr && visit(x) {
					return true
				}
			case *ssa.UnOp:
				// load
			case *ssa.Store:
				if x.Addr == addr {
					if l.Blocks[x.Block()] {
						return true
					}
				} else {
					return true // address stored somewhere
				}
			case *ssa.DebugRef:
			default:
				// any other use of the address (call argument, closure binding, conversion ...)
				if ins, ok := ref.(ssa.Instruction); ok {
					if l.Blocks[ins.Block()] {
						return true
					}
					if _, isCall := ref.(ssa.CallInstruction); !isCall {
						return true
					}
				}
			}
		}
		return false
	}
	return visit(a)
}

// sizeOfExisting: v is a constant or the length/capacity of a value that already exists (possibly plus/minus constants).
func sizeOfExisting(v ssa.Value, d int) bool {
	if d > 6 {
		return false
	}
	switch x := v.(type) {
	case *ssa.Const:
		return true
	case *ssa.Call:
		if b, ok := x.Common().Value.(*ssa.Builtin); ok && (b.Name() == "len" || b.Name() == "cap") {
			return true
		}
	case *ssa.BinOp:
		if x.Op == token.ADD || x.Op == token.SUB {
			return sizeOfExisting(x.X, d+1) && sizeOfExisting(x.Y, d+1)
		}
	case *ssa.Convert:
		return sizeOfExisting(x.X, d+1)
	}
	return false
}

// classifyLoop: "L1" loops run over data that already exists (range loops, counters bounded by a length or a
// constant); everything else is "L2" and must consume input in every iteration.
func classifyLoop(l *core.Loop) (kind, why string) {
	h := l.Header
	for _, ins := range h.Instrs {
		if n, ok := ins.(*ssa.Next); ok {
			if n.IsString {
				return "L1", "range over a string"
			}
			return "L1", "range over a map"
		}
	}
	ifi, ok := h.Instrs[len(h.Instrs)-1].(*ssa.If)
	if !ok {
		return "L2", "no exit test in the loop header"
	}
	cond, ok := ifi.Cond.(*ssa.BinOp)
	if !ok {
		return "L2", "loop condition is not a comparison"
	}
	// which side stays in the loop
	stayTrue := l.Blocks[h.Succs[0]] && !l.Blocks[h.Succs[1]]
	stayFalse := l.Blocks[h.Succs[1]] && !l.Blocks[h.Succs[0]]
	if !stayTrue && !stayFalse {
		return "L2", "loop condition does not decide leaving the loop"
	}
	op := cond.Op
	if stayFalse {
		op = map[token.Token]token.Token{token.LSS: token.GEQ, token.GEQ: token.LSS, token.GTR: token.LEQ, token.LEQ: token.GTR, token.EQL: token.NEQ, token.NEQ: token.EQL}[op]
	}
	// counter: a header phi stepped by a positive constant on every back edge
	stepOf := func(v ssa.Value) (phi *ssa.Phi, step int64, ok bool) {
		base := v
		var add int64
		if b, isB := v.(*ssa.BinOp); isB && (b.Op == token.ADD || b.Op == token.SUB) {
			if c, isC := ssaConstInt(b.Y); isC {
				base = b.X
				add = c
				if b.Op == token.SUB {
					add = -c
				}
			}
		}
		p, isPhi := base.(*ssa.Phi)
		if !isPhi || p.Block() != h {
			return nil, 0, false
		}
		_ = add
		var st int64
		for i, e := range p.Edges {
			if !l.Blocks[h.Preds[i]] {
				continue
			}
			b, isB := e.(*ssa.BinOp)
			if !isB || (b.Op != token.ADD && b.Op != token.SUB) || b.X != ssa.Value(p) {
				return nil, 0, false
			}
			c, isC := ssaConstInt(b.Y)
			if !isC || c == 0 {
				return nil, 0, false
			}
			if b.Op == token.SUB {
				c = -c
			}
			if st != 0 && (st > 0) != (c > 0) {
				return nil, 0, false
			}
			st = c
		}
		return p, st, st != 0
	}
	switch op {
	case token.LSS, token.LEQ:
		if _, step, ok := stepOf(cond.X); ok && step > 0 && invariantIn(l, cond.Y, 0) {
			if sizeOfExisting(cond.Y, 0) {
				return "L1", "ascending counter bounded by a constant or the length of existing data"
			}
			return "L2", "counter bounded by a value that is not the size of existing data"
		}
	case token.GTR, token.GEQ:
		if p, step, ok := stepOf(cond.X); ok && step < 0 && invariantIn(l, cond.Y, 0) {
			init := true
			for i, e := range p.Edges {
				if !l.Blocks[h.Preds[i]] && !sizeOfExisting(e, 0) {
					init = false
				}
			}
			if init {
				return "L1", "descending counter starting at a constant or the length of existing data"
			}
			return "L2", "descending counter starting at a value that is not the size of existing data"
		}
	}
	return "L2", "loop condition is not a counter over existing data"
}

// ---------------------------------------------------------------------------------------------

func loopKey(prog *core.Program, fn *ssa.Function, loops []*core.Loop, l *core.Loop) string {
	// ordinal of the loop in source order within its function
	type lp struct {
		l   *core.Loop
		pos token.Pos
	}
	var ls []lp
	for _, x := range loops {
		ls = append(ls, lp{x, loopPos(x)})
	}
	sort.Slice(ls, func(i, j int) bool { return ls[i].pos < ls[j].pos })
	for i, x := range ls {
		if x.l == l {
			return fmt.Sprintf("%s:loop%d", core.FuncName(fn), i+1)
		}
	}
	return core.FuncName(fn) + ":loop?"
}

func loopPos(l *core.Loop) token.Pos {
	best := token.NoPos
	for b := range l.Blocks {
		for _, ins := range b.Instrs {
			if p := ins.Pos(); p != token.NoPos && (best == token.NoPos || p < best) {
				best = p
			}
		}
	}
	return best
}

func describeTrace(prog *core.Program, tr []*ssa.BasicBlock) string {
	var parts []string
	last := ""
	for _, b := range tr {
		for _, ins := range b.Instrs {
			if p := ins.Pos(); p != token.NoPos {
				s := prog.Pos(p)
				if i := strings.LastIndex(s, ":"); i >= 0 {
					s = s[i+1:]
				}
				if s != last {
					parts = append(parts, s)
					last = s
				}
				break
			}
		}
	}
	if len(parts) > 14 {
		parts = append(parts[:7], append([]string{"…"}, parts[len(parts)-6:]...)...)
	}
	return "lines " + strings.Join(parts, "→")
}

func checkC02(rep *core.Report) {
	rep.Explanation = "Decides the structure behind the bound, not run time itself. (1) Every loop in the call tree of the four decoders is either a loop over data that already exists (range, or a counter bounded by a length/constant) or, on every repeatable cycle of its control-flow graph, consumes at least one octet of the datagram: consumption is credited only on edges that prove a consuming call succeeded (or ended in the error class the loop continues on), using per-function, per-error-class minimum-consumption summaries, or on the edge of an explicit progress test (consumed count now ≠ consumed count at the start of the iteration). Octets are finite, so decoding terminates and each record/sample append, which sits in such a loop, happens at most once per consumed octet. (2) Every make under the decoders has a size bounded by a constant, a configuration option, or the length of a buffer that already exists (abstract interpretation, same engine and roots as C01). (3) No seek on the datagram goes backwards. (4) The JSON encoders contain only loops over the decoded message."
	rep.Assume("the byte reader's consumed count never decreases (C19 R19.5 shows the single writer adds a non-negative amount)")
	rep.Assume("A-int, A-config as in C01")
	rep.Trust("encoding/binary.Read with a nil error consumed exactly the fixed size of the object read; standard-library calls terminate")
	prog := rep.Prog
	r1 := rep.Rule("R02.1", "every loop under the decoders runs over existing data or consumes input on every repeatable cycle", 26)
	r2 := rep.Rule("R02.2", "every allocation under the decoders is bounded by a constant, an option, or the size of an existing buffer", 3)
	r3 := rep.Rule("R02.3", "no seek on the datagram goes backwards", 4)
	r4 := rep.Rule("R02.4", "the JSON encoders loop only over the decoded message", 3)
	loopProg = prog
	pa := newProgAn(prog)
	if pa.advance == nil || pa.readCount == nil {
		r1.Undecided("anchors:reader", token.NoPos, "the reader's position writer / ReadCount were not identified")
		return
	}
	// ---- scope ----
	var decodeEntries, encodeEntries []*ssa.Function
	for _, fn := range prog.RepoFuncs() {
		if isDecodeEntry(fn) {
			decodeEntries = append(decodeEntries, fn)
		}
		if fn.Name() == "JSONMarshal" && fn.Signature.Recv() != nil {
			encodeEntries = append(encodeEntries, fn)
		}
	}
	if len(decodeEntries) < 4 || len(encodeEntries) < 3 {
		r1.Undecided("anchors:entries", token.NoPos, fmt.Sprintf("%d decode and %d encode entry points found", len(decodeEntries), len(encodeEntries)))
		return
	}
	inScope := map[*ssa.Function]bool{}
	var scope []*ssa.Function
	for _, e := range decodeEntries {
		for _, fn := range prog.CG().ReachableRepo(e) {
			if !inScope[fn] {
				inScope[fn] = true
				scope = append(scope, fn)
			}
		}
	}
	sort.Slice(scope, func(i, j int) bool { return core.FuncName(scope[i]) < core.FuncName(scope[j]) })
	nL1, nL2 := 0, 0
	var l2desc []string
	for _, fn := range scope {
		loops := core.NaturalLoops(fn)
		if len(loops) == 0 {
			continue
		}
		pa.markHeaders(fn)
		for _, l := range loops {
			key := loopKey(prog, fn, loops, l)
			kind, why := classifyLoop(l)
			if kind == "L1" {
				nL1++
				r1.OK(key, loopPos(l), "loop over existing data: "+why)
				continue
			}
			nL2++
			// enumerate the cycles header -> header inside the loop
			minW, cycles := -1, 0
			var bad []string
			pa.steps = 0
			start := newPState()
			pa.paths(fn, l.Header, start, func(b *ssa.BasicBlock) bool { return l.Blocks[b] }, func(from, to *ssa.BasicBlock) bool { return to == l.Header }, func(e pathEnd) {
				if e.to != l.Header {
					return // left through a return: not a cycle
				}
				// header phis take the values of this back edge; can the loop be entered again?
				st := e.st.clone()
				pi := -1
				for i, p := range l.Header.Preds {
					if p == e.from {
						pi = i
					}
				}
				for _, ins := range l.Header.Instrs {
					phi, ok := ins.(*ssa.Phi)
					if !ok {
						break
					}
					if pi >= 0 {
						st.alias[phi] = st.resolve(phi.Edges[pi])
					}
				}
				repeatable := false
				for si, s := range l.Header.Succs {
					if l.Blocks[s] && pa.applyEdge(fn, l.Header, si, st) != nil {
						repeatable = true
					}
				}
				if _, isIf := l.Header.Instrs[len(l.Header.Instrs)-1].(*ssa.If); !isIf {
					repeatable = true
				}
				if !repeatable {
					return
				}
				cycles++
				if minW < 0 || e.st.w < minW {
					minW = e.st.w
				}
				if e.st.w == 0 && len(bad) < 3 {
					bad = append(bad, describeTrace(prog, e.st.trace))
				}
			})
			switch {
			case pa.overflow:
				r1.Undecided(key, loopPos(l), "path enumeration exceeded its budget")
				pa.overflow = false
			case cycles == 0:
				r1.OK(key, loopPos(l), "no repeatable cycle: the body runs at most once ("+why+")")
			case len(bad) > 0:
				r1.Fail(key, loopPos(l), fmt.Sprintf("a cycle of this loop can repeat without consuming any octet of the datagram (%s; %s): one datagram can keep the worker busy or appending without bound", why, strings.Join(bad, "; ")))
			default:
				r1.OK(key, loopPos(l), fmt.Sprintf("%d repeatable cycle(s), each consumes at least %d octet(s)", cycles, minW))
			}
			l2desc = append(l2desc, fmt.Sprintf("%s cycles=%d min=%d", key, cycles, minW))
		}
	}
	rep.Extra["loops_over_existing_data"] = nL1
	rep.Extra["consuming_loops"] = l2desc
	var sums []string
	for k, w := range pa.summ {
		if w > 0 {
			sums = append(sums, fmt.Sprintf("%s %s >= %d", core.FuncName(k.fn), clsString(k.mask), w))
		}
	}
	sort.Strings(sums)
	rep.Extra["consumption_summaries"] = sums
	if nL2 < 10 {
		r1.Undecided("scope:consuming-loops", token.NoPos, fmt.Sprintf("only %d consuming loops found under the decoders (14 confirmed by hand)", nL2))
	}
	// ---- R02.3: seeks ----
	for _, fn := range scope {
		n := 0
		allInstrs(fn, func(ins ssa.Instruction) {
			c, ok := ins.(ssa.CallInstruction)
			if !ok {
				return
			}
			com := c.Common()
			isSeek := (com.IsInvoke() && com.Method.Name() == "Seek") || (com.StaticCallee() != nil && com.StaticCallee().Name() == "Seek")
			if !isSeek {
				return
			}
			args := com.Args
			if !com.IsInvoke() {
				args = args[1:]
			}
			if len(args) != 2 {
				return
			}
			n++
			key := fmt.Sprintf("%s:seek%d", core.FuncName(fn), n)
			wh, isC := ssaConstInt(args[1])
			nonneg := false
			switch x := args[0].(type) {
			case *ssa.Const:
				k, _ := ssaConstInt(x)
				nonneg = k >= 0
			case *ssa.Convert:
				if b, ok := x.X.Type().Underlying().(*types.Basic); ok && b.Info()&types.IsUnsigned != 0 {
					if tb, ok := x.Type().Underlying().(*types.Basic); ok && (tb.Kind() == types.Int64 || tb.Kind() == types.Int) {
						nonneg = fixedSize(x.X.Type(), 0) < 8
					}
				}
			}
			r3.Check(isC && wh == 1 && nonneg, key, c.Pos(), "relative seek by a non-negative amount", "the datagram position can move backwards (or to an absolute offset): consumed octets no longer bound the work")
		})
	}
	// ---- R02.4: encoders ----
	for _, e := range encodeEntries {
		bad := ""
		nl := 0
		for _, fn := range prog.CG().ReachableRepo(e) {
			for _, l := range core.NaturalLoops(fn) {
				nl++
				if kind, why := classifyLoop(l); kind != "L1" {
					bad = fmt.Sprintf("%s has a loop that is not over the decoded message (%s) at %s", core.FuncName(fn), why, prog.Pos(loopPos(l)))
				}
			}
		}
		r4.Check(bad == "", core.FuncName(e)+":loops", e.Pos(), fmt.Sprintf("%d loops, all over the decoded message", nl), bad)
	}
	// ---- R02.2: allocations (OBL, kind K12) ----
	if os.Getenv("VERIF_C02_NO_OBL") == "" {
		an, roots := runDecodeOBL(prog)
		if len(roots) < 4 {
			r2.Undecided("anchors", token.NoPos, fmt.Sprintf("%d worker loops found, want 4", len(roots)))
		}
		reportObligations(rep, r2, an, func(o *obl.Obligation) bool { return o.Kind == "K12" }, nil)
		if os.Getenv("VERIF_DEBUG") != "" {
			for _, o := range an.Obligations() {
				if o.Kind == "K12" {
					fmt.Printf("OBL %s %s failed=%d/%d %s\n", o.Kind, o.Key(core.FuncName), o.Failed, o.Contexts, o.Why)
				}
			}
		}
	}
}
