package rules

import (
	"fmt"
	"go/token"
	"go/types"
	"reflect"
	"strings"

	"golang.org/x/tools/go/ssa"

	"verif/internal/core"
)

func init() { register("C17", checkC17) }

var flagVarFuncs = map[string]string{ // static callee -> kind of the registered value
	"flag.BoolVar": "bool", "flag.IntVar": "int", "flag.StringVar": "string", "flag.UintVar": "uint",
	"flag.Int64Var": "int64", "flag.Uint64Var": "uint64", "flag.Float64Var": "float64", "flag.DurationVar": "duration",
	"flag.Var": "value", "flag.TextVar": "text", "flag.Func": "func", "flag.BoolFunc": "func",
}

// flagNonVar are flag constructors that allocate their own storage: using them for an option
// would bypass the options struct entirely.
var flagNonVar = map[string]bool{"flag.Bool": true, "flag.Int": true, "flag.String": true, "flag.Uint": true, "flag.Int64": true, "flag.Uint64": true, "flag.Float64": true, "flag.Duration": true}

type regSite struct {
	call  ssa.CallInstruction
	kind  string
	field *types.Var // Options field targeted (nil: not an options field)
	base  ssa.Value
	name  string // flag name
}

func checkC17(rep *core.Report) {
	rep.Explanation = "Decides the three mechanisms that create the precedence command line > file > environment > default, for every key at once: (1) on every CFG path of option loading the events defaults, environment loader, YAML load, every flag registration and flag.Parse occur in that order (dominance); (2) each registration's default argument is a load of the very field its pointer argument addresses, so parsing without the flag leaves the file/env value; (3) every yaml-tagged bool/int/string option has exactly one registration; (4) the environment loader derives VFLOW_<yaml tag> per field and sets String/Int/Bool fields at the same index. The semantics of flag.Parse and yaml.Unmarshal ('only keys present are set') are trusted."
	rep.Trust("flag.Parse sets only flags present on the command line; yaml.Unmarshal sets only keys present in the document; reflect setters")
	prog := rep.Prog
	r1 := rep.Rule("R17.1", "event order on all paths: defaults < ENV < FILE < every registration < flag.Parse", 40)
	r2 := rep.Rule("R17.2", "each registration's default is the current value of the field it targets", 40)
	r3 := rep.Rule("R17.3", "every yaml-tagged scalar option has exactly one flag registration", 40)
	r4 := rep.Rule("R17.4", "environment loader: VFLOW_<yaml tag> per field, String/Int/Bool setters on the same field index", 5)

	optsT := prog.NamedType("vflow", "Options")
	getOpts := prog.Func("vflow", "GetOptions")
	if optsT == nil || getOpts == nil {
		r1.Undecided("anchor:GetOptions", token.NoPos, "type Options or func GetOptions not found in package main")
		return
	}
	cg := prog.CG()
	reach := cg.ReachableRepo(getOpts)
	// ---- classify functions ----
	directCalls := func(fn *ssa.Function, names ...string) []ssa.CallInstruction {
		var out []ssa.CallInstruction
		for _, n := range names {
			out = append(out, callsIn(fn, n)...)
		}
		return out
	}
	var envFns, fileFns []*ssa.Function
	var parseSites []ssa.CallInstruction
	var regs []*regSite
	for _, fn := range reach {
		if len(directCalls(fn, "os.Getenv", "os.LookupEnv")) > 0 {
			envFns = append(envFns, fn)
		}
		for _, c := range directCalls(fn, "gopkg.in/yaml.v2.Unmarshal", "gopkg.in/yaml.v2.UnmarshalStrict") {
			if len(c.Common().Args) == 2 && typeIs(underIface(c.Common().Args[1]).Type(), core.ModPath+"/vflow", "Options") {
				fileFns = append(fileFns, fn)
			}
		}
		parseSites = append(parseSites, directCalls(fn, "flag.Parse")...)
		allInstrs(fn, func(ins ssa.Instruction) {
			ci, ok := ins.(ssa.CallInstruction)
			if !ok {
				return
			}
			f := ci.Common().StaticCallee()
			if f == nil {
				return
			}
			if flagNonVar[f.String()] {
				r3.Fail("reg:"+core.FuncName(fn)+":"+f.String(), ins.Pos(), "flag registered with its own storage: its value never reaches the options struct")
				return
			}
			kind, ok := flagVarFuncs[f.String()]
			if !ok {
				return
			}
			rs := &regSite{call: ci, kind: kind}
			args := ci.Common().Args
			target := underIface(args[0])
			if o, fld, ok := core.FieldOf(target); ok && typeIs(o, core.ModPath+"/vflow", "Options") {
				rs.field = fld
				rs.base = target.(*ssa.FieldAddr).X
			}
			if c, ok := args[1].(*ssa.Const); ok && c.Value != nil {
				rs.name = strings.Trim(c.Value.ExactString(), `"`)
			}
			regs = append(regs, rs)
		})
	}
	if len(parseSites) != 1 {
		r1.Undecided("anchor:flag.Parse", token.NoPos, fmt.Sprintf("%d flag.Parse call sites reachable from GetOptions, want exactly 1", len(parseSites)))
		return
	}
	parse := parseSites[0]
	F := parse.Parent()
	if len(envFns) == 0 {
		r1.Fail("anchor:env-loader", F.Pos(), "no function reachable from GetOptions reads the environment: VFLOW_* variables are not applied")
	}
	if len(fileFns) == 0 {
		r1.Fail("anchor:file-loader", F.Pos(), "no function reachable from GetOptions unmarshals YAML into Options")
	}
	// events in F: call sites whose targets reach an env / file function
	reaches := func(cs *core.CallSite, set []*ssa.Function) bool {
		for _, t := range cs.Targets {
			r := cg.Reachable(t)
			for _, f := range set {
				if r[f] {
					return true
				}
			}
		}
		return false
	}
	var envEv, fileEv []ssa.Instruction
	for _, cs := range cg.Sites[F] {
		if reaches(cs, envFns) {
			envEv = append(envEv, cs.Instr)
		}
		if reaches(cs, fileFns) {
			fileEv = append(fileEv, cs.Instr)
		}
	}
	for _, fn := range envFns {
		if fn == F {
			envEv = append(envEv, directCalls(F, "os.Getenv", "os.LookupEnv")[0])
		}
	}
	for _, fn := range fileFns {
		if fn == F {
			envEv = append(fileEv, directCalls(F, "gopkg.in/yaml.v2.Unmarshal")[0])
		}
	}
	fname := core.FuncName(F)
	// the configuration file is located by looking at every command-line argument: a loop over os.Args comparing each
	// with the constant "-config"; a second flag parser over os.Args stops at the first flag it does not know
	{
		scan, second := false, ""
		for _, fn := range reach {
			for _, l := range core.NaturalLoops(fn) {
				overArgs, cmp := false, false
				for b := range l.Blocks {
					for _, ins := range b.Instrs {
						switch x := ins.(type) {
						case *ssa.UnOp:
							if g, ok := x.X.(*ssa.Global); ok && g.Pkg != nil && g.Pkg.Pkg.Path() == "os" && g.Name() == "Args" {
								overArgs = true
							}
						case *ssa.BinOp:
							if x.Op == token.EQL || x.Op == token.NEQ {
								for _, o := range []ssa.Value{x.X, x.Y} {
									if c, ok := o.(*ssa.Const); ok && c.Value != nil && c.Value.ExactString() == `"-config"` {
										cmp = true
									}
								}
							}
						}
					}
				}
				// the slice ranged over may be loaded before the loop
				if !overArgs {
					allInstrs(fn, func(ins ssa.Instruction) {
						if x, ok := ins.(*ssa.UnOp); ok {
							if g, ok := x.X.(*ssa.Global); ok && g.Pkg != nil && g.Pkg.Pkg.Path() == "os" && g.Name() == "Args" {
								overArgs = true
							}
						}
					})
				}
				if overArgs && cmp {
					scan = true
				}
			}
			allInstrs(fn, func(ins ssa.Instruction) {
				if c, ok := ins.(ssa.CallInstruction); ok && calleeName(c) == "(*flag.FlagSet).Parse" {
					second = core.FuncName(fn) + " at " + prog.Pos(ins.Pos())
				}
			})
		}
		r1.Check(scan && second == "", fname+":config-located-among-all-arguments", F.Pos(), "every argument is compared with -config; no second flag parser",
			fmt.Sprintf("the -config argument is not found by scanning every command-line argument (scan loop present=%v, second parser: %q): a flag parser over os.Args stops at the first flag it does not know, so -config after another flag is ignored and the file the operator named is never read", scan, second))
	}
	// no other source: between the defaults and flag.Parse nothing but the environment loader, the file loader and
	// the flag package writes the options (a step that "fills in" or "normalises" values after the file was read
	// overrides what the file or the environment said)
	{
		isEv := map[ssa.Instruction]bool{}
		for _, e := range envEv {
			isEv[e] = true
		}
		for _, e := range fileEv {
			isEv[e] = true
		}
		writes := func(fn *ssa.Function) string {
			w := ""
			allInstrs(fn, func(ins ssa.Instruction) {
				switch x := ins.(type) {
				case *ssa.Store:
					if o, f, ok := core.FieldOf(x.Addr); ok && typeIs(o, core.ModPath+"/vflow", "Options") {
						if _, fresh := core.AddrRoot(x.Addr).(*ssa.Alloc); !fresh {
							w = "store to Options." + f.Name() + " at " + prog.Pos(x.Pos())
						}
					}
				case ssa.CallInstruction:
					if n := calleeName(x); strings.HasPrefix(n, "(reflect.Value).Set") {
						w = n + " at " + prog.Pos(x.Pos())
					}
				}
			})
			return w
		}
		other := ""
		if w := writes(F); w != "" {
			other = w
		}
		// inside the two loaders themselves: the options object is never replaced as a whole (that would also discard
		// what an earlier source set), a field is stored directly only from the command line (the -config scan), and
		// only the environment loader sets fields through reflection
		isEnvEv := map[ssa.Instruction]bool{}
		for _, e := range envEv {
			isEnvEv[e] = true
		}
		fromArgs := func(v ssa.Value) bool {
			for x := range core.BackwardSlice(v, core.SliceOpts{}) {
				if g, ok := x.(*ssa.Global); ok && g.Pkg != nil && g.Pkg.Pkg.Path() == "os" && g.Name() == "Args" {
					return true
				}
			}
			return false
		}
		loaderWrites := func(fn *ssa.Function, env bool) string {
			w := ""
			allInstrs(fn, func(ins ssa.Instruction) {
				switch x := ins.(type) {
				case *ssa.Store:
					if _, fresh := core.AddrRoot(x.Addr).(*ssa.Alloc); fresh {
						return
					}
					if typeIs(core.Deref(x.Addr.Type()), core.ModPath+"/vflow", "Options") {
						w = "the whole options object is overwritten at " + prog.Pos(x.Pos())
						return
					}
					if o, f, ok := core.FieldOf(x.Addr); ok && typeIs(o, core.ModPath+"/vflow", "Options") && !fromArgs(x.Val) {
						w = "store to Options." + f.Name() + " at " + prog.Pos(x.Pos())
					}
				case ssa.CallInstruction:
					if n := calleeName(x); strings.HasPrefix(n, "(reflect.Value).Set") && !env {
						w = n + " at " + prog.Pos(x.Pos())
					}
				}
			})
			return w
		}
		for _, cs := range cg.Sites[F] {
			if isEv[cs.Instr] {
				for _, t := range cs.Targets {
					if !prog.IsRepoFunc(t) {
						continue
					}
					for _, r := range cg.ReachableRepo(t) {
						if w := loaderWrites(r, isEnvEv[cs.Instr]); w != "" {
							other = core.FuncName(r) + ": " + w
						}
					}
				}
				continue
			}
			for _, t := range cs.Targets {
				if !prog.IsRepoFunc(t) {
					continue
				}
				for _, r := range cg.ReachableRepo(t) {
					if w := writes(r); w != "" {
						other = core.FuncName(r) + ": " + w
					}
				}
			}
		}
		r1.Check(other == "", fname+":no-other-source", F.Pos(), "only the environment loader, the file loader and the flag package write the options before flag.Parse",
			"something besides the environment loader, the file loader and the flags writes the options on the way to flag.Parse ("+other+"): a value given by the environment or the file can be replaced by one that comes from neither")
	}
	if len(envEv) == 0 || len(fileEv) == 0 {
		r1.Undecided(fname+":events", F.Pos(), fmt.Sprintf("%d environment and %d file events in the function that parses flags; want at least one of each there", len(envEv), len(fileEv)))
		return
	}
	afterParse := core.Walk{}.ReachInstrs(parse)
	for _, file := range fileEv {
		for _, env := range envEv {
			r1.Check(core.InstrDominates(env, file), fname+":ENV<FILE", file.Pos(), "environment loader dominates the YAML load", "the YAML file is not applied after the environment on every path: a VFLOW_* variable could override the file (or the order is path-dependent)")
		}
		r1.Check(core.InstrDominates(file, parse) && !afterParse[file], fname+":FILE<PARSE", file.Pos(), "YAML load dominates flag.Parse and cannot run after it", "a configuration file is (or can be) applied after flag.Parse: the file would override the command line")
	}
	for _, env := range envEv {
		r1.Check(core.InstrDominates(env, parse) && !afterParse[env], fname+":ENV<PARSE", env.Pos(), "environment loader dominates flag.Parse and cannot run after it", "the environment is (or can be) applied after flag.Parse: a VFLOW_* variable would override the command line")
	}
	// no store into an Options field after Parse within the loader (other than through flag itself)
	env, file := envEv[0], fileEv[0]
	for _, e := range envEv {
		if core.InstrDominates(env, e) && core.InstrDominates(e, parse) {
			env = e // the last environment event before Parse
		}
	}
	for _, f := range fileEv {
		if core.InstrDominates(file, f) && core.InstrDominates(f, parse) {
			file = f // the last file event before Parse
		}
	}
	// defaults before F: the receiver passed to F derives directly from a constructor call
	for _, cs := range cg.In[F] {
		args := cs.Instr.Common().Args
		okDef := false
		detail := ""
		if len(args) > 0 {
			if call, ok := args[0].(*ssa.Call); ok {
				if ctor := call.Common().StaticCallee(); ctor != nil && prog.IsRepoFunc(ctor) && returnsFreshStruct(ctor) {
					okDef = true
					detail = "receiver is the result of " + core.FuncName(ctor)
				}
			}
		}
		r1.Check(okDef, core.FuncName(cs.Caller)+":DEFAULTS<"+fname, cs.Instr.Pos(), detail, "options passed to the loader are not the fresh result of the defaults constructor")
	}
	// ---- registrations ----
	perField := map[string][]*regSite{}
	for _, rs := range regs {
		key := "flag:-" + rs.name
		if rs.field == nil {
			r1.Note(key, rs.call.Pos(), "registration does not target an Options field (not an option key)")
			continue
		}
		perField[rs.field.Name()] = append(perField[rs.field.Name()], rs)
		if rs.call.Parent() != F {
			r1.Undecided(key+":REG", rs.call.Pos(), "registration outside the function that calls flag.Parse; order not decidable by dominance")
			continue
		}
		r1.Check(core.InstrDominates(file, rs.call) && core.InstrDominates(env, rs.call) && core.InstrDominates(rs.call, parse), key+":FILE<REG<PARSE", rs.call.Pos(),
			"", "registration is not between the file load and flag.Parse on every path: its default captures a value before the file/env are applied, or the flag is unknown to Parse")
		// R17.2
		args := rs.call.Common().Args
		switch rs.kind {
		case "value", "text", "func":
			r2.OK(key+":default", rs.call.Pos(), "flag.Var-style target carries its current value")
		default:
			if len(args) < 3 {
				r2.Undecided(key+":default", rs.call.Pos(), "unexpected arity")
				break
			}
			def := args[2]
			ld, isLoad := def.(*ssa.UnOp)
			good := false
			why := "default argument is not a load of the targeted field"
			if isLoad && ld.Op == token.MUL {
				if fa, ok := ld.X.(*ssa.FieldAddr); ok && fa.X == rs.base {
					_, f2, _ := core.FieldOf(fa)
					if f2 == rs.field {
						good = core.InstrDominates(file, ld) && core.InstrDominates(env, ld)
						if !good {
							why = "default is read from the targeted field before the file/env were applied"
						}
					} else {
						why = fmt.Sprintf("default is read from field %s but the flag targets %s", f2.Name(), rs.field.Name())
					}
				}
			} else if _, isConst := def.(*ssa.Const); isConst {
				why = "default is a constant: flag registration overwrites the file/env value with it"
			}
			r2.Check(good, key+":default", rs.call.Pos(), "default = current value of "+rs.field.Name(), why)
		}
	}
	// ---- R17.3 table: yaml-tagged scalar fields ----
	st := optsT.Underlying().(*types.Struct)
	for i := 0; i < st.NumFields(); i++ {
		f := st.Field(i)
		tag := reflect.StructTag(st.Tag(i)).Get("yaml")
		if tag == "" || tag == "-" {
			r3.Note("field:"+f.Name(), f.Pos(), "no yaml key: not a documented setting")
			continue
		}
		n := len(perField[f.Name()])
		r3.Check(n == 1, "field:"+f.Name(), f.Pos(), "one registration: -"+firstName(perField[f.Name()]), fmt.Sprintf("option %q (yaml key %s) has %d flag registrations, want exactly 1", f.Name(), tag, n))
		if n == 1 {
			rs := perField[f.Name()][0]
			wantKind := map[types.BasicKind]string{types.Bool: "bool", types.Int: "int", types.String: "string"}
			if b, ok := f.Type().Underlying().(*types.Basic); ok {
				r3.Check(wantKind[b.Kind()] == rs.kind, "field:"+f.Name()+":kind", rs.call.Pos(), rs.kind, fmt.Sprintf("field kind %s registered through flag.%sVar", b.Name(), rs.kind))
			}
		}
	}
	// ---- R17.4 env loader shape ----
	for _, fn := range envFns {
		checkEnvLoader(rep, r4, fn)
	}
}

func firstName(rs []*regSite) string {
	if len(rs) == 0 {
		return ""
	}
	return rs[0].name
}

// underIface strips MakeInterface / ChangeInterface.
func underIface(v ssa.Value) ssa.Value {
	for {
		switch x := v.(type) {
		case *ssa.MakeInterface:
			v = x.X
		case *ssa.ChangeInterface:
			v = x.X
		default:
			return v
		}
	}
}

// returnsFreshStruct: every return of fn returns a freshly allocated object (new/&T{}).
func returnsFreshStruct(fn *ssa.Function) bool {
	n := 0
	ok := true
	allInstrs(fn, func(ins ssa.Instruction) {
		if r, isRet := ins.(*ssa.Return); isRet {
			n++
			if len(r.Results) != 1 {
				ok = false
				return
			}
			if _, isAlloc := r.Results[0].(*ssa.Alloc); !isAlloc {
				ok = false
			}
		}
	})
	return ok && n > 0
}

func checkEnvLoader(rep *core.Report, r4 *core.RuleRun, fn *ssa.Function) {
	name := core.FuncName(fn)
	var getenv ssa.CallInstruction
	for _, n := range []string{"os.Getenv", "os.LookupEnv"} {
		if cs := callsIn(fn, n); len(cs) > 0 {
			getenv = cs[0]
		}
	}
	keyArg := getenv.Common().Args[0]
	sl := core.BackwardSlice(keyArg, core.SliceOpts{})
	// the key derives from Field(i).Tag.Get("yaml") and a constant with the VFLOW_ prefix
	var tagIdx ssa.Value
	hasPrefix, hasYaml := false, false
	for v := range sl {
		switch x := v.(type) {
		case *ssa.Const:
			if x.Value != nil && strings.Contains(x.Value.ExactString(), "VFLOW_") {
				hasPrefix = true
			}
		case *ssa.Call:
			if f := x.Common().StaticCallee(); f != nil && f.String() == "(reflect.StructTag).Get" {
				if c, ok := x.Common().Args[1].(*ssa.Const); ok && c.Value != nil && c.Value.ExactString() == `"yaml"` {
					hasYaml = true
				}
			}
			if x.Common().IsInvoke() && x.Common().Method.Name() == "Field" && len(x.Common().Args) == 1 {
				tagIdx = x.Common().Args[0]
			}
		}
	}
	r4.Check(hasPrefix, name+":prefix", getenv.Pos(), "variable name contains the constant VFLOW_", "environment variable name is not built from the VFLOW_ prefix")
	r4.Check(hasYaml && tagIdx != nil, name+":tag", getenv.Pos(), "variable name derives from the field's own yaml tag", "environment variable name does not derive from the field's yaml tag")
	// VFLOW_<KEY> is the yaml key in upper case with every '-' replaced by '_' (most keys have two or more hyphens)
	{
		upper, allHyphens, why := false, false, "no replacement of '-' by '_' on the way from the tag to the variable name"
		for v := range sl {
			c, ok := v.(*ssa.Call)
			if !ok {
				continue
			}
			f := c.Common().StaticCallee()
			if f == nil || f.Pkg == nil || f.Pkg.Pkg.Path() != "strings" {
				continue
			}
			isStr := func(a ssa.Value, want string) bool {
				k, ok := a.(*ssa.Const)
				return ok && k.Value != nil && k.Value.ExactString() == want
			}
			args := c.Common().Args
			switch f.Name() {
			case "ToUpper":
				upper = true
			case "ReplaceAll":
				if len(args) == 3 && isStr(args[1], `"-"`) && isStr(args[2], `"_"`) {
					allHyphens = true
				}
			case "Replace":
				if len(args) == 4 && isStr(args[1], `"-"`) && isStr(args[2], `"_"`) {
					if n, ok := ssaConstInt(args[3]); ok && n < 0 {
						allHyphens = true
					} else {
						why = "strings.Replace with a non-negative count replaces only the first hyphen(s) of the key"
					}
				}
			case "Map":
				allHyphens = true // a per-rune mapping covers every occurrence
			}
		}
		r4.Check(upper, name+":upper-case", getenv.Pos(), "key upper-cased", "the variable name is not the upper-cased key")
		r4.Check(allHyphens, name+":every-hyphen", getenv.Pos(), "every '-' of the key becomes '_'", why+": settings whose key has more hyphens (stats-http-port, ipfix-tpl-cache-file, ...) are looked up under a name no one sets and silently keep their defaults")
	}
	// the tag text is the key only as long as the tag carries no option: `yaml:"key,omitempty"` still names the file key
	// "key" for the YAML loader, but a loader that upper-cases the whole tag looks for VFLOW_KEY,OMITEMPTY
	cuts := false
	for v := range sl {
		if c, ok := v.(*ssa.Call); ok {
			if f := c.Common().StaticCallee(); f != nil && f.Pkg != nil && f.Pkg.Pkg.Path() == "strings" {
				switch f.Name() {
				case "Split", "SplitN", "Cut", "Index", "IndexByte", "IndexRune":
					for _, a := range c.Common().Args {
						if k, ok := a.(*ssa.Const); ok && k.Value != nil && (k.Value.ExactString() == `","` || k.Value.ExactString() == "44") {
							cuts = true
						}
					}
				}
			}
		}
	}
	if ot := rep.Prog.NamedType("vflow", "Options"); ot != nil {
		if st, ok := ot.Underlying().(*types.Struct); ok {
			n := 0
			for i := 0; i < st.NumFields(); i++ {
				tag := reflect.StructTag(st.Tag(i)).Get("yaml")
				if tag == "" || tag == "-" {
					continue
				}
				n++
				if strings.Contains(tag, ",") && !cuts {
					r4.Fail(name+":key-of:"+st.Field(i).Name(), st.Field(i).Pos(), fmt.Sprintf("the yaml tag of %s is %q: the file loader reads the key before the comma, the environment loader builds the variable name from the whole tag text, so VFLOW_%s is never looked up and the setting cannot be given through the environment", st.Field(i).Name(), tag, strings.ToUpper(strings.ReplaceAll(strings.SplitN(tag, ",", 2)[0], "-", "_"))))
				}
			}
			r4.OK(name+":tags-are-bare-keys", getenv.Pos(), fmt.Sprintf("%d yaml tags examined (loader cuts options: %v)", n, cuts))
		}
	}
	// loop over all fields: tagIdx is a phi starting at 0, incremented by 1, bounded by NumField()
	loopOK := false
	if phi, ok := tagIdx.(*ssa.Phi); ok {
		startsAt0, inc1 := false, false
		for _, e := range phi.Edges {
			if c, ok := ssaConstInt(e); ok && c == 0 {
				startsAt0 = true
			}
			if b, ok := e.(*ssa.BinOp); ok && b.Op == token.ADD && b.X == ssa.Value(phi) {
				if c, ok := ssaConstInt(b.Y); ok && c == 1 {
					inc1 = true
				}
			}
		}
		bounded := false
		for _, r := range referrers(phi) {
			if b, ok := r.(*ssa.BinOp); ok && b.Op == token.LSS && b.X == ssa.Value(phi) {
				if c, ok := b.Y.(*ssa.Call); ok && c.Common().IsInvoke() && c.Common().Method.Name() == "NumField" {
					bounded = true
				}
			}
		}
		loopOK = startsAt0 && inc1 && bounded
	}
	r4.Check(loopOK, name+":all-fields", fn.Pos(), "index runs 0..NumField()-1 by 1", "loader does not iterate over every field of the options struct")
	// ... and no iteration ends the whole loop: a return inside the loop body is only allowed behind a call that does not
	// come back (log.Fatal, os.Exit, panic). A return after a merely logged parse error skips every later field.
	if lp := core.LoopOf(fn, getenv); lp != nil {
		exitSucc := map[*ssa.BasicBlock]bool{}
		for _, sc := range lp.Header.Succs {
			if !lp.Blocks[sc] {
				exitSucc[sc] = true
			}
		}
		bad := token.NoPos
		seen := map[*ssa.BasicBlock]bool{}
		var stack []*ssa.BasicBlock
		for b := range lp.Blocks {
			if b == lp.Header {
				continue
			}
			for _, sc := range b.Succs {
				if !lp.Blocks[sc] {
					stack = append(stack, sc)
				}
			}
		}
		for len(stack) > 0 {
			b := stack[len(stack)-1]
			stack = stack[:len(stack)-1]
			if seen[b] || lp.Blocks[b] {
				continue
			}
			seen[b] = true
			noReturn := false
			for _, ins := range b.Instrs {
				if c, ok := ins.(ssa.CallInstruction); ok {
					n := calleeName(c)
					if strings.HasPrefix(n, "log.Fatal") || strings.HasPrefix(n, "(*log.Logger).Fatal") || n == "os.Exit" || strings.HasPrefix(n, "log.Panic") || strings.HasPrefix(n, "(*log.Logger).Panic") {
						noReturn = true
					}
					if bi, isB := c.Common().Value.(*ssa.Builtin); isB && bi.Name() == "panic" {
						noReturn = true
					}
				}
				if _, isRet := ins.(*ssa.Return); isRet && !noReturn {
					bad = ins.Pos()
				}
			}
			if noReturn {
				continue
			}
			stack = append(stack, b.Succs...)
		}
		_ = exitSucc
		r4.Check(bad == token.NoPos, name+":no-early-return", fn.Pos(), "the field loop is left only at its end (or through a fatal exit)",
			"the loader can return from inside the field loop ("+rep.Prog.Pos(bad)+") without terminating the process: every option declared after the field being processed keeps its default although a valid VFLOW_ variable is set for it")
	}
	// setters
	want := map[string]int64{"SetString": int64(reflect.String), "SetInt": int64(reflect.Int), "SetBool": int64(reflect.Bool)}
	found := map[string]bool{}
	allInstrs(fn, func(ins ssa.Instruction) {
		c, ok := ins.(*ssa.Call)
		if !ok {
			return
		}
		f := c.Common().StaticCallee()
		if f == nil || !strings.HasPrefix(f.String(), "(reflect.Value).Set") {
			return
		}
		m := f.Name()
		kind, known := want[m]
		if !known {
			return
		}
		key := name + ":" + m
		// receiver = Field(elem, idx) with idx == tagIdx
		recv, _ := c.Common().Args[0].(*ssa.Call)
		sameIdx := recv != nil && recv.Common().StaticCallee() != nil && recv.Common().StaticCallee().String() == "(reflect.Value).Field" && recv.Common().Args[1] == tagIdx
		// guarded by Kind() == kind
		guard := false
		for b := c.Block(); b != nil; b = b.Idom() {
			id := b.Idom()
			if id == nil {
				break
			}
			for si, s := range id.Succs {
				if s != b {
					continue
				}
				if cond, truth, ok := core.IfEdge(id, si); ok && truth {
					if be, ok := cond.(*ssa.BinOp); ok && be.Op == token.EQL {
						if k, ok := ssaConstInt(be.Y); ok && k == kind {
							if kc, ok := be.X.(*ssa.Call); ok && kc.Common().StaticCallee() != nil && kc.Common().StaticCallee().String() == "(reflect.Value).Kind" {
								if kr, ok := kc.Common().Args[0].(*ssa.Call); ok && len(kr.Common().Args) == 2 && kr.Common().Args[1] == tagIdx {
									guard = true
								}
							}
						}
					}
				}
			}
		}
		// value derives from the environment value
		fromEnv := core.DependsOn(c.Common().Args[1], getenv.(ssa.Value), core.SliceOpts{})
		found[m] = true
		r4.Check(sameIdx && guard && fromEnv, key, c.Pos(), "setter on the same field index, under the matching Kind, fed from the variable's value",
			fmt.Sprintf("setter not applied to the field whose tag named the variable (sameIndex=%v kindGuard=%v fromEnv=%v)", sameIdx, guard, fromEnv))
	})
	for m := range want {
		if !found[m] {
			r4.Fail(name+":"+m, fn.Pos(), "environment loader has no "+m+" arm: settings of that kind cannot be set through VFLOW_*")
		}
	}
}
