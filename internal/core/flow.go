package core

import (
	"go/token"
	"go/types"

	"golang.org/x/tools/go/ssa"
)

// SliceOpts configures a backward def-use slice.
type SliceOpts struct {
	// Stop: do not expand through this value (it is still included).
	Stop func(ssa.Value) bool
	// IntoCalls: include arguments/receiver of calls (default true when nil Stop...). If false, a call is a leaf.
	NoCallArgs bool
	// ThroughRepoCalls: for static repo callees, also slice into the callee's returned values.
	ThroughRepoCalls bool
	Prog             *Program
}

// BackwardSlice returns every SSA value v may be computed from (transitive operands), following
// loads of local variables (Alloc) and of struct fields of local objects to the values stored
// into them anywhere in the same function (flow-insensitive, hence an over-approximation).
func BackwardSlice(v ssa.Value, o SliceOpts) map[ssa.Value]bool {
	out := map[ssa.Value]bool{}
	var visit func(x ssa.Value)
	visit = func(x ssa.Value) {
		if x == nil || out[x] {
			return
		}
		out[x] = true
		if o.Stop != nil && o.Stop(x) {
			return
		}
		switch i := x.(type) {
		case *ssa.UnOp:
			visit(i.X)
			if i.Op == token.MUL {
				for _, sv := range ReachingStores(i) {
					visit(sv)
				}
			}
		case *ssa.Alloc:
			// contents of a local object: everything stored into it (any field/element path)
			for _, b := range i.Parent().Blocks {
				for _, ins := range b.Instrs {
					if st, ok := ins.(*ssa.Store); ok && AddrRoot(st.Addr) == ssa.Value(i) {
						visit(st.Val)
					}
				}
			}
		case *ssa.Call:
			com := i.Common()
			if !o.NoCallArgs {
				if com.IsInvoke() {
					visit(com.Value)
				} else if _, isFn := com.Value.(*ssa.Function); !isFn {
					visit(com.Value)
				}
				for _, a := range com.Args {
					if al, isAlloc := a.(*ssa.Alloc); isAlloc {
						// address of a local passed to the callee: what it can read is what reaches this call
						if out[al] {
							continue
						}
						out[al] = true
						for _, sv := range ReachingStoresAt(i, al) {
							visit(sv)
						}
						continue
					}
					visit(a)
				}
			}
			if o.ThroughRepoCalls && o.Prog != nil {
				if f := com.StaticCallee(); f != nil && o.Prog.IsRepoFunc(f) {
					for _, b := range f.Blocks {
						for _, ins := range b.Instrs {
							if r, ok := ins.(*ssa.Return); ok {
								for _, rv := range r.Results {
									visit(rv)
								}
							}
						}
					}
				}
			}
		case ssa.Instruction:
			for _, op := range i.Operands(nil) {
				if op != nil && *op != nil {
					visit(*op)
				}
			}
		}
	}
	visit(v)
	return out
}

// StoresTo returns the values stored (anywhere in the function) to the location addr denotes:
// the same Alloc, or the same field/index path rooted at the same SSA base value.
func StoresTo(addr ssa.Value) []ssa.Value {
	var out []ssa.Value
	fn := parentOf(addr)
	if fn == nil {
		return nil
	}
	for _, b := range fn.Blocks {
		for _, ins := range b.Instrs {
			if st, ok := ins.(*ssa.Store); ok && SameLoc(st.Addr, addr) {
				out = append(out, st.Val)
			}
		}
	}
	return out
}

func parentOf(v ssa.Value) *ssa.Function {
	if i, ok := v.(ssa.Instruction); ok {
		return i.Parent()
	}
	if p, ok := v.(*ssa.Parameter); ok {
		return p.Parent()
	}
	if p, ok := v.(*ssa.FreeVar); ok {
		return p.Parent()
	}
	return nil
}

// SameLoc reports whether two address values syntactically denote the same location
// (same Alloc/Global/Parameter, or same field path over the same base).
func SameLoc(a, b ssa.Value) bool {
	if a == b {
		return true
	}
	switch x := a.(type) {
	case *ssa.FieldAddr:
		y, ok := b.(*ssa.FieldAddr)
		return ok && x.Field == y.Field && SameLoc(x.X, y.X)
	case *ssa.IndexAddr:
		y, ok := b.(*ssa.IndexAddr)
		if !ok || !SameLoc(x.X, y.X) {
			return false
		}
		if x.Index == y.Index {
			return true
		}
		cx, ok1 := x.Index.(*ssa.Const)
		cy, ok2 := y.Index.(*ssa.Const)
		return ok1 && ok2 && cx.Value != nil && cy.Value != nil && cx.Value.String() == cy.Value.String()
	case *ssa.UnOp: // load of a pointer variable: same if loading the same location and that location has a single store
		y, ok := b.(*ssa.UnOp)
		if ok && x.Op == token.MUL && y.Op == token.MUL && SameLoc(x.X, y.X) {
			return len(StoresTo(x.X)) <= 1
		}
	}
	return false
}

// DependsOn reports whether v's backward slice contains target.
func DependsOn(v, target ssa.Value, o SliceOpts) bool {
	return BackwardSlice(v, o)[target]
}

// ForwardUses returns the instructions that (transitively) use v through value-preserving or
// derived computations within the same function (referrers closure), following stores into
// local variables to their loads.
func ForwardUses(v ssa.Value) map[ssa.Instruction]bool { return forwardUses(v, false) }

// AliasUses is ForwardUses restricted to values that can alias memory: propagation stops at scalars
// and strings (copies), so only instructions that can observe or retain the same storage are returned
// (plus the scalar-producing instructions that read it directly).
func AliasUses(v ssa.Value) map[ssa.Instruction]bool { return forwardUses(v, true) }

func mayAlias(t types.Type) bool {
	switch u := t.Underlying().(type) {
	case *types.Basic:
		return u.Kind() == types.UnsafePointer
	case *types.Tuple:
		for i := 0; i < u.Len(); i++ {
			if mayAlias(u.At(i).Type()) {
				return true
			}
		}
		return false
	case *types.Struct:
		for i := 0; i < u.NumFields(); i++ {
			if mayAlias(u.Field(i).Type()) {
				return true
			}
		}
		return false
	case *types.Array:
		return mayAlias(u.Elem())
	}
	return true
}

func forwardUses(v ssa.Value, aliasOnly bool) map[ssa.Instruction]bool {
	out := map[ssa.Instruction]bool{}
	seenV := map[ssa.Value]bool{}
	var visit func(x ssa.Value)
	visit = func(x ssa.Value) {
		if x == nil || seenV[x] {
			return
		}
		seenV[x] = true
		refs := x.Referrers()
		if refs == nil {
			return
		}
		for _, r := range *refs {
			out[r] = true
			if st, ok := r.(*ssa.Store); ok && st.Val == x {
				// loads of the same location
				fn := st.Parent()
				for _, b := range fn.Blocks {
					for _, ins := range b.Instrs {
						if u, ok := ins.(*ssa.UnOp); ok && u.Op == token.MUL {
							if SameLoc(u.X, st.Addr) {
								out[u] = true
								visit(u)
							} else if a, isAlloc := AddrRoot(st.Addr).(*ssa.Alloc); isAlloc && AddrRoot(u.X) == ssa.Value(a) {
								out[u] = true
								visit(u) // a part of the local object the value was stored into
							}
						}
					}
				}
				continue
			}
			if rv, ok := r.(ssa.Value); ok {
				if aliasOnly && !mayAlias(rv.Type()) {
					continue
				}
				visit(rv)
			}
		}
	}
	visit(v)
	return out
}

// AddrRoot strips FieldAddr/IndexAddr chains from an address and returns the base value.
func AddrRoot(a ssa.Value) ssa.Value {
	for {
		switch x := a.(type) {
		case *ssa.FieldAddr:
			a = x.X
		case *ssa.IndexAddr:
			a = x.X
		default:
			return a
		}
	}
}

// ReachingStores returns the values that may be in the location a load reads, flow-sensitively:
// the CFG is walked backwards from the load and every path stops at the first store to the same
// location (SameLoc). If the function entry is reached without a store the location's initial
// content (zero or caller-provided) is not represented.
func ReachingStores(load *ssa.UnOp) []ssa.Value { return ReachingStoresAt(load, load.X) }

// ReachingStoresAt is ReachingStores for an arbitrary program point and address.
func ReachingStoresAt(at ssa.Instruction, addr ssa.Value) []ssa.Value {
	var out []ssa.Value
	seenVal := map[ssa.Value]bool{}
	type pos struct {
		b *ssa.BasicBlock
		i int // scan instructions b.Instrs[0..i) backwards
	}
	start := pos{at.Block(), InstrIndex(at)}
	seen := map[*ssa.BasicBlock]bool{}
	stack := []pos{start}
	first := true
	for len(stack) > 0 {
		p := stack[len(stack)-1]
		stack = stack[:len(stack)-1]
		if !first {
			if seen[p.b] {
				continue
			}
			seen[p.b] = true
		}
		first = false
		killed := false
		for i := p.i - 1; i >= 0; i-- {
			if st, ok := p.b.Instrs[i].(*ssa.Store); ok && SameLoc(st.Addr, addr) {
				if !seenVal[st.Val] {
					seenVal[st.Val] = true
					out = append(out, st.Val)
				}
				killed = true
				break
			}
		}
		if killed {
			continue
		}
		for _, pr := range p.b.Preds {
			stack = append(stack, pos{pr, len(pr.Instrs)})
		}
	}
	return out
}
