package core

import (
	"go/types"
	"sort"

	"golang.org/x/tools/go/ssa"
)

// CallSite is one call/go/defer instruction with its resolved targets.
type CallSite struct {
	Caller  *ssa.Function
	Instr   ssa.CallInstruction
	Targets []*ssa.Function // repo or external functions; external have no Blocks
	Dynamic bool            // call of a func value whose targets could not be enumerated
}

// CallGraph is a repository-centred call graph: static callees are exact, interface
// invocations are resolved by class-hierarchy analysis over *all* types of the program
// (sound over-approximation), calls of closures are followed through MakeClosure values,
// and calls of other func values are marked Dynamic (reported, never silently dropped).
type CallGraph struct {
	prog  *Program
	Sites map[*ssa.Function][]*CallSite
	In    map[*ssa.Function][]*CallSite
}

// CG builds (once) and returns the call graph.
func (p *Program) CG() *CallGraph {
	if p.cg != nil {
		return p.cg
	}
	g := &CallGraph{prog: p, Sites: map[*ssa.Function][]*CallSite{}, In: map[*ssa.Function][]*CallSite{}}
	// index concrete types by method for CHA
	var concrete []types.Type
	for _, t := range p.SSA.RuntimeTypes() {
		concrete = append(concrete, t)
	}
	// RuntimeTypes only lists types converted to interfaces; add all named types of repo packages
	seen := map[string]bool{}
	for _, t := range concrete {
		seen[t.String()] = true
	}
	for _, pk := range p.All {
		sc := pk.Types.Scope()
		for _, n := range sc.Names() {
			if tn, ok := sc.Lookup(n).(*types.TypeName); ok && !tn.IsAlias() {
				if _, isIface := tn.Type().Underlying().(*types.Interface); isIface {
					continue
				}
				if named, ok := tn.Type().(*types.Named); ok && named.TypeParams().Len() > 0 {
					continue
				}
				for _, t := range []types.Type{tn.Type(), types.NewPointer(tn.Type())} {
					if !seen[t.String()] {
						seen[t.String()] = true
						concrete = append(concrete, t)
					}
				}
			}
		}
	}
	for _, fn := range p.repoFuncs {
		for _, b := range fn.Blocks {
			for _, ins := range b.Instrs {
				ci, ok := ins.(ssa.CallInstruction)
				if !ok {
					continue
				}
				cs := &CallSite{Caller: fn, Instr: ci}
				com := ci.Common()
				switch {
				case com.IsInvoke():
					iface, _ := com.Value.Type().Underlying().(*types.Interface)
					for _, t := range concrete {
						if iface != nil && types.Implements(t, iface) {
							sel := p.SSA.MethodSets.MethodSet(t).Lookup(com.Method.Pkg(), com.Method.Name())
							if sel == nil {
								continue
							}
							if m := p.SSA.MethodValue(sel); m != nil {
								m = unwrap(p, m)
								cs.Targets = appendUniq(cs.Targets, m)
							}
						}
					}
				case com.StaticCallee() != nil:
					cs.Targets = []*ssa.Function{com.StaticCallee()}
				default:
					if _, isBuiltin := com.Value.(*ssa.Builtin); isBuiltin {
						continue
					}
					ts, complete := funcValueTargets(com.Value, map[ssa.Value]bool{})
					cs.Targets = ts
					cs.Dynamic = !complete
				}
				sort.Slice(cs.Targets, func(i, j int) bool { return cs.Targets[i].String() < cs.Targets[j].String() })
				g.Sites[fn] = append(g.Sites[fn], cs)
				for _, t := range cs.Targets {
					g.In[t] = append(g.In[t], cs)
				}
			}
		}
	}
	p.cg = g
	return g
}

func unwrap(p *Program, m *ssa.Function) *ssa.Function {
	if m.Synthetic != "" && len(m.Blocks) > 0 {
		// wrapper/thunk: find the single static call inside
		for _, b := range m.Blocks {
			for _, ins := range b.Instrs {
				if c, ok := ins.(*ssa.Call); ok {
					if sc := c.Common().StaticCallee(); sc != nil && sc.Name() == m.Name() {
						return sc
					}
				}
			}
		}
	}
	return m
}

func appendUniq(fs []*ssa.Function, f *ssa.Function) []*ssa.Function {
	for _, g := range fs {
		if g == f {
			return fs
		}
	}
	return append(fs, f)
}

func funcValueTargets(v ssa.Value, seen map[ssa.Value]bool) ([]*ssa.Function, bool) {
	if seen[v] {
		return nil, true
	}
	seen[v] = true
	switch x := v.(type) {
	case *ssa.Function:
		return []*ssa.Function{x}, true
	case *ssa.MakeClosure:
		return []*ssa.Function{x.Fn.(*ssa.Function)}, true
	case *ssa.Phi:
		var out []*ssa.Function
		ok := true
		for _, e := range x.Edges {
			ts, c := funcValueTargets(e, seen)
			out = append(out, ts...)
			ok = ok && c
		}
		return out, ok
	case *ssa.ChangeType:
		return funcValueTargets(x.X, seen)
	}
	return nil, false
}

// Reachable returns all functions reachable from roots (roots included), following every
// resolved target. Only repo functions are expanded; external functions are included as leaves.
func (g *CallGraph) Reachable(roots ...*ssa.Function) map[*ssa.Function]bool {
	out := map[*ssa.Function]bool{}
	var walk func(f *ssa.Function)
	walk = func(f *ssa.Function) {
		if f == nil || out[f] {
			return
		}
		out[f] = true
		if !g.prog.IsRepoFunc(f) {
			return
		}
		for _, cs := range g.Sites[f] {
			for _, t := range cs.Targets {
				walk(t)
			}
		}
		// closures created here may be invoked by external code (e.g. sync.Pool.New, http handlers)
		for _, af := range f.AnonFuncs {
			_ = af
		}
	}
	for _, r := range roots {
		walk(r)
	}
	return out
}

// ReachableRepo is Reachable restricted to repository functions, sorted.
func (g *CallGraph) ReachableRepo(roots ...*ssa.Function) []*ssa.Function {
	var out []*ssa.Function
	for f := range g.Reachable(roots...) {
		if g.prog.IsRepoFunc(f) {
			out = append(out, f)
		}
	}
	sort.Slice(out, func(i, j int) bool { return out[i].String() < out[j].String() })
	return out
}

// PathTo returns one call path (function names) from any root to target, or nil.
func (g *CallGraph) PathTo(target *ssa.Function, roots ...*ssa.Function) []*ssa.Function {
	type item struct {
		f    *ssa.Function
		prev *item
	}
	seen := map[*ssa.Function]bool{}
	var q []*item
	for _, r := range roots {
		if r != nil && !seen[r] {
			seen[r] = true
			q = append(q, &item{r, nil})
		}
	}
	for len(q) > 0 {
		it := q[0]
		q = q[1:]
		if it.f == target {
			var path []*ssa.Function
			for x := it; x != nil; x = x.prev {
				path = append([]*ssa.Function{x.f}, path...)
			}
			return path
		}
		if !g.prog.IsRepoFunc(it.f) {
			continue
		}
		for _, cs := range g.Sites[it.f] {
			for _, t := range cs.Targets {
				if !seen[t] {
					seen[t] = true
					q = append(q, &item{t, it})
				}
			}
		}
	}
	return nil
}
