// Package core loads /repo's current working tree (parse, type-check, go/ssa) and offers the
// shared program model every rule works on. Nothing here executes vflow code.
package core

import (
	"fmt"
	"go/ast"
	"go/token"
	"go/types"
	"os"
	"path/filepath"
	"sort"
	"strings"

	"golang.org/x/tools/go/packages"
	"golang.org/x/tools/go/ssa"
	"golang.org/x/tools/go/ssa/ssautil"
)

// ModPath is the module path of the repository under analysis.
const ModPath = "github.com/EdgeCast/vflow"

// Program is the resolved program: syntax, types, SSA.
type Program struct {
	RepoDir string
	GOARCH  string
	Fset    *token.FileSet
	Pkgs    map[string]*packages.Package // import path -> package (repo packages only)
	All     []*packages.Package
	SSA     *ssa.Program
	SSAPkg  map[string]*ssa.Package
	// FuncDecl of each repo *ssa.Function that has syntax
	repoFuncs []*ssa.Function
	cg        *CallGraph
	overlay   map[string][]byte
	// InlineNotes records what the normalising inliner did (evidence).
	InlineNotes []string
}

// ReadFile reads a repository file (module-relative path), honouring the analysis overlay.
func (p *Program) ReadFile(rel string) ([]byte, error) {
	abs := filepath.Join(p.RepoDir, rel)
	if b, ok := p.overlay[abs]; ok {
		return b, nil
	}
	return os.ReadFile(abs)
}

// Load parses, type-checks and builds SSA for every package of the module in dir.
// overlay maps absolute file names to replacement contents (used for canaries/mutants).
func Load(dir string, goarch string, overlay map[string][]byte) (*Program, error) {
	p, err := loadOnce(dir, goarch, overlay)
	if err != nil || os.Getenv("VERIF_NO_INLINE") != "" || len(knownFuncs) == 0 {
		return p, err
	}
	// normalise: inline calls of functions that did not exist in the pinned tree (see inline.go)
	for round := 1; round <= 4; round++ {
		ov, n, notes := inlineNewHelpers(p, round)
		if n == 0 {
			break
		}
		merged := map[string][]byte{}
		for k, v := range p.overlay {
			merged[k] = v
		}
		for k, v := range ov {
			merged[k] = v
		}
		if os.Getenv("VERIF_DEBUG_INLINE") == "2" {
			for k, v := range ov {
				fmt.Fprintf(os.Stderr, "---- round %d %s\n%s\n", round, k, v)
			}
		}
		p2, err := loadOnce(dir, goarch, merged)
		if err != nil {
			p.InlineNotes = append(p.InlineNotes, "normalising inliner output did not type-check; the tree is analysed as written: "+err.Error())
			if os.Getenv("VERIF_DEBUG_INLINE") != "" {
				for k, v := range ov {
					fmt.Fprintf(os.Stderr, "---- %s\n%s\n", k, v)
				}
			}
			break
		}
		p2.InlineNotes = append(append(p2.InlineNotes, p.InlineNotes...), notes...)
		p = p2
	}
	return p, nil
}

func loadOnce(dir string, goarch string, overlay map[string][]byte) (*Program, error) {
	env := append(os.Environ(), "GOFLAGS=-mod=mod", "GOPROXY=off", "GOSUMDB=off", "GOWORK=off", "GOTOOLCHAIN=local", "CGO_ENABLED=0")
	if goarch != "" {
		env = append(env, "GOARCH="+goarch)
	}
	cfg := &packages.Config{
		Mode:    packages.LoadAllSyntax,
		Dir:     dir,
		Env:     env,
		Overlay: overlay,
		Tests:   false,
	}
	pkgs, err := packages.Load(cfg, "./...")
	if err != nil {
		return nil, fmt.Errorf("packages.Load: %w", err)
	}
	if len(pkgs) == 0 {
		return nil, fmt.Errorf("packages.Load: zero packages in %s", dir)
	}
	var errs []string
	packages.Visit(pkgs, nil, func(p *packages.Package) {
		for _, e := range p.Errors {
			errs = append(errs, e.Error())
		}
	})
	if len(errs) > 0 {
		return nil, fmt.Errorf("load/type errors (%d): %s", len(errs), strings.Join(errs[:min(len(errs), 5)], "; "))
	}
	prog, spkgs := ssautil.AllPackages(pkgs, ssa.InstantiateGenerics)
	prog.Build()
	p := &Program{
		RepoDir: dir, GOARCH: goarch, Fset: pkgs[0].Fset,
		Pkgs: map[string]*packages.Package{}, All: pkgs,
		SSA: prog, SSAPkg: map[string]*ssa.Package{}, overlay: overlay,
	}
	for i, pk := range pkgs {
		p.Pkgs[pk.PkgPath] = pk
		if spkgs[i] != nil {
			p.SSAPkg[pk.PkgPath] = spkgs[i]
		}
	}
	if len(p.Pkgs) < 10 {
		return nil, fmt.Errorf("only %d packages loaded from %s; expected the whole module", len(p.Pkgs), dir)
	}
	for fn := range ssautil.AllFunctions(prog) {
		if p.IsRepoFunc(fn) {
			p.repoFuncs = append(p.repoFuncs, fn)
		}
	}
	sort.Slice(p.repoFuncs, func(i, j int) bool { return p.repoFuncs[i].String() < p.repoFuncs[j].String() })
	return p, nil
}

// IsRepoPkg reports whether the types package belongs to the repository.
func IsRepoPkg(pk *types.Package) bool {
	return pk != nil && (pk.Path() == ModPath || strings.HasPrefix(pk.Path(), ModPath+"/"))
}

// IsRepoFunc reports whether fn is defined (has a body) in the repository.
func (p *Program) IsRepoFunc(fn *ssa.Function) bool {
	if fn == nil || len(fn.Blocks) == 0 {
		return false
	}
	if fn.Pkg != nil {
		return IsRepoPkg(fn.Pkg.Pkg)
	}
	// closures and wrappers: walk to parent / origin
	if fn.Parent() != nil {
		return p.IsRepoFunc(fn.Parent())
	}
	if fn.Origin() != nil {
		return p.IsRepoFunc(fn.Origin())
	}
	if obj := fn.Object(); obj != nil {
		return IsRepoPkg(obj.Pkg())
	}
	return false
}

// RepoFuncs returns every repository function with a body (incl. closures), sorted by name.
func (p *Program) RepoFuncs() []*ssa.Function { return p.repoFuncs }

// Pkg returns the repo package with the given path relative to the module root ("" = root).
func (p *Program) Pkg(rel string) *packages.Package {
	if rel == "" {
		return p.Pkgs[ModPath]
	}
	return p.Pkgs[ModPath+"/"+rel]
}

// SSAPackage returns the ssa package for a module-relative path.
func (p *Program) SSAPackage(rel string) *ssa.Package {
	if rel == "" {
		return p.SSAPkg[ModPath]
	}
	return p.SSAPkg[ModPath+"/"+rel]
}

// Func looks up a package-level function by module-relative package path and name.
func (p *Program) Func(rel, name string) *ssa.Function {
	sp := p.SSAPackage(rel)
	if sp == nil {
		return nil
	}
	return sp.Func(name)
}

// Method looks up method `name` on named type `typ` (value or pointer receiver) in package rel.
func (p *Program) Method(rel, typ, name string) *ssa.Function {
	sp := p.SSAPackage(rel)
	if sp == nil {
		return nil
	}
	obj := sp.Pkg.Scope().Lookup(typ)
	if obj == nil {
		return nil
	}
	tn, ok := obj.(*types.TypeName)
	if !ok {
		return nil
	}
	for _, t := range []types.Type{tn.Type(), types.NewPointer(tn.Type())} {
		ms := p.SSA.MethodSets.MethodSet(t)
		if sel := ms.Lookup(sp.Pkg, name); sel != nil {
			fn := p.SSA.MethodValue(sel)
			if fn != nil {
				// unwrap synthetic pointer-receiver wrappers
				if fn.Synthetic != "" {
					if m, ok := sel.Obj().(*types.Func); ok {
						if real := p.SSA.FuncValue(m); real != nil {
							return real
						}
					}
				}
				return fn
			}
		}
	}
	return nil
}

// NamedType looks up a named type in a repo package.
func (p *Program) NamedType(rel, name string) *types.Named {
	pk := p.Pkg(rel)
	if pk == nil {
		return nil
	}
	obj := pk.Types.Scope().Lookup(name)
	if obj == nil {
		return nil
	}
	n, _ := obj.Type().(*types.Named)
	return n
}

// Pos renders a position relative to the repository root.
func (p *Program) Pos(pos token.Pos) string {
	if !pos.IsValid() {
		return "-"
	}
	ps := p.Fset.Position(pos)
	rel, err := filepath.Rel(p.RepoDir, ps.Filename)
	if err != nil {
		rel = ps.Filename
	}
	return fmt.Sprintf("%s:%d", rel, ps.Line)
}

// RelFile returns the file of pos relative to the repo root.
func (p *Program) RelFile(pos token.Pos) string {
	if !pos.IsValid() {
		return ""
	}
	ps := p.Fset.Position(pos)
	rel, err := filepath.Rel(p.RepoDir, ps.Filename)
	if err != nil {
		return ps.Filename
	}
	return rel
}

// FuncDecl returns the syntax of a repo function, if any.
func FuncDecl(fn *ssa.Function) *ast.FuncDecl {
	if fn == nil {
		return nil
	}
	d, _ := fn.Syntax().(*ast.FuncDecl)
	return d
}

// FuncName is a stable, human-readable key for a function ("pkg.(*T).m", closures as parent$n).
func FuncName(fn *ssa.Function) string {
	if fn == nil {
		return "<nil>"
	}
	s := fn.String()
	s = strings.ReplaceAll(s, ModPath+"/", "")
	s = strings.ReplaceAll(s, ModPath, "vflow")
	return s
}

// PkgRel returns the module-relative package path of fn ("" when not a repo function).
func PkgRel(fn *ssa.Function) string {
	for fn != nil && fn.Pkg == nil {
		if fn.Parent() != nil {
			fn = fn.Parent()
		} else if fn.Origin() != nil {
			fn = fn.Origin()
		} else {
			return ""
		}
	}
	if fn == nil {
		return ""
	}
	pp := fn.Pkg.Pkg.Path()
	if pp == ModPath {
		return ""
	}
	return strings.TrimPrefix(pp, ModPath+"/")
}
