package core

import (
	"go/token"
	"go/types"

	"golang.org/x/tools/go/ssa"
)

// InstrIndex returns the index of ins in its block.
func InstrIndex(ins ssa.Instruction) int {
	for i, x := range ins.Block().Instrs {
		if x == ins {
			return i
		}
	}
	return -1
}

// InstrDominates reports whether a is executed before b on every path from entry to b.
func InstrDominates(a, b ssa.Instruction) bool {
	if a.Block() == b.Block() {
		return InstrIndex(a) < InstrIndex(b)
	}
	return a.Block().Dominates(b.Block())
}

// Walk describes a reachability query over the instruction-level CFG of one function.
type Walk struct {
	// Blocked instructions are not traversed (the walk stops before executing them).
	Blocked func(ssa.Instruction) bool
	// EdgeOK, if set, filters block edges: from block, successor index.
	EdgeOK func(from *ssa.BasicBlock, succ int) bool
}

// ReachInstrs returns every instruction reachable from (and excluding, unless via a cycle) `from`,
// i.e. the instructions that can execute strictly after `from`.
func (w Walk) ReachInstrs(from ssa.Instruction) map[ssa.Instruction]bool {
	out := map[ssa.Instruction]bool{}
	type pos struct {
		b *ssa.BasicBlock
		i int
	}
	var stack []pos
	stack = append(stack, pos{from.Block(), InstrIndex(from) + 1})
	seenBlockStart := map[*ssa.BasicBlock]bool{}
	for len(stack) > 0 {
		p := stack[len(stack)-1]
		stack = stack[:len(stack)-1]
		b := p.b
		stopped := false
		for i := p.i; i < len(b.Instrs); i++ {
			ins := b.Instrs[i]
			if w.Blocked != nil && w.Blocked(ins) {
				stopped = true
				break
			}
			out[ins] = true
		}
		if stopped {
			continue
		}
		for si, s := range b.Succs {
			if w.EdgeOK != nil && !w.EdgeOK(b, si) {
				continue
			}
			if !seenBlockStart[s] {
				seenBlockStart[s] = true
				stack = append(stack, pos{s, 0})
			}
		}
	}
	return out
}

// ReachFromEntry returns every instruction reachable from function entry.
func (w Walk) ReachFromEntry(fn *ssa.Function) map[ssa.Instruction]bool {
	out := map[ssa.Instruction]bool{}
	if len(fn.Blocks) == 0 {
		return out
	}
	seen := map[*ssa.BasicBlock]bool{fn.Blocks[0]: true}
	stack := []*ssa.BasicBlock{fn.Blocks[0]}
	for len(stack) > 0 {
		b := stack[len(stack)-1]
		stack = stack[:len(stack)-1]
		stopped := false
		for _, ins := range b.Instrs {
			if w.Blocked != nil && w.Blocked(ins) {
				stopped = true
				break
			}
			out[ins] = true
		}
		if stopped {
			continue
		}
		for si, s := range b.Succs {
			if w.EdgeOK != nil && !w.EdgeOK(b, si) {
				continue
			}
			if !seen[s] {
				seen[s] = true
				stack = append(stack, s)
			}
		}
	}
	return out
}

// CanReach reports whether `to` can execute after `from` under the walk's restrictions.
func (w Walk) CanReach(from, to ssa.Instruction) bool {
	return w.ReachInstrs(from)[to]
}

// Loop is a natural loop.
type Loop struct {
	Header *ssa.BasicBlock
	Blocks map[*ssa.BasicBlock]bool
	Latch  []*ssa.BasicBlock // sources of back-edges
}

// NaturalLoops returns the natural loops of fn (merged per header).
func NaturalLoops(fn *ssa.Function) []*Loop {
	byHeader := map[*ssa.BasicBlock]*Loop{}
	var order []*ssa.BasicBlock
	for _, b := range fn.Blocks {
		for _, s := range b.Succs {
			if s.Dominates(b) { // back-edge b -> s
				l := byHeader[s]
				if l == nil {
					l = &Loop{Header: s, Blocks: map[*ssa.BasicBlock]bool{s: true}}
					byHeader[s] = l
					order = append(order, s)
				}
				l.Latch = append(l.Latch, b)
				// collect body: nodes that reach b without passing through s
				stack := []*ssa.BasicBlock{b}
				for len(stack) > 0 {
					x := stack[len(stack)-1]
					stack = stack[:len(stack)-1]
					if l.Blocks[x] {
						continue
					}
					l.Blocks[x] = true
					stack = append(stack, x.Preds...)
				}
			}
		}
	}
	var out []*Loop
	for _, h := range order {
		out = append(out, byHeader[h])
	}
	return out
}

// Contains reports whether the instruction lies in the loop.
func (l *Loop) Contains(ins ssa.Instruction) bool { return l.Blocks[ins.Block()] }

// Exits returns the (block, succIndex) edges leaving the loop.
func (l *Loop) Exits() [][2]interface{} {
	var out [][2]interface{}
	for b := range l.Blocks {
		for si, s := range b.Succs {
			if !l.Blocks[s] {
				out = append(out, [2]interface{}{b, si})
			}
		}
	}
	return out
}

// CalleeOf returns the static callee of a call instruction or nil.
func CalleeOf(ins ssa.Instruction) *ssa.Function {
	if ci, ok := ins.(ssa.CallInstruction); ok {
		return ci.Common().StaticCallee()
	}
	return nil
}

// IsCallTo reports whether ins statically calls pkgPath.name (name may be "(*T).m" / "(T).m" form via FullName).
func IsCallTo(ins ssa.Instruction, full string) bool {
	f := CalleeOf(ins)
	return f != nil && FullName(f) == full
}

// FullName renders "pkgpath.Func" or "(pkgpath.T).Method" / "(*pkgpath.T).Method" as go/ssa does.
func FullName(f *ssa.Function) string { return f.String() }

// InvokeMethod returns the interface method name of an invoke-mode call ("" otherwise) and the interface type.
func InvokeMethod(ins ssa.Instruction) (string, types.Type) {
	if ci, ok := ins.(ssa.CallInstruction); ok {
		c := ci.Common()
		if c.IsInvoke() {
			return c.Method.Name(), c.Value.Type()
		}
	}
	return "", nil
}

// Deref strips one pointer level from a type.
func Deref(t types.Type) types.Type {
	if p, ok := t.Underlying().(*types.Pointer); ok {
		return p.Elem()
	}
	return t
}

// FieldOf describes the struct field a FieldAddr/Field instruction selects.
func FieldOf(v ssa.Value) (owner types.Type, field *types.Var, ok bool) {
	switch x := v.(type) {
	case *ssa.FieldAddr:
		st, _ := Deref(x.X.Type()).Underlying().(*types.Struct)
		if st == nil {
			return nil, nil, false
		}
		return Deref(x.X.Type()), st.Field(x.Field), true
	case *ssa.Field:
		st, _ := x.X.Type().Underlying().(*types.Struct)
		if st == nil {
			return nil, nil, false
		}
		return x.X.Type(), st.Field(x.Field), true
	}
	return nil, nil, false
}

// IfEdge returns, for an edge (b -> b.Succs[si]) where b ends in an If, the condition and its truth on that edge.
func IfEdge(b *ssa.BasicBlock, si int) (cond ssa.Value, truth bool, ok bool) {
	if len(b.Instrs) == 0 {
		return nil, false, false
	}
	ifi, isIf := b.Instrs[len(b.Instrs)-1].(*ssa.If)
	if !isIf {
		return nil, false, false
	}
	return ifi.Cond, si == 0, true
}

// NilCompare decodes cond as `v == nil` / `v != nil`; eqNil tells whether cond true means v is nil.
func NilCompare(cond ssa.Value) (v ssa.Value, eqNil bool, ok bool) {
	b, isBin := cond.(*ssa.BinOp)
	if !isBin || (b.Op != token.EQL && b.Op != token.NEQ) {
		return nil, false, false
	}
	isNil := func(x ssa.Value) bool {
		c, ok := x.(*ssa.Const)
		return ok && c.Value == nil
	}
	switch {
	case isNil(b.Y):
		return b.X, b.Op == token.EQL, true
	case isNil(b.X):
		return b.Y, b.Op == token.EQL, true
	}
	return nil, false, false
}

// ResolveAlongPaths enumerates the acyclic CFG paths from the block of `start` (after start) to the
// block of `at`, restricted by edgeOK, and returns the set of values v can denote at `at` when phis
// are resolved by the predecessor actually taken on each path. Bounded: at most maxPaths paths
// (returns ok=false when exceeded).
func ResolveAlongPaths(start ssa.Instruction, at ssa.Instruction, v ssa.Value, edgeOK func(*ssa.BasicBlock, int) bool, maxPaths int) (vals map[ssa.Value]bool, ok bool) {
	var f func(*ssa.BasicBlock, int, func(ssa.Value) ssa.Value) bool
	if edgeOK != nil {
		f = func(b *ssa.BasicBlock, si int, _ func(ssa.Value) ssa.Value) bool { return edgeOK(b, si) }
	}
	return ResolveAlongPathsR(start, at, v, f, maxPaths)
}

// ResolveAlongPathsR is ResolveAlongPaths with an edge filter that can resolve phis by the path taken so far.
func ResolveAlongPathsR(start ssa.Instruction, at ssa.Instruction, v ssa.Value, edgeOK func(*ssa.BasicBlock, int, func(ssa.Value) ssa.Value) bool, maxPaths int) (vals map[ssa.Value]bool, ok bool) {
	vals = map[ssa.Value]bool{}
	target := at.Block()
	type frame struct {
		b    *ssa.BasicBlock
		prev map[*ssa.BasicBlock]*ssa.BasicBlock // block -> predecessor taken on this path
	}
	n := 0
	var dfs func(b *ssa.BasicBlock, onPath map[*ssa.BasicBlock]bool, prev map[*ssa.BasicBlock]*ssa.BasicBlock) bool
	resolve := func(x ssa.Value, prev map[*ssa.BasicBlock]*ssa.BasicBlock) ssa.Value {
		for i := 0; i < 16; i++ {
			phi, isPhi := x.(*ssa.Phi)
			if !isPhi {
				return x
			}
			p, known := prev[phi.Block()]
			if !known {
				return x
			}
			found := false
			for pi, pb := range phi.Block().Preds {
				if pb == p {
					x = phi.Edges[pi]
					found = true
					break
				}
			}
			if !found {
				return x
			}
		}
		return x
	}
	dfs = func(b *ssa.BasicBlock, onPath map[*ssa.BasicBlock]bool, prev map[*ssa.BasicBlock]*ssa.BasicBlock) bool {
		if b == target {
			n++
			if n > maxPaths {
				return false
			}
			vals[resolve(v, prev)] = true
			return true
		}
		for si, s := range b.Succs {
			if edgeOK != nil && !edgeOK(b, si, func(x ssa.Value) ssa.Value { return resolve(x, prev) }) {
				continue
			}
			if onPath[s] {
				continue
			}
			onPath[s] = true
			old, had := prev[s]
			prev[s] = b
			if !dfs(s, onPath, prev) {
				return false
			}
			if had {
				prev[s] = old
			} else {
				delete(prev, s)
			}
			delete(onPath, s)
		}
		return true
	}
	sb := start.Block()
	ok = dfs(sb, map[*ssa.BasicBlock]bool{sb: true}, map[*ssa.BasicBlock]*ssa.BasicBlock{})
	return vals, ok
}
