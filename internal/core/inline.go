package core

// Normalising inliner.
//
// The rules anchor on the functions of the pinned tree (decodeSet, ipfixWorker, GetCache, ...). A later
// change may move part of such a function into a new helper ("extract function"), which leaves behaviour
// unchanged but hides the moved statements from intraprocedural rules. Before analysis, every call of a
// function that did not exist in the pinned tree (knownFuncs) is replaced, in an in-memory overlay, by the
// callee's body, whenever that can be done by a purely syntactic, semantics-preserving rewrite:
//
//   - statement calls `f(a)`, `x, err := f(a)`, `x = f(a)` (also as the init statement of an `if`):
//     { var p T = a; var r R; L: switch { default: body[return e => r = e; break L] }; x = r }
//   - calls inside expressions: a callee whose body is a single `return expr` is substituted when its
//     arguments are free of calls; otherwise the call is hoisted into a temporary in front of the
//     enclosing statement when it is the first call that statement evaluates.
//
// Calls that fit neither form stay as they are. The rewritten text occupies one line, so positions
// outside inlined regions are unchanged. The analysis then runs on the rewritten program, which is
// type-checked again; if that fails the tree is analysed as written. Nothing is written to disk.

import (
	"bytes"
	"fmt"
	"go/ast"
	"go/scanner"
	"go/token"
	"go/types"
	"os"
	"sort"
	"strings"

	"golang.org/x/tools/go/packages"
	"golang.org/x/tools/go/types/typeutil"
)

type calleeInfo struct {
	obj      *types.Func   // nil for a local closure
	decl     *ast.FuncDecl // nil for a local closure
	v        *types.Var    // the local variable a closure is bound to
	lit      *ast.FuncLit
	node     ast.Node // the declaration (FuncDecl, or the statement binding the closure)
	name     string
	sig      *types.Signature
	ftype    *ast.FuncType
	body     *ast.BlockStmt
	file     *ast.File
	src      []byte
	exprBody ast.Expr // single `return expr`
	refs     int      // references to the function in its package
	inlined  int      // of which call sites rewritten in this round
}

type textEdit struct {
	start, end int
	text       string
}

// inlineNewHelpers returns an overlay (absolute file name -> new content) and the number of call sites rewritten.
func inlineNewHelpers(p *Program, round int) (map[string][]byte, int, []string) {
	out := map[string][]byte{}
	total := 0
	var notes []string
	var paths []string
	for path := range p.Pkgs {
		paths = append(paths, path)
	}
	sort.Strings(paths)
	for _, path := range paths {
		pk := p.Pkgs[path]
		if pk.TypesInfo == nil {
			continue
		}
		cands := map[*types.Func]*calleeInfo{}
		srcOf := map[*ast.File][]byte{}
		for i, f := range pk.Syntax {
			name := pk.CompiledGoFiles[i]
			b, ok := p.overlay[name]
			if !ok {
				var err error
				if b, err = os.ReadFile(name); err != nil {
					continue
				}
			}
			srcOf[f] = b
		}
		for _, f := range pk.Syntax {
			for _, d := range f.Decls {
				fd, ok := d.(*ast.FuncDecl)
				if !ok || fd.Body == nil {
					continue
				}
				obj, _ := pk.TypesInfo.Defs[fd.Name].(*types.Func)
				if obj == nil || knownFuncs[obj.FullName()] || obj.Name() == "init" || obj.Name() == "main" {
					continue
				}
				if ci := eligibleCallee(pk, f, fd, obj, srcOf[f]); ci != nil {
					cands[obj] = ci
				}
			}
		}
		if os.Getenv("VERIF_DEBUG_INLINE") != "" {
			for o := range cands {
				fmt.Fprintln(os.Stderr, "INLINE candidate", o.FullName())
			}
		}
		for id, obj := range pk.TypesInfo.Uses {
			if fobj, ok := obj.(*types.Func); ok && cands[fobj] != nil {
				ci := cands[fobj]
				// references from inside the function itself do not keep it alive
				if !(id.Pos() >= ci.node.Pos() && id.End() <= ci.node.End()) {
					ci.refs++
				}
			}
		}
		ils := map[*ast.File]*inliner{}
		for fi, f := range pk.Syntax {
			src := srcOf[f]
			if src == nil {
				continue
			}
			il := &inliner{p: p, pk: pk, file: f, src: src, cands: cands, lits: closureCandidates(pk, f, src), id: round*100000 + fi*1000}
			il.run()
			ils[f] = il
		}
		// a new helper that is no longer referenced at all (every use was inlined in an earlier round) is dead: drop its
		// declaration so that whole-program rules do not see a second copy of the statements
		for _, ci := range cands {
			if ci.refs == 0 && !ci.obj.Exported() && ils[ci.file] != nil {
				ils[ci.file].dropDecl(ci)
			}
		}
		// a closure whose every call was rewritten in this round is dropped at once (left in place it would be an unused
		// variable, and its captures would still force the captured variables into heap cells), unless the body of another
		// candidate calls it: that body has just been copied to new places, which are rewritten in the next round
		for _, il := range ils {
			for _, ci := range il.lits {
				if ci.refs == 0 || (ci.inlined == ci.refs && !il.usedByOtherCandidate(ci)) {
					il.dropDecl(ci)
				}
			}
		}
		for _, f := range pk.Syntax {
			il := ils[f]
			src := srcOf[f]
			if il == nil || len(il.edits) == 0 {
				continue
			}
			sort.Slice(il.edits, func(i, j int) bool { return il.edits[i].start > il.edits[j].start })
			nb := append([]byte{}, src...)
			for _, e := range il.edits {
				nb = append(nb[:e.start], append([]byte(e.text), nb[e.end:]...)...)
			}
			out[p.Fset.Position(f.Pos()).Filename] = nb
			total += len(il.edits)
			notes = append(notes, il.notes...)
		}
	}
	return out, total, notes
}

func eligibleCallee(pk *packages.Package, file *ast.File, fd *ast.FuncDecl, obj *types.Func, src []byte) *calleeInfo {
	if src == nil {
		return nil
	}
	sig := obj.Type().(*types.Signature)
	ci := eligibleBody(pk, fd.Body, sig, obj)
	if ci == nil {
		return nil
	}
	ci.obj, ci.decl, ci.node, ci.name, ci.ftype, ci.file, ci.src = obj, fd, fd, obj.Name(), fd.Type, file, src
	return ci
}

// eligibleBody: the body can be placed at a call site by the rewrite of expand/substitute.
func eligibleBody(pk *packages.Package, body *ast.BlockStmt, sig *types.Signature, self types.Object) *calleeInfo {
	if sig.TypeParams() != nil || sig.RecvTypeParams() != nil || sig.Variadic() {
		return nil
	}
	ok := true
	ast.Inspect(body, func(n ast.Node) bool {
		switch x := n.(type) {
		case *ast.FuncLit:
			// defer, labels, goto and recover inside a nested literal belong to that literal and move with it; only a
			// reference to the function itself matters there
			ast.Inspect(x.Body, func(m ast.Node) bool {
				if id, isID := m.(*ast.Ident); isID {
					if o := pk.TypesInfo.Uses[id]; o != nil && o == self {
						ok = false
					}
				}
				return ok
			})
			return false
		case *ast.DeferStmt, *ast.LabeledStmt:
			ok = false
		case *ast.BranchStmt:
			if x.Tok == token.GOTO {
				ok = false
			}
		case *ast.CallExpr:
			if id, isID := x.Fun.(*ast.Ident); isID && id.Name == "recover" {
				ok = false
			}
			if f := typeutil.StaticCallee(pk.TypesInfo, x); f != nil && types.Object(f) == self {
				ok = false // directly recursive
			}
		case *ast.Ident:
			if o := pk.TypesInfo.Uses[x]; o != nil && o == self {
				ok = false // refers to itself
			}
		}
		return ok
	})
	if !ok {
		return nil
	}
	// parameters must be named (or blank) so that they can be bound
	ci := &calleeInfo{sig: sig, body: body}
	if len(body.List) == 1 && sig.Results().Len() == 1 {
		if r, isRet := body.List[0].(*ast.ReturnStmt); isRet && len(r.Results) == 1 {
			ci.exprBody = r.Results[0]
		}
	}
	return ci
}

// closureCandidates: `name := func(...) ... { ... }` (or `var name = func...`) in a statement list, where the variable is
// never assigned again and every use of it is a direct call (not under go/defer). Such a closure captures its free
// variables by reference, so placing its body at the call is the same computation provided the captured names mean the
// same variables there (checked per call site by shadowed).
func closureCandidates(pk *packages.Package, file *ast.File, src []byte) map[*types.Var]*calleeInfo {
	out := map[*types.Var]*calleeInfo{}
	if src == nil {
		return out
	}
	info := pk.TypesInfo
	parent := map[ast.Node]ast.Node{}
	var stack []ast.Node
	ast.Inspect(file, func(n ast.Node) bool {
		if n == nil {
			stack = stack[:len(stack)-1]
			return true
		}
		if len(stack) > 0 {
			parent[n] = stack[len(stack)-1]
		}
		stack = append(stack, n)
		return true
	})
	inList := func(st ast.Node) bool {
		switch parent[st].(type) {
		case *ast.BlockStmt, *ast.CaseClause, *ast.CommClause:
			return true
		}
		return false
	}
	ast.Inspect(file, func(n ast.Node) bool {
		var id *ast.Ident
		var lit *ast.FuncLit
		var node ast.Node
		switch x := n.(type) {
		case *ast.AssignStmt:
			if x.Tok == token.DEFINE && len(x.Lhs) == 1 && len(x.Rhs) == 1 {
				id, _ = x.Lhs[0].(*ast.Ident)
				lit, _ = x.Rhs[0].(*ast.FuncLit)
				node = x
			}
		case *ast.DeclStmt:
			if gd, ok := x.Decl.(*ast.GenDecl); ok && gd.Tok == token.VAR && len(gd.Specs) == 1 {
				if vs, ok := gd.Specs[0].(*ast.ValueSpec); ok && len(vs.Names) == 1 && len(vs.Values) == 1 && vs.Type == nil {
					id = vs.Names[0]
					lit, _ = vs.Values[0].(*ast.FuncLit)
					node = x
				}
			}
		}
		if id == nil || lit == nil || id.Name == "_" || !inList(node) {
			return true
		}
		v, _ := info.Defs[id].(*types.Var)
		if v == nil {
			return true
		}
		sig, _ := v.Type().(*types.Signature)
		if sig == nil {
			return true
		}
		ci := eligibleBody(pk, lit.Body, sig, v)
		if ci == nil {
			return true
		}
		ci.v, ci.lit, ci.node, ci.name, ci.ftype, ci.file, ci.src = v, lit, node, id.Name, lit.Type, file, src
		out[v] = ci
		return true
	})
	// every use is the function operand of a plain call
	for id, obj := range info.Uses {
		v, ok := obj.(*types.Var)
		if !ok || out[v] == nil {
			continue
		}
		if id.Pos() < file.Pos() || id.Pos() > file.End() {
			continue
		}
		call, isCall := parent[id].(*ast.CallExpr)
		if !isCall || call.Fun != ast.Expr(id) {
			delete(out, v)
			continue
		}
		switch parent[call].(type) {
		case *ast.GoStmt, *ast.DeferStmt:
			delete(out, v)
			continue
		}
		out[v].refs++
	}
	return out
}

type inliner struct {
	p      *Program
	pk     *packages.Package
	file   *ast.File
	src    []byte
	cands  map[*types.Func]*calleeInfo
	lits   map[*types.Var]*calleeInfo
	edits  []textEdit
	notes  []string
	id     int
	parent map[ast.Node]ast.Node
}

func (il *inliner) off(pos token.Pos) int { return il.p.Fset.Position(pos).Offset }

func (il *inliner) text(n ast.Node) string { return string(il.src[il.off(n.Pos()):il.off(n.End())]) }

func (il *inliner) overlaps(s, e int) bool {
	for _, x := range il.edits {
		if s < x.end && x.start < e {
			return true
		}
	}
	return false
}

func (il *inliner) run() {
	il.parent = map[ast.Node]ast.Node{}
	var stack []ast.Node
	ast.Inspect(il.file, func(n ast.Node) bool {
		if n == nil {
			stack = stack[:len(stack)-1]
			return true
		}
		if len(stack) > 0 {
			il.parent[n] = stack[len(stack)-1]
		}
		stack = append(stack, n)
		return true
	})
	var calls []*ast.CallExpr
	ast.Inspect(il.file, func(n ast.Node) bool {
		if c, ok := n.(*ast.CallExpr); ok {
			if il.calleeOf(c) != nil {
				calls = append(calls, c)
			}
		}
		return true
	})
	for _, c := range calls {
		ci := il.calleeOf(c)
		// not inside the callee itself
		if c.Pos() >= ci.node.Pos() && c.End() <= ci.node.End() {
			continue
		}
		il.tryInline(c, ci)
	}
}

func (il *inliner) usedByOtherCandidate(ci *calleeInfo) bool {
	used := false
	check := func(o *calleeInfo) {
		if o == ci || used {
			return
		}
		ast.Inspect(o.body, func(n ast.Node) bool {
			if id, ok := n.(*ast.Ident); ok && il.pk.TypesInfo.Uses[id] == types.Object(ci.v) {
				used = true
			}
			return !used
		})
	}
	for _, o := range il.lits {
		check(o)
	}
	for _, o := range il.cands {
		check(o)
	}
	return used
}

func (il *inliner) calleeOf(c *ast.CallExpr) *calleeInfo {
	if f := typeutil.StaticCallee(il.pk.TypesInfo, c); f != nil && il.cands[f] != nil {
		return il.cands[f]
	}
	if id, ok := c.Fun.(*ast.Ident); ok {
		if v, ok := il.pk.TypesInfo.Uses[id].(*types.Var); ok && il.lits[v] != nil {
			return il.lits[v]
		}
	}
	return nil
}

// inList: the statement is an element of a statement list (so it can be replaced by several statements).
func (il *inliner) inList(st ast.Stmt) bool {
	switch par := il.parent[st].(type) {
	case *ast.BlockStmt:
		return true
	case *ast.CaseClause:
		for _, s := range par.Body {
			if s == st {
				return true
			}
		}
	case *ast.CommClause:
		for _, s := range par.Body {
			if s == st {
				return true
			}
		}
	}
	return false
}

func (il *inliner) tryInline(call *ast.CallExpr, ci *calleeInfo) {
	il.id++
	k := fmt.Sprintf("inl%d", il.id)
	par := il.parent[call]
	// ---- statement forms ----
	var stmt ast.Stmt
	var lhs []ast.Expr
	define := false
	switch x := par.(type) {
	case *ast.ExprStmt:
		stmt = x
	case *ast.AssignStmt:
		if len(x.Rhs) == 1 && x.Rhs[0] == ast.Expr(call) && (x.Tok == token.ASSIGN || x.Tok == token.DEFINE) {
			stmt, lhs, define = x, x.Lhs, x.Tok == token.DEFINE
		}
	}
	if stmt != nil {
		if il.inList(stmt) {
			body, ok := il.expand(call, ci, k, lhs, define, true)
			if ok {
				il.addEdit(stmt, body, ci)
			}
			return
		}
		if ifs, ok := il.parent[stmt].(*ast.IfStmt); ok && ifs.Init == stmt && (il.inList(ifs) || il.isElse(ifs)) {
			body, ok := il.expand(call, ci, k, lhs, define, true)
			if ok {
				rest := "if " + string(il.src[il.off(ifs.Cond.Pos()):il.off(ifs.End())])
				il.addEdit(ifs, "{ "+body+"; "+oneLine(rest)+" }", ci)
			}
			return
		}
		return
	}
	// ---- expression forms ----
	st := il.enclosingStmt(call)
	if ci.exprBody != nil {
		if sub, ok := il.substitute(call, ci); ok {
			s, e := il.off(call.Pos()), il.off(call.End())
			if !il.overlaps(s, e) && !il.overlapsStmtEdit(call) {
				il.edits = append(il.edits, textEdit{s, e, sub})
				ci.inlined++
				il.notes = append(il.notes, fmt.Sprintf("%s: call of new helper %s substituted by its expression", il.p.Pos(call.Pos()), ci.name))
			}
			return
		}
	}
	// hoist
	if st == nil || !il.hoistable(st, call) {
		return
	}
	sig := ci.sig
	if sig.Results().Len() != 1 {
		return
	}
	tmp := k + "_v"
	tmpIdent := ast.NewIdent(tmp)
	body, ok := il.expand(call, ci, k, []ast.Expr{tmpIdent}, true, false)
	if !ok {
		return
	}
	// statement text with the call replaced by the temporary
	s0, e0 := il.off(st.Pos()), il.off(st.End())
	cs, ce := il.off(call.Pos()), il.off(call.End())
	stText := string(il.src[s0:cs]) + tmp + string(il.src[ce:e0])
	var repl string
	switch st.(type) {
	case *ast.IfStmt, *ast.ReturnStmt, *ast.ExprStmt, *ast.SendStmt, *ast.IncDecStmt:
		repl = "{ " + body + "; " + oneLine(stText) + " }"
	default:
		repl = body + "; " + oneLine(stText)
	}
	il.addEdit(st, repl, ci)
}

// dropDecl blanks the declaration of a helper that has no remaining use (line count preserved).
func (il *inliner) dropDecl(ci *calleeInfo) {
	var n ast.Node = ci.node
	s, e := il.off(n.Pos()), il.off(n.End())
	if ci.decl != nil && ci.decl.Doc != nil {
		s = il.off(ci.decl.Doc.Pos())
	}
	// edits inside the dropped declaration are moot
	var keep []textEdit
	for _, x := range il.edits {
		if !(x.start >= s && x.end <= e) {
			keep = append(keep, x)
		}
	}
	il.edits = keep
	if il.overlaps(s, e) {
		return
	}
	nl := bytes.Count(il.src[s:e], []byte("\n"))
	il.edits = append(il.edits, textEdit{s, e, strings.Repeat("\n", nl)})
	il.notes = append(il.notes, fmt.Sprintf("%s: new helper %s has no remaining use after inlining; declaration dropped from the analysed program", il.p.Pos(ci.node.Pos()), ci.name))
}

func (il *inliner) isElse(ifs *ast.IfStmt) bool {
	if p, ok := il.parent[ifs].(*ast.IfStmt); ok {
		return p.Else == ast.Stmt(ifs)
	}
	return false
}

func (il *inliner) overlapsStmtEdit(n ast.Node) bool {
	return il.overlaps(il.off(n.Pos()), il.off(n.End()))
}

func (il *inliner) addEdit(n ast.Node, text string, ci *calleeInfo) {
	s, e := il.off(n.Pos()), il.off(n.End())
	if il.overlaps(s, e) {
		return
	}
	// keep the number of lines: the replaced range's newlines are re-appended
	nl := bytes.Count(il.src[s:e], []byte("\n"))
	il.edits = append(il.edits, textEdit{s, e, text + strings.Repeat("\n", nl)})
	ci.inlined++
	il.notes = append(il.notes, fmt.Sprintf("%s: call of new helper %s inlined", il.p.Pos(n.Pos()), ci.name))
}

// enclosingStmt: the nearest enclosing statement that sits in a statement list (or is an else-if), without
// crossing a function literal or a loop header.
func (il *inliner) enclosingStmt(n ast.Node) ast.Stmt {
	var child ast.Node = n
	for cur := il.parent[n]; cur != nil; child, cur = cur, il.parent[cur] {
		switch x := cur.(type) {
		case *ast.FuncLit, *ast.FuncDecl:
			return nil
		case *ast.ForStmt, *ast.RangeStmt, *ast.SwitchStmt, *ast.TypeSwitchStmt, *ast.SelectStmt, *ast.CommClause, *ast.CaseClause, *ast.GoStmt, *ast.DeferStmt:
			return nil
		case *ast.IfStmt:
			if child == ast.Node(x.Cond) && x.Init == nil && (il.inList(x) || il.isElse(x)) {
				return x
			}
			return nil
		case ast.Stmt:
			if il.inList(x) {
				switch x.(type) {
				case *ast.ExprStmt, *ast.AssignStmt, *ast.ReturnStmt, *ast.SendStmt, *ast.IncDecStmt, *ast.DeclStmt:
					return x
				}
			}
			return nil
		}
	}
	return nil
}

// hoistable: the call is the first call/receive the statement evaluates and is not evaluated conditionally.
func (il *inliner) hoistable(st ast.Stmt, call *ast.CallExpr) bool {
	var root ast.Node = st
	if ifs, ok := st.(*ast.IfStmt); ok {
		root = ifs.Cond
	}
	ok := true
	found := false
	var visit func(n ast.Node, cond bool)
	visit = func(n ast.Node, cond bool) {
		if n == nil || !ok || found {
			return
		}
		switch x := n.(type) {
		case *ast.FuncLit:
			return
		case *ast.BinaryExpr:
			visit(x.X, cond)
			if x.Op == token.LAND || x.Op == token.LOR {
				visit(x.Y, true)
			} else {
				visit(x.Y, cond)
			}
			return
		case *ast.UnaryExpr:
			if x.Op == token.ARROW {
				visit(x.X, cond)
				if !found {
					ok = false
				}
				return
			}
		case *ast.CallExpr:
			if x == call {
				if cond {
					ok = false
				}
				// the call's own receiver and arguments are evaluated immediately before it in either form
				found = true
				return
			}
			// another call evaluated first (conversions and builtins without effects are fine)
			if tv, isType := il.pk.TypesInfo.Types[x.Fun]; isType && tv.IsType() {
				for _, a := range x.Args {
					visit(a, cond)
				}
				return
			}
			if id, isID := x.Fun.(*ast.Ident); isID {
				if _, isBuiltin := il.pk.TypesInfo.Uses[id].(*types.Builtin); isBuiltin && (id.Name == "len" || id.Name == "cap") {
					for _, a := range x.Args {
						visit(a, cond)
					}
					return
				}
			}
			// does the other call contain ours? then ours is evaluated first only if nothing precedes it
			if x.Pos() <= call.Pos() && call.End() <= x.End() {
				visit(x.Fun, cond)
				for _, a := range x.Args {
					visit(a, cond)
				}
				return
			}
			ok = false
			return
		}
		// generic traversal in source order
		var kids []ast.Node
		ast.Inspect(n, func(m ast.Node) bool {
			if m == nil || m == n {
				return m == n
			}
			kids = append(kids, m)
			return false
		})
		for _, kd := range kids {
			visit(kd, cond)
		}
	}
	visit(root, false)
	return ok && found
}

func hasCall(e ast.Node) bool {
	found := false
	ast.Inspect(e, func(n ast.Node) bool {
		switch x := n.(type) {
		case *ast.CallExpr:
			found = true
		case *ast.FuncLit:
			found = true
		case *ast.UnaryExpr:
			if x.Op == token.ARROW {
				found = true
			}
		}
		return !found
	})
	return found
}

// typeStr prints t as it must be written in il.file.
func (il *inliner) typeStr(t types.Type) (string, bool) {
	ok := true
	names := map[string]string{}
	for _, imp := range il.file.Imports {
		path := strings.Trim(imp.Path.Value, "\"")
		if imp.Name != nil {
			if imp.Name.Name == "." || imp.Name.Name == "_" {
				continue
			}
			names[path] = imp.Name.Name
			continue
		}
		if pn, isPN := il.pk.TypesInfo.Implicits[imp].(*types.PkgName); isPN {
			names[path] = pn.Name()
		}
	}
	s := types.TypeString(t, func(p *types.Package) string {
		if p == il.pk.Types {
			return ""
		}
		if n, found := names[p.Path()]; found {
			return n
		}
		ok = false
		return p.Name()
	})
	return s, ok
}

// shadowed: a package-level or universe name the callee body uses means something else at the call site.
func (il *inliner) shadowed(call *ast.CallExpr, ci *calleeInfo) bool {
	scope := il.pk.Types.Scope().Innermost(call.Pos())
	if scope == nil {
		return true
	}
	bad := false
	ast.Inspect(ci.body, func(n ast.Node) bool {
		id, ok := n.(*ast.Ident)
		if !ok || bad {
			return !bad
		}
		obj := il.pk.TypesInfo.Uses[id]
		if obj == nil {
			return true
		}
		outer := false
		if ci.lit != nil {
			// a closure's free variables (anything declared outside the literal) must be the same variables at the call
			if obj.Parent() != nil && !(obj.Pos() >= ci.lit.Pos() && obj.Pos() <= ci.lit.End()) {
				outer = true
			}
			if _, isLbl := obj.(*types.Label); isLbl {
				bad = true
				return false
			}
		}
		if outer || obj.Parent() == il.pk.Types.Scope() || obj.Parent() == types.Universe || isFileScope(obj) {
			_, found := scope.LookupParent(id.Name, call.Pos())
			if found != obj {
				// imported package names live in file scopes: the caller's file must import it under the same name
				if pn, isPN := obj.(*types.PkgName); isPN {
					if f2, isPN2 := found.(*types.PkgName); isPN2 && f2.Imported() == pn.Imported() {
						return true
					}
				}
				bad = true
			}
		}
		return true
	})
	return bad
}

func isFileScope(obj types.Object) bool {
	_, ok := obj.(*types.PkgName)
	return ok
}

// receiver/parameter objects and the argument texts bound to them
type binding struct {
	obj  *types.Var
	name string // new name
	typ  types.Type
	arg  string
	expr ast.Expr
}

func (il *inliner) bindings(call *ast.CallExpr, ci *calleeInfo, k string) ([]binding, bool) {
	sig := ci.sig
	info := il.pk.TypesInfo
	var bs []binding
	if sig.Recv() != nil {
		sel, ok := call.Fun.(*ast.SelectorExpr)
		if !ok {
			return nil, false
		}
		s := info.Selections[sel]
		if s == nil || len(s.Index()) != 1 || s.Kind() != types.MethodVal {
			return nil, false
		}
		xt := info.TypeOf(sel.X)
		arg := il.text(sel.X)
		_, recvPtr := sig.Recv().Type().(*types.Pointer)
		_, xPtr := xt.Underlying().(*types.Pointer)
		switch {
		case recvPtr && !xPtr:
			arg = "&(" + arg + ")"
		case !recvPtr && xPtr:
			arg = "*(" + arg + ")"
		}
		var robj *types.Var
		if ci.decl != nil && ci.decl.Recv != nil && len(ci.decl.Recv.List) == 1 && len(ci.decl.Recv.List[0].Names) == 1 {
			robj, _ = il.pk.TypesInfo.Defs[ci.decl.Recv.List[0].Names[0]].(*types.Var)
		}
		bs = append(bs, binding{obj: robj, name: k + "_recv", typ: sig.Recv().Type(), arg: arg, expr: sel.X})
	}
	if len(call.Args) != sig.Params().Len() {
		return nil, false // f(g()) multi-value forwarding
	}
	i := 0
	for _, fld := range ci.ftype.Params.List {
		if len(fld.Names) == 0 {
			bs = append(bs, binding{obj: nil, name: fmt.Sprintf("%s_p%d", k, i), typ: sig.Params().At(i).Type(), arg: il.text(call.Args[i]), expr: call.Args[i]})
			i++
			continue
		}
		for _, nm := range fld.Names {
			obj, _ := il.pk.TypesInfo.Defs[nm].(*types.Var)
			bs = append(bs, binding{obj: obj, name: fmt.Sprintf("%s_p%d", k, i), typ: sig.Params().At(i).Type(), arg: il.text(call.Args[i]), expr: call.Args[i]})
			i++
		}
	}
	return bs, true
}

// bodyText renders the callee's body with parameters renamed and returns rewritten.
func (il *inliner) bodyText(ci *calleeInfo, rename map[types.Object]string, results []string, label string) (string, int) {
	fset := il.p.Fset
	base := fset.Position(ci.body.Lbrace).Offset + 1
	end := fset.Position(ci.body.Rbrace).Offset
	var edits []textEdit
	nret := 0
	var walk func(n ast.Node, inLit bool)
	walk = func(n ast.Node, inLit bool) {
		ast.Inspect(n, func(m ast.Node) bool {
			switch x := m.(type) {
			case *ast.FuncLit:
				if m != n {
					walk(x.Body, true)
					return false
				}
			case *ast.Ident:
				var obj types.Object = il.pk.TypesInfo.Uses[x]
				if obj == nil {
					obj = il.pk.TypesInfo.Defs[x]
				}
				if nn, ok := rename[obj]; ok && obj != nil {
					edits = append(edits, textEdit{fset.Position(x.Pos()).Offset, fset.Position(x.End()).Offset, nn})
				}
			case *ast.ReturnStmt:
				if inLit {
					return true
				}
				nret++
				s, e := fset.Position(x.Pos()).Offset, fset.Position(x.End()).Offset
				if len(x.Results) == 0 || len(results) == 0 {
					edits = append(edits, textEdit{s, e, "{ break " + label + " }"})
					return true
				}
				// `return e1, e2` => `{ r1, r2 = e1, e2; break L }` (identifiers inside the expressions are edited separately)
				edits = append(edits, textEdit{s, s + len("return"), "{ " + strings.Join(results, ", ") + " ="})
				edits = append(edits, textEdit{e, e, "; break " + label + " }"})
			}
			return true
		})
	}
	walk(ci.body, false)
	sort.Slice(edits, func(i, j int) bool {
		if edits[i].start != edits[j].start {
			return edits[i].start > edits[j].start
		}
		return edits[i].end > edits[j].end
	})
	b := append([]byte{}, ci.src[base:end]...)
	for _, e := range edits {
		s, en := e.start-base, e.end-base
		if s < 0 || en > len(b) {
			continue
		}
		b = append(b[:s], append([]byte(e.text), b[en:]...)...)
	}
	return string(b), nret
}

// expand produces the statement text that evaluates the call in place and assigns its results to lhs.
func (il *inliner) expand(call *ast.CallExpr, ci *calleeInfo, k string, lhs []ast.Expr, define bool, lhsFromSource bool) (string, bool) {
	if il.shadowed(call, ci) {
		return "", false
	}
	sig := ci.sig
	if lhs != nil && len(lhs) != sig.Results().Len() {
		return "", false
	}
	bs, ok := il.bindings(call, ci, k)
	if !ok {
		return "", false
	}
	var sb strings.Builder
	// outer declarations for := targets
	lhsText := make([]string, len(lhs))
	for i, l := range lhs {
		if id, isID := l.(*ast.Ident); isID {
			lhsText[i] = id.Name
			if define && id.Name != "_" {
				isNew := !lhsFromSource || il.pk.TypesInfo.Defs[id] != nil
				if isNew {
					ts, ok := il.typeStr(sig.Results().At(i).Type())
					if !ok {
						return "", false
					}
					fmt.Fprintf(&sb, "var %s %s; ", id.Name, ts)
				}
			}
		} else {
			if hasCall(l) {
				return "", false
			}
			lhsText[i] = il.text(l)
		}
	}
	sb.WriteString("{ ")
	rename := map[types.Object]string{}
	for _, b := range bs {
		ts, ok := il.typeStr(b.typ)
		if !ok {
			return "", false
		}
		fmt.Fprintf(&sb, "var %s %s = %s; _ = %s; ", b.name, ts, oneLine(b.arg), b.name)
		if b.obj != nil {
			rename[b.obj] = b.name
		}
	}
	var results []string
	if ci.ftype.Results != nil {
		i := 0
		for _, fld := range ci.ftype.Results.List {
			n := len(fld.Names)
			if n == 0 {
				n = 1
			}
			for j := 0; j < n; j++ {
				rn := fmt.Sprintf("%s_r%d", k, i)
				ts, ok := il.typeStr(sig.Results().At(i).Type())
				if !ok {
					return "", false
				}
				fmt.Fprintf(&sb, "var %s %s; _ = %s; ", rn, ts, rn)
				if len(fld.Names) > 0 {
					if obj := il.pk.TypesInfo.Defs[fld.Names[j]]; obj != nil {
						rename[obj] = rn
					}
				}
				results = append(results, rn)
				i++
			}
		}
	}
	label := k + "_L"
	body, nret := il.bodyText(ci, rename, results, label)
	if nret > 0 {
		fmt.Fprintf(&sb, "%s: switch { default: %s }; ", label, oneLine(body))
	} else {
		fmt.Fprintf(&sb, "{ %s }; ", oneLine(body))
	}
	// assign results
	var ls, rs []string
	for i, l := range lhsText {
		if l == "_" {
			continue
		}
		ls = append(ls, l)
		rs = append(rs, results[i])
	}
	if len(ls) > 0 {
		fmt.Fprintf(&sb, "%s = %s; ", strings.Join(ls, ", "), strings.Join(rs, ", "))
	}
	sb.WriteString("}")
	return sb.String(), true
}

// substitute: callee is `return expr`; arguments are call-free.
func (il *inliner) substitute(call *ast.CallExpr, ci *calleeInfo) (string, bool) {
	if il.shadowed(call, ci) {
		return "", false
	}
	bs, ok := il.bindings(call, ci, "x")
	if !ok {
		return "", false
	}
	info := il.pk.TypesInfo
	fset := il.p.Fset
	repl := map[types.Object]string{}
	for _, b := range bs {
		if hasCall(b.expr) {
			return "", false
		}
		if b.obj == nil {
			continue
		}
		at := info.TypeOf(b.expr)
		txt := "(" + oneLine(b.arg) + ")"
		if at == nil || !types.Identical(at, b.typ) {
			if _, isIface := b.typ.Underlying().(*types.Interface); isIface {
				return "", false
			}
			ts, ok := il.typeStr(b.typ)
			if !ok {
				return "", false
			}
			txt = "(" + ts + ")" + txt
		}
		repl[b.obj] = txt
	}
	// no function literal in the expression (captured variables would change meaning)
	if hasFuncLit(ci.exprBody) {
		return "", false
	}
	base := fset.Position(ci.exprBody.Pos()).Offset
	end := fset.Position(ci.exprBody.End()).Offset
	var edits []textEdit
	ast.Inspect(ci.exprBody, func(n ast.Node) bool {
		if id, ok := n.(*ast.Ident); ok {
			if obj := info.Uses[id]; obj != nil {
				if t, found := repl[obj]; found {
					edits = append(edits, textEdit{fset.Position(id.Pos()).Offset - base, fset.Position(id.End()).Offset - base, t})
				}
			}
		}
		return true
	})
	sort.Slice(edits, func(i, j int) bool { return edits[i].start > edits[j].start })
	b := append([]byte{}, ci.src[base:end]...)
	for _, e := range edits {
		b = append(b[:e.start], append([]byte(e.text), b[e.end:]...)...)
	}
	sig := ci.sig
	rt := sig.Results().At(0).Type()
	// no conversion when the expression already has the result type (a conversion around `a && b` would also hide
	// the short-circuit structure from the control-flow graph)
	if et := info.TypeOf(ci.exprBody); et != nil {
		if types.Identical(et, rt) || (isUntyped(et) && types.Identical(types.Default(et), rt)) {
			if bt, isBasic := rt.Underlying().(*types.Basic); isBasic && (bt.Info()&types.IsBoolean != 0 || !isUntyped(et)) {
				return "(" + oneLine(string(b)) + ")", true
			}
		}
	}
	ts, ok := il.typeStr(rt)
	if !ok {
		return "", false
	}
	return "(" + ts + ")(" + oneLine(string(b)) + ")", true
}

func isUntyped(t types.Type) bool {
	b, ok := t.(*types.Basic)
	return ok && b.Info()&types.IsUntyped != 0
}

func hasFuncLit(e ast.Node) bool {
	found := false
	ast.Inspect(e, func(n ast.Node) bool {
		if _, ok := n.(*ast.FuncLit); ok {
			found = true
		}
		return !found
	})
	return found
}

// oneLine re-tokenises Go source text onto a single line (automatic semicolons made explicit, comments dropped).
func oneLine(src string) string {
	fset := token.NewFileSet()
	f := fset.AddFile("", fset.Base(), len(src))
	var s scanner.Scanner
	s.Init(f, []byte(src), nil, 0)
	var sb strings.Builder
	for {
		_, tok, lit := s.Scan()
		if tok == token.EOF {
			break
		}
		switch {
		case tok == token.SEMICOLON:
			sb.WriteString("; ")
		case lit != "":
			sb.WriteString(lit)
			sb.WriteString(" ")
		default:
			sb.WriteString(tok.String())
			sb.WriteString(" ")
		}
	}
	out := strings.TrimSpace(sb.String())
	return strings.TrimSuffix(out, ";")
}
