package core

import (
	"golang.org/x/tools/go/ssa"
)

// Inf is the "unbounded" count.
const Inf = 1 << 30

// CountQuery counts events on all CFG paths from a start point to the end of a region.
type CountQuery struct {
	Fn *ssa.Function
	// Start: paths begin just after this instruction ...
	Start ssa.Instruction
	// ... or at the beginning of StartBlock (if Start is nil).
	StartBlock *ssa.BasicBlock
	// Stop: a path ends when control is about to enter a block for which Stop returns true
	// (typically the loop header, or any block outside the loop). The label classifies the end.
	Stop func(from *ssa.BasicBlock, to *ssa.BasicBlock) (stop bool, label string)
	// Weight of an instruction (0 = not an event).
	Event func(ssa.Instruction) int
	// EdgeOK filters edges (nil = all).
	EdgeOK func(from *ssa.BasicBlock, succ int) bool
	// EdgeEvent gives a weight to taking the edge from -> from.Succs[succ] (nil = none).
	EdgeEvent func(from *ssa.BasicBlock, succ int) int
	// Cut: paths stop (and are dropped, not counted) before an instruction for which Cut returns true.
	Cut func(ssa.Instruction) bool
}

// CountResult holds min/max per end label; a Return / function exit has label "return".
type CountResult struct {
	Min, Max map[string]int
	// Witness blocks of a max path per label (block indices), for diagnostics.
}

// Run evaluates the query. Inner cycles that contain events make Max = Inf for the labels
// reachable through them; event-free inner cycles are ignored (they cannot change a count).
func (q CountQuery) Run() CountResult {
	type node = *ssa.BasicBlock
	startB := q.StartBlock
	startIdx := 0
	if q.Start != nil {
		startB = q.Start.Block()
		startIdx = InstrIndex(q.Start) + 1
	}
	// events of block from idx; cut => block truncated, no successors
	type binfo struct {
		ev  int
		cut bool
	}
	info := func(b node, from int) binfo {
		var bi binfo
		for i := from; i < len(b.Instrs); i++ {
			if q.Cut != nil && q.Cut(b.Instrs[i]) {
				bi.cut = true
				return bi
			}
			if q.Event != nil {
				bi.ev += q.Event(b.Instrs[i])
			}
		}
		return bi
	}
	// region graph: nodes reachable from start without crossing Stop edges. The start block with
	// startIdx>0 is a distinct virtual node (id -1) so that re-entering the block from the top counts fully.
	type key struct {
		b       node
		partial bool
		edge    int // >0: virtual node standing for the edge b -> b.Succs[edge-1]
	}
	succs := map[key][]key{}
	ends := map[key][]string{} // end labels directly after this node
	evs := map[key]int{}
	var order []key
	seen := map[key]bool{}
	var build func(k key)
	build = func(k key) {
		if seen[k] {
			return
		}
		seen[k] = true
		order = append(order, k)
		from := 0
		if k.partial {
			from = startIdx
		}
		bi := info(k.b, from)
		evs[k] = bi.ev
		if bi.cut {
			return
		}
		if len(k.b.Succs) == 0 {
			// Return or Panic
			if _, ok := k.b.Instrs[len(k.b.Instrs)-1].(*ssa.Return); ok {
				ends[k] = append(ends[k], "return")
			} else {
				ends[k] = append(ends[k], "panic")
			}
			return
		}
		for si, s := range k.b.Succs {
			if q.EdgeOK != nil && !q.EdgeOK(k.b, si) {
				continue
			}
			src := k
			if q.EdgeEvent != nil {
				if w := q.EdgeEvent(k.b, si); w > 0 {
					vk := key{k.b, false, si + 1}
					if !seen[vk] {
						seen[vk] = true
						order = append(order, vk)
						evs[vk] = w
					}
					succs[k] = append(succs[k], vk)
					src = vk
				}
			}
			if q.Stop != nil {
				if stop, label := q.Stop(k.b, s); stop {
					ends[src] = appendUniqStr(ends[src], label)
					continue
				}
			}
			nk := key{s, false, 0}
			succs[src] = append(succs[src], nk)
			build(nk)
		}
	}
	start := key{startB, startIdx > 0, 0}
	build(start)
	// Tarjan SCC
	index := map[key]int{}
	low := map[key]int{}
	onStack := map[key]bool{}
	comp := map[key]int{}
	var stack []key
	var comps [][]key
	idx := 0
	var strong func(v key)
	strong = func(v key) {
		index[v] = idx
		low[v] = idx
		idx++
		stack = append(stack, v)
		onStack[v] = true
		for _, w := range succs[v] {
			if _, ok := index[w]; !ok {
				strong(w)
				if low[w] < low[v] {
					low[v] = low[w]
				}
			} else if onStack[w] && index[w] < low[v] {
				low[v] = index[w]
			}
		}
		if low[v] == index[v] {
			var c []key
			for {
				w := stack[len(stack)-1]
				stack = stack[:len(stack)-1]
				onStack[w] = false
				comp[w] = len(comps)
				c = append(c, w)
				if w == v {
					break
				}
			}
			comps = append(comps, c)
		}
	}
	for _, k := range order {
		if _, ok := index[k]; !ok {
			strong(k)
		}
	}
	// per component: min events to traverse is approximated by per-node DP inside an acyclic view.
	// cyclic component with events => Inf max; min computed by shortest path (Bellman-style relaxation).
	cyclic := make([]bool, len(comps))
	cycEv := make([]bool, len(comps))
	for ci, c := range comps {
		if len(c) > 1 {
			cyclic[ci] = true
		}
		for _, k := range c {
			for _, w := range succs[k] {
				if w == k {
					cyclic[ci] = true
				}
			}
		}
		if cyclic[ci] {
			for _, k := range c {
				if evs[k] > 0 {
					cycEv[ci] = true
				}
			}
		}
	}
	res := CountResult{Min: map[string]int{}, Max: map[string]int{}}
	// min: Dijkstra-like relaxation over nodes (non-negative weights)
	distMin := map[key]int{start: evs[start]}
	changed := true
	for changed {
		changed = false
		for _, k := range order {
			d, ok := distMin[k]
			if !ok {
				continue
			}
			for _, w := range succs[k] {
				nd := d + evs[w]
				if old, ok := distMin[w]; !ok || nd < old {
					distMin[w] = nd
					changed = true
				}
			}
		}
	}
	// max: longest path over condensation DAG; Tarjan emits components in reverse topological order
	// (a component is emitted after all components reachable from it), so iterate comps from last to first.
	distMax := map[key]int{start: evs[start]}
	for ci := len(comps) - 1; ci >= 0; ci-- {
		c := comps[ci]
		// propagate inside a cyclic component: if it has events and is reached, all nodes get Inf; else max of entries
		if cyclic[ci] {
			best, reached := 0, false
			for _, k := range c {
				if d, ok := distMax[k]; ok {
					reached = true
					if d > best {
						best = d
					}
				}
			}
			if reached {
				// nodes in an event-free cycle all have weight 0 except possibly entry weights already included
				for _, k := range c {
					if cycEv[ci] {
						distMax[k] = Inf
					} else {
						distMax[k] = best
					}
				}
			}
		}
		for _, k := range c {
			d, ok := distMax[k]
			if !ok {
				continue
			}
			for _, w := range succs[k] {
				if comp[w] == ci {
					continue
				}
				nd := d + evs[w]
				if d >= Inf {
					nd = Inf
				}
				if old, ok := distMax[w]; !ok || nd > old {
					distMax[w] = nd
				}
			}
		}
	}
	for _, k := range order {
		for _, label := range ends[k] {
			if d, ok := distMin[k]; ok {
				if old, ok := res.Min[label]; !ok || d < old {
					res.Min[label] = d
				}
			}
			if d, ok := distMax[k]; ok {
				if old, ok := res.Max[label]; !ok || d > old {
					res.Max[label] = d
				}
			}
		}
	}
	return res
}

// LoopOf returns the innermost natural loop of fn containing ins, or nil.
func LoopOf(fn *ssa.Function, ins ssa.Instruction) *Loop {
	var best *Loop
	for _, l := range NaturalLoops(fn) {
		if l.Contains(ins) && (best == nil || len(l.Blocks) < len(best.Blocks)) {
			best = l
		}
	}
	return best
}

// IterationStop returns a Stop function for one iteration of loop l: entering the header is
// "latch", leaving the loop is "exit".
func IterationStop(l *Loop) func(from, to *ssa.BasicBlock) (bool, string) {
	return func(from, to *ssa.BasicBlock) (bool, string) {
		if to == l.Header {
			return true, "latch"
		}
		if !l.Blocks[to] {
			return true, "exit"
		}
		return false, ""
	}
}

func appendUniqStr(s []string, x string) []string {
	for _, y := range s {
		if y == x {
			return s
		}
	}
	return append(s, x)
}
