package core

import (
	"bufio"
	"encoding/json"
	"fmt"
	"go/token"
	"os"
	"path/filepath"
	"regexp"
	"sort"
	"strings"
	"time"
)

// Status of one examined rule instance.
type Status string

const (
	Proved    Status = "proved"
	Violated  Status = "violated"
	Undecided Status = "undecided" // the rule could not decide: reported like a violation, never a silent pass
	Info      Status = "info"      // recorded for the evidence only
)

// Instance is one obligation / site / table entry a rule examined.
type Instance struct {
	Rule      string `json:"rule"`
	Construct string `json:"construct"` // stable key: function + normalised expression, never a line number
	Pos       string `json:"pos,omitempty"`
	Status    Status `json:"status"`
	Detail    string `json:"detail,omitempty"`
	Known     bool   `json:"known_finding,omitempty"`
}

// RuleRun collects the instances of one rule.
type RuleRun struct {
	ID        string
	Desc      string
	Floor     int
	Instances []*Instance
	rep       *Report
}

// Report collects everything one property check did.
type Report struct {
	Prop        string
	Tier        string
	Seed        int64
	Prog        *Program
	Rules       []*RuleRun
	Assumptions []string
	Trusted     []string
	Explanation string
	Extra       map[string]interface{}
	start       time.Time
	known       []knownFinding
	fixed       []knownFinding
	VerifDir    string
	Quiet       bool
}

type knownFinding struct {
	Prop, Rule, Construct, Text, Commit string
	used                                bool
}

// NewReport creates a report and loads known_findings.txt from verifDir.
func NewReport(prop, tier string, seed int64, prog *Program, verifDir string) *Report {
	r := &Report{Prop: prop, Tier: tier, Seed: seed, Prog: prog, start: ProcessStart, VerifDir: verifDir, Extra: map[string]interface{}{}}
	if verifDir != "" {
		r.loadKnown(filepath.Join(verifDir, "known_findings.txt"))
	}
	return r
}

var kfRe = regexp.MustCompile(`^(finding|fixed):\s+property=(\S+)\s+(?:commit=(\S+)\s+)?rule=(\S+)\s+construct=(\S+)\s*(.*)$`)

func (r *Report) loadKnown(path string) {
	f, err := os.Open(path)
	if err != nil {
		return
	}
	defer f.Close()
	sc := bufio.NewScanner(f)
	for sc.Scan() {
		line := strings.TrimSpace(sc.Text())
		if line == "" || strings.HasPrefix(line, "#") {
			continue
		}
		m := kfRe.FindStringSubmatch(line)
		if m == nil {
			continue
		}
		k := knownFinding{Prop: m[2], Commit: m[3], Rule: m[4], Construct: m[5], Text: m[6]}
		if m[1] == "finding" {
			r.known = append(r.known, k)
		} else {
			r.fixed = append(r.fixed, k)
		}
	}
}

// ProcessStart is when this process began (loading and type-checking /repo is part of every check).
var ProcessStart = time.Now()

// Rule starts (or continues) a rule.
func (r *Report) Rule(id, desc string, floor int) *RuleRun {
	for _, x := range r.Rules {
		if x.ID == id {
			return x
		}
	}
	rr := &RuleRun{ID: id, Desc: desc, Floor: floor, rep: r}
	r.Rules = append(r.Rules, rr)
	return rr
}

func (rr *RuleRun) add(st Status, construct string, pos token.Pos, detail string) *Instance {
	construct = strings.ReplaceAll(construct, " ", "")
	in := &Instance{Rule: rr.ID, Construct: construct, Status: st, Detail: detail}
	if pos.IsValid() && rr.rep.Prog != nil {
		in.Pos = rr.rep.Prog.Pos(pos)
	}
	rr.Instances = append(rr.Instances, in)
	return in
}

// OK records a discharged instance.
func (rr *RuleRun) OK(construct string, pos token.Pos, detail string) {
	rr.add(Proved, construct, pos, detail)
}

// Fail records a violation.
func (rr *RuleRun) Fail(construct string, pos token.Pos, detail string) {
	rr.add(Violated, construct, pos, detail)
}

// Undecided records an instance the rule could not decide (treated as a violation).
func (rr *RuleRun) Undecided(construct string, pos token.Pos, detail string) {
	rr.add(Undecided, construct, pos, detail)
}

// Note records an informational instance.
func (rr *RuleRun) Note(construct string, pos token.Pos, detail string) {
	rr.add(Info, construct, pos, detail)
}

// Check records OK or Fail depending on cond.
func (rr *RuleRun) Check(cond bool, construct string, pos token.Pos, okDetail, failDetail string) bool {
	if cond {
		rr.OK(construct, pos, okDetail)
	} else {
		rr.Fail(construct, pos, failDetail)
	}
	return cond
}

// Assume records an assumption (printed in the evidence).
func (r *Report) Assume(s string) {
	for _, a := range r.Assumptions {
		if a == s {
			return
		}
	}
	r.Assumptions = append(r.Assumptions, s)
}

// Trust records a trusted-base element.
func (r *Report) Trust(s string) {
	for _, a := range r.Trusted {
		if a == s {
			return
		}
	}
	r.Trusted = append(r.Trusted, s)
}

type evidence struct {
	PropertyID  string                 `json:"property_id"`
	Tier        string                 `json:"tier"`
	Seed        int64                  `json:"seed"`
	Level       string                 `json:"level"`
	Coverage    map[string]interface{} `json:"coverage"`
	Assumptions []string               `json:"assumptions"`
	WallS       float64                `json:"wall_s"`
	Violations  int                    `json:"violations"`
}

// Finish writes the evidence file and violation files, prints the summary and VIOLATION /
// KNOWN-FINDING lines, and returns the process exit code.
func (r *Report) Finish() int {
	evDir := filepath.Join(r.VerifDir, "evidence")
	vioDir := filepath.Join(evDir, "violations")
	os.MkdirAll(vioDir, 0o755)
	// remove stale violation files of this property
	if old, _ := filepath.Glob(filepath.Join(vioDir, r.Prop+"-*.json")); len(old) > 0 {
		for _, f := range old {
			os.Remove(f)
		}
	}
	total, discharged, nviol, nknown := 0, 0, 0, 0
	var rules []map[string]interface{}
	var samples []interface{}
	var all []map[string]string
	var vioLines []string
	var knownLines []string
	for _, rr := range r.Rules {
		counts := map[Status]int{}
		for _, in := range rr.Instances {
			counts[in.Status]++
			all = append(all, map[string]string{"rule": in.Rule, "construct": in.Construct, "pos": in.Pos, "status": string(in.Status), "detail": in.Detail})
			if in.Status == Info {
				continue
			}
			total++
			if in.Status == Proved {
				discharged++
				continue
			}
			// violated or undecided: known finding?
			if k := r.matchKnown(in); k != nil {
				in.Known = true
				nknown++
				knownLines = append(knownLines, fmt.Sprintf("KNOWN-FINDING: property=%s rule=%s construct=%s %s [%s]", r.Prop, in.Rule, in.Construct, k.Text, in.Pos))
				continue
			}
			nviol++
			file := filepath.Join(vioDir, fmt.Sprintf("%s-%03d.json", r.Prop, nviol))
			b, _ := json.MarshalIndent(map[string]interface{}{
				"property": r.Prop, "rule": in.Rule, "rule_desc": rr.Desc, "construct": in.Construct,
				"pos": in.Pos, "status": in.Status, "detail": in.Detail, "tier": r.Tier,
			}, "", " ")
			os.WriteFile(file, b, 0o644)
			vioLines = append(vioLines, fmt.Sprintf("VIOLATION property=%s replay=%s", r.Prop, file))
			if !r.Quiet {
				fmt.Printf("  %s %s %s at %s: %s\n", strings.ToUpper(string(in.Status)), in.Rule, in.Construct, in.Pos, in.Detail)
			}
		}
		n := counts[Proved] + counts[Violated] + counts[Undecided]
		floorOK := n >= rr.Floor
		if !floorOK {
			nviol++
			file := filepath.Join(vioDir, fmt.Sprintf("%s-%03d.json", r.Prop, nviol))
			msg := fmt.Sprintf("rule %s examined %d instances, below its floor %d: anchors not resolved (vacuous pass refused)", rr.ID, n, rr.Floor)
			b, _ := json.MarshalIndent(map[string]interface{}{"property": r.Prop, "rule": rr.ID, "rule_desc": rr.Desc, "construct": "floor", "status": Undecided, "detail": msg, "tier": r.Tier}, "", " ")
			os.WriteFile(file, b, 0o644)
			vioLines = append(vioLines, fmt.Sprintf("VIOLATION property=%s replay=%s", r.Prop, file))
			if !r.Quiet {
				fmt.Println("  UNDECIDED " + msg)
			}
		}
		rules = append(rules, map[string]interface{}{
			"rule": rr.ID, "desc": rr.Desc, "floor": rr.Floor, "examined": n,
			"proved": counts[Proved], "violated": counts[Violated], "undecided": counts[Undecided], "info": counts[Info],
		})
		if !r.Quiet {
			fmt.Printf("rule %-8s examined=%-4d proved=%-4d violated=%d undecided=%d floor=%d  %s\n", rr.ID, n, counts[Proved], counts[Violated], counts[Undecided], rr.Floor, rr.Desc)
		}
		// samples: up to 4 per rule, violations first
		ins := append([]*Instance(nil), rr.Instances...)
		sort.SliceStable(ins, func(i, j int) bool { return rank(ins[i].Status) < rank(ins[j].Status) })
		for i, in := range ins {
			if i >= 4 {
				break
			}
			samples = append(samples, in)
		}
	}
	for _, k := range r.known {
		if k.Prop == r.Prop && !k.used && !r.Quiet {
			fmt.Printf("note: known finding no longer reproduced: rule=%s construct=%s\n", k.Rule, k.Construct)
		}
	}
	cov := map[string]interface{}{
		"explanation":         r.Explanation,
		"obligations":         total,
		"discharged":          discharged,
		"known_findings":      nknown,
		"evaluations":         total,
		"distinct_nontrivial": total,
		"rule":                "one evaluation = one rule instance (site, obligation, table entry) resolved semantically in /repo's current source; all are distinct constructs",
		"rules":               rules,
		"samples":             samples,
		"instances":           all,
		"checker_cmd":         fmt.Sprintf("bin/vfcheck -prop %s -tier %s -repo %s", r.Prop, r.Tier, r.Prog.RepoDir),
		"trusted_base":        r.Trusted,
		"packages_loaded":     len(r.Prog.Pkgs),
		"repo_functions":      len(r.Prog.RepoFuncs()),
		"goarch":              r.Prog.GOARCH,
	}
	if r.Trusted == nil {
		cov["trusted_base"] = []string{}
	}
	for k, v := range r.Extra {
		cov[k] = v
	}
	if len(samples) == 0 {
		cov["samples"] = []interface{}{"no instances"}
	}
	ev := evidence{PropertyID: r.Prop, Tier: r.Tier, Seed: r.Seed, Level: "other", Coverage: cov,
		Assumptions: r.Assumptions, WallS: time.Since(r.start).Seconds(), Violations: nviol}
	if ev.Assumptions == nil {
		ev.Assumptions = []string{}
	}
	b, _ := json.MarshalIndent(ev, "", " ")
	if err := os.WriteFile(filepath.Join(evDir, r.Prop+".json"), b, 0o644); err != nil {
		fmt.Println("cannot write evidence:", err)
		return 2
	}
	for _, l := range knownLines {
		fmt.Println(l)
	}
	for _, l := range vioLines {
		fmt.Println(l)
	}
	if !r.Quiet {
		fmt.Printf("property %s tier=%s: %d instances, %d discharged, %d known findings, %d violations, %.1fs\n", r.Prop, r.Tier, total, discharged, nknown, nviol, ev.WallS)
	}
	if nviol > 0 {
		return 1
	}
	return 0
}

func rank(s Status) int {
	switch s {
	case Violated:
		return 0
	case Undecided:
		return 1
	case Proved:
		return 2
	}
	return 3
}

func (r *Report) matchKnown(in *Instance) *knownFinding {
	for i := range r.known {
		k := &r.known[i]
		if k.Prop == r.Prop && k.Rule == in.Rule && k.Construct == in.Construct {
			k.used = true
			return k
		}
	}
	return nil
}

// Violations returns the non-proved, non-info instances (before known-finding matching).
func (r *Report) Violations() []*Instance {
	var out []*Instance
	for _, rr := range r.Rules {
		for _, in := range rr.Instances {
			if in.Status == Violated || in.Status == Undecided {
				out = append(out, in)
			}
		}
	}
	return out
}

// Prog returns the program under analysis.
func (r *RuleRun) Prog() *Program { return r.rep.Prog }
